// C04 — accelerated code paths give the same answers as the plain ones.  DESIGN.md §5 C04.
// One sub-property per differential pair (fast path, reference path); see agents/C04/REPORT.txt.
#include "verif.hpp"
#include "geo_common.hpp"
#include "krig_common.hpp"

#include "Estimation/KrigingCalcul.hpp"
#include "Calculators/CalcMigrate.hpp"
#include "Covariances/CovCalcMode.hpp"
#include "Covariances/ACovAnisoList.hpp"
#include "Matrix/MatrixSquareSymmetric.hpp"
#include "Matrix/MatrixRectangular.hpp"
#include "Enum/ECalcMember.hpp"

using namespace vf;
using namespace vfkrig;

// ====================================================================== shared helpers ==
static std::vector<int> admissibleAll(const KCase& c)
{
  std::vector<int> r;
  for (int i = 0; i < c.n(); i++)
    if (c.active(i) && c.anyDef(i)) r.push_back(i); // data without external drift are dropped by Oracle::layout, like the library
  return r;
}
static KCase dropSample(const KCase& c, int i0)
{
  KCase r = c;
  int n = c.n();
  r.data.c.clear();
  r.z.clear();
  r.sel.clear();
  r.verr.clear();
  r.fdat.clear();
  for (int i = 0; i < n; i++)
  {
    if (i == i0) continue;
    r.data.push(c.data.p(i));
    for (int v = 0; v < c.nvar; v++) r.z.push_back(c.z[(size_t)(i * c.nvar + v)]);
    if (!c.sel.empty()) r.sel.push_back(c.sel[(size_t)i]);
    if (!c.verr.empty())
      for (int v = 0; v < c.nvar; v++) r.verr.push_back(c.verr[(size_t)(i * c.nvar + v)]);
    for (int f = 0; f < c.nfex; f++) r.fdat.push_back(c.fdat[(size_t)(i * c.nfex + f)]);
  }
  return r;
}
static KCase addSample(const KCase& c, const double* x, const std::vector<double>& z, const double* f)
{
  KCase r = c;
  r.data.push(x);
  for (int v = 0; v < c.nvar; v++) r.z.push_back(z[(size_t)v]);
  if (!c.sel.empty()) r.sel.push_back(1);
  if (!c.verr.empty())
    for (int v = 0; v < c.nvar; v++) r.verr.push_back(0.);
  for (int k = 0; k < c.nfex; k++) r.fdat.push_back(f[k]);
  return r;
}
static KCase oneTarget(const KCase& c, const double* x, const double* f)
{
  KCase r = c;
  r.block = 0;
  r.targ.c.clear();
  r.targ.ndim = c.ndim;
  r.targ.push(x);
  r.ftar.clear();
  for (int k = 0; k < c.nfex; k++) r.ftar.push_back(f[k]);
  return r;
}

// results of one kriging() call, read by prefix
struct KRes
{
  int err = 0;
  bool cols = true;
  std::vector<double> est, sd, vz; // [k*nvar+v]
};
static KRes runK(Db* dbin, Db* dbout, Model* model, ANeigh* neigh, int nvar, bool block, const VectorInt& nd,
                 const VectorInt& colcok, const std::string& prefix, bool wantVarz)
{
  KRes o;
  int nt = dbout->getSampleNumber();
  o.err = kriging(dbin, dbout, model, neigh, block ? EKrigOpt::BLOCK : EKrigOpt::POINT, true, true, wantVarz, nd, colcok,
                  nullptr, NamingConvention(prefix));
  if (o.err) return o;
  o.est.assign((size_t)(nt * nvar), NA);
  o.sd.assign((size_t)(nt * nvar), NA);
  if (wantVarz) o.vz.assign((size_t)(nt * nvar), NA);
  for (int v = 0; v < nvar; v++)
  {
    std::string base = prefix + ".z" + std::to_string(v + 1);
    if (dbout->getUID(base + ".estim") < 0 || dbout->getUID(base + ".stdev") < 0 || (wantVarz && dbout->getUID(base + ".varz") < 0))
    {
      o.cols = false;
      return o;
    }
    VectorDouble e = dbout->getColumn(base + ".estim", false), s = dbout->getColumn(base + ".stdev", false), z;
    if (wantVarz) z = dbout->getColumn(base + ".varz", false);
    if ((int)e.size() != nt || (int)s.size() != nt || (wantVarz && (int)z.size() != nt)) { o.cols = false; return o; }
    for (int k = 0; k < nt; k++)
    {
      o.est[(size_t)(k * nvar + v)] = e[k];
      o.sd[(size_t)(k * nvar + v)] = s[k];
      if (wantVarz) o.vz[(size_t)(k * nvar + v)] = z[k];
    }
  }
  return o;
}

struct Orc
{
  std::unique_ptr<Model> om;
  std::unique_ptr<Oracle> o;
};
// the KCase must outlive the oracle
static bool makeOracle(const KCase& c, const Db* dbout, Orc& R)
{
  Ctx d;
  R.om = buildModel(c, d);
  if (!R.om) return false;
  R.om->setField(Oracle::fieldOf(c, dbout));
  R.o.reset(new Oracle(c, R.om.get()));
  return true;
}
static TargetGeom pointGeom(int ndim, const double* x)
{
  TargetGeom g;
  g.x0.assign(x, x + ndim);
  return g;
}

// tolerances for two evaluations of the same kriging system (DESIGN §3): kappa-scaled, factor 2 because both
// sides carry round-off
struct Tol
{
  LD e = 0, v = 0;
};
static Tol tolOf(const Sys& S, double eta, int tv, double kappa)
{
  double ek = epsK(std::max(S.kappa, kappa), eta);
  Tol t;
  t.e = 2 * ((LD)ek * S.scaleE[(size_t)tv] + floorE(S, eta));
  t.v = 2 * ((LD)ek * S.scaleV[(size_t)tv] + floorV(S, eta, tv));
  return t;
}
static bool bothNA(double a, double b) { return isNA(a) && isNA(b); }

// compare one (target, variable) of two result sets; a = fast path, b = reference path
static bool cmpVal(Ctx& ctx, const std::string& key, const char* what, int k, int tv, double a, double b, LD tol, double kappa,
                   bool squared = false)
{
  if (bothNA(a, b)) return true;
  if (isNA(a) || isNA(b) || std::isnan(a) || std::isnan(b))
  {
    ctx.fail(key + ":na", fmt("target %d var %d: %s fast path %g, reference path %g (one side undefined; kappa %.3g)", k, tv, what, a, b, kappa));
    return false;
  }
  LD x = squared ? (LD)a * a : (LD)a, y = squared ? (LD)b * b : (LD)b;
  if (fabsl(x - y) > tol)
  {
    ctx.fail(key, fmt("target %d var %d: %s%s fast path %.15Lg, reference path %.15Lg (diff %.3Lg, tol %.3Lg, kappa %.3g)", k, tv, what,
                      squared ? "^2" : "", x, y, fabsl(x - y), tol, kappa));
    return false;
  }
  return true;
}

static bool interesting(const KCase& c) { return !c.sel.empty() || c.heterotopic() || c.st.size() >= 2 || c.rotatedAniso(); }

// ====================================================================== 1. covariance matrices ==
struct CovCase
{
  KCase k;                 // db1 = data of k; structures of k; db2 = k.targ
  int db2mode = 0;         // 0: db2 absent (db1 itself); 1: separate Db without variables; 2: separate Db with variables
  std::vector<double> z2;  // ntarg*nvar (db2mode 2)
  std::vector<int> sel2;   // empty or ntarg flags
  int ivar0 = -1, jvar0 = -1;
  std::vector<int> nbgh1, nbgh2;
  int hasMode = 0, asVario = 0, unitary = 0, orderVario = 0, allActive = 1;
  std::vector<int> active;
  int optimFirst = 0;
  template<class A> void io(A& a)
  {
    a("k", k)("db2mode", db2mode)("z2", z2)("sel2", sel2)("ivar0", ivar0)("jvar0", jvar0)("nbgh1", nbgh1)("nbgh2", nbgh2)(
      "hasMode", hasMode)("asVario", asVario)("unitary", unitary)("orderVario", orderVario)("allActive", allActive)("active", active)(
      "optimFirst", optimFirst);
  }
};
static std::vector<int> genSubset(int n)
{
  std::vector<int> r;
  if (n <= 0 || G::pct(35)) return r;
  std::vector<int> p = G::perm(n);
  int m = G::i(1, n);
  r.assign(p.begin(), p.begin() + m);
  if (G::pct(50)) std::sort(r.begin(), r.end());
  return r;
}
static CovCase genCov()
{
  CovCase c;
  GenOpt o;
  o.heteroPct = 50;
  o.selPct = 40;
  o.verrPct = 40;
  o.movingPct = 0;
  o.intrinsicPct = 20;
  o.nMax = 30;
  o.onDataPct = 20;
  c.k = genCase(o);
  int nv = c.k.nvar, nt = c.k.ntarg(), n = c.k.n();
  c.db2mode = G::pick<int>({0, 1, 1, 2});
  if (c.db2mode == 2)
  {
    c.z2.resize((size_t)(nt * nv));
    for (auto& v : c.z2) v = G::pct(25) ? NA : G::r(-10, 10, 4);
  }
  if (c.db2mode != 0 && nt > 1 && G::pct(30))
  {
    c.sel2.assign((size_t)nt, 1);
    for (int i = 1; i < nt; i++)
      if (G::pct(30)) c.sel2[(size_t)i] = 0;
  }
  c.ivar0 = G::pct(60) ? -1 : G::i(0, nv - 1);
  c.jvar0 = G::pct(60) ? -1 : G::i(0, nv - 1);
  c.nbgh1 = genSubset(n);
  c.nbgh2 = genSubset(c.db2mode == 0 ? n : nt);
  c.hasMode = G::pct(70) ? 1 : 0;
  if (c.hasMode)
  {
    c.asVario = G::pct(30) ? 1 : 0;
    c.unitary = G::pct(20) ? 1 : 0;
    c.orderVario = G::pct(80) ? 0 : G::i(1, 3);
    if (G::pct(35))
    {
      int ns = (int)c.k.st.size();
      c.allActive = 0;
      std::vector<int> p = G::perm(ns);
      int m = G::i(1, ns);
      c.active.assign(p.begin(), p.begin() + m);
      if (G::pct(70)) std::sort(c.active.begin(), c.active.end());
    }
  }
  c.optimFirst = G::b() ? 1 : 0;
  return c;
}
static VectorInt toVI(const std::vector<int>& v)
{
  VectorInt r;
  for (int x : v) r.push_back(x);
  return r;
}
static void runCov(const CovCase& c, Ctx& ctx, bool sym)
{
  const KCase& k = c.k;
  labelCase(k, ctx);
  World w;
  if (!buildWorld(k, w, ctx)) return;
  int nv = k.nvar, nt = k.ntarg();
  Db* db1 = w.dbin.get();
  Db* db2 = nullptr;
  if (!sym && c.db2mode != 0)
  {
    db2 = w.dbout.get();
    if (c.db2mode == 2)
      for (int v = 0; v < nv; v++)
      {
        VectorDouble zz((size_t)nt);
        for (int i = 0; i < nt; i++) zz[i] = c.z2[(size_t)(i * nv + v)];
        db2->addColumns(zz, "z" + std::to_string(v + 1), ELoc::Z, v);
      }
    if (!c.sel2.empty())
    {
      VectorDouble e((size_t)nt);
      for (int i = 0; i < nt; i++) e[i] = (double)c.sel2[(size_t)i];
      db2->addColumns(e, "sel", ELoc::SEL, 0);
    }
  }
  bool restricted = false;
  std::unique_ptr<CovCalcMode> mode;
  if (c.hasMode)
  {
    mode.reset(new CovCalcMode(ECalcMember::LHS, c.asVario != 0, c.unitary != 0, c.orderVario, c.allActive != 0, toVI(c.active)));
    if (!c.allActive)
    {
      std::vector<int> s = c.active;
      std::sort(s.begin(), s.end());
      restricted = (int)s.size() != (int)k.st.size();
    }
  }
  std::string cls = restricted ? "activelist" : (c.hasMode ? "mode" : "nomode");
  std::string var = std::string("covmat:") + (sym ? "sym" : "rect");
  ctx.label("mode:" + cls);
  if (c.asVario) ctx.label("mode:vario");
  if (c.unitary) ctx.label("mode:unitary");
  if (c.orderVario) ctx.label("mode:order>0");
  ctx.label(sym ? "db2:n/a" : ("db2mode:" + std::to_string(c.db2mode)));
  if (!c.nbgh1.empty()) ctx.label("nbgh1");
  if (c.ivar0 >= 0) ctx.label("ivar0");
  VectorInt nb1 = toVI(c.nbgh1), nb2 = sym ? VectorInt() : toVI(c.nbgh2);
  Model* m = w.model.get();

  // each path on its own Model: the comparison is about the values, not about what one call leaves behind (C10)
  Ctx dctx;
  std::unique_ptr<Model> m2 = buildModel(k, dctx);
  if (!m2) { ctx.fail("harness:model", "second model"); return; }
  int r1 = 0, c1 = 0, r2 = 0, c2 = 0;
  std::vector<double> P, O;
  auto grab = [](const AMatrix& M, int& r, int& cc, std::vector<double>& out) {
    r = M.getNRows();
    cc = M.getNCols();
    out.resize((size_t)r * (size_t)cc);
    for (int i = 0; i < r; i++)
      for (int j = 0; j < cc; j++) out[(size_t)i * (size_t)cc + (size_t)j] = M.getValue(i, j);
  };
  for (int pass = 0; pass < 2; pass++)
  {
    bool optim = (pass == 0) == (c.optimFirst != 0);
    if (optim)
    {
      ctx.at(var + ":optim");
      if (sym) { MatrixSquareSymmetric M = m->evalCovMatrixSymmetricOptim(db1, c.ivar0, nb1, mode.get()); grab(M, r2, c2, O); }
      else { MatrixRectangular M = m->evalCovMatrixOptim(db1, db2, c.ivar0, c.jvar0, nb1, nb2, mode.get()); grab(M, r2, c2, O); }
    }
    else
    {
      ctx.at(var + ":plain");
      if (sym) { MatrixSquareSymmetric M = m2->evalCovMatrixSymmetric(db1, c.ivar0, nb1, mode.get()); grab(M, r1, c1, P); }
      else { MatrixRectangular M = m2->evalCovMatrix(db1, db2, c.ivar0, c.jvar0, nb1, nb2, mode.get()); grab(M, r1, c1, P); }
    }
  }
  if (r1 != r2 || c1 != c2)
  {
    ctx.fail(var + ":dims", fmt("plain %dx%d, optimised %dx%d", r1, c1, r2, c2));
    return;
  }
  if (r1 == 0 || c1 == 0) { ctx.label("empty-matrix"); return; }
  double scale = 0;
  for (double v : P) scale = std::max(scale, std::fabs(v));
  // the entries are sums / differences (variogram mode) of terms of the size of the sills: that is the scale of the
  // round-off, even when the entries themselves are tiny (far points)
  {
    double ss = 0;
    for (auto& st : k.st)
    {
      double mx = 0;
      for (double v : st.sill) mx = std::max(mx, std::fabs(v));
      ss += c.unitary ? 1. : mx;
    }
    scale = std::max(scale, ss);
  }
  if (!(scale > 0)) scale = 1.;
  double eta = etaIn(k);
  double tabs = (1e-12 + 20. * eta) * scale;
  for (int i = 0; i < r1; i++)
    for (int j = 0; j < c1; j++)
    {
      double a = O[(size_t)i * (size_t)c1 + (size_t)j], b = P[(size_t)i * (size_t)c1 + (size_t)j];
      if (!vf::close(a, b, 1e-10, tabs))
      {
        ctx.fail(var + ":values:" + cls, fmt("entry (%d,%d) of %dx%d: optimised %.15g, plain %.15g (diff %.3g, scale %.3g, %d structures, active list size %d allActive %d)", i, j,
                                             r1, c1, a, b, std::fabs(a - b), scale, (int)k.st.size(), (int)c.active.size(), c.allActive));
        return;
      }
    }
  const ACovAnisoList* cl = m->getCovAnisoList();
  bool fast = cl != nullptr && cl->isOptimEnabled();
  ctx.nontrivial(fast && r1 * c1 >= 2 && interesting(k));
  ctx.sig = Hash().add(signature(k)).add(sym ? 1 : 0).add(c.db2mode).add(cls).add(c.asVario).add(c.unitary).add(c.orderVario).add(c.ivar0 >= 0 ? 1 : 0).add(c.nbgh1.empty() ? 0 : 1).h;
}
static void runCovRect(const CovCase& c, Ctx& ctx) { runCov(c, ctx, false); }
static void runCovSym(const CovCase& c, Ctx& ctx) { runCov(c, ctx, true); }
VERIF_SUB(covmat_rect, CovCase, genCov, runCovRect);
VERIF_SUB(covmat_sym, CovCase, genCov, runCovSym);

// ====================================================================== 2. unique vs wide moving ==
struct UMCase
{
  KCase k;
  int extra = 0, hasRadius = 1;
  double radFactor = 2.;
  std::vector<double> ncoef, nang;
  template<class A> void io(A& a) { a("k", k)("extra", extra)("hasRadius", hasRadius)("radFactor", radFactor)("ncoef", ncoef)("nang", nang); }
};
static UMCase genUM()
{
  UMCase c;
  GenOpt o;
  o.movingPct = 0;
  o.heteroPct = 45;
  o.selPct = 30;
  c.k = genCase(o);
  c.extra = G::pick<int>({0, 0, 1, 5, 1000});
  c.hasRadius = G::pct(75) ? 1 : 0;
  c.radFactor = G::lu(1.5, 10.);
  bool iso = G::pct(50);
  for (int d = 0; d < c.k.ndim; d++) c.ncoef.push_back(iso ? 1. : G::lu(0.25, 4.));
  if (c.k.ndim >= 2 && G::pct(50))
  {
    int na = (c.k.ndim == 2) ? 1 : 3;
    for (int q = 0; q < na; q++) c.nang.push_back(G::r(-180, 180, 2));
  }
  return c;
}
static void runUM(const UMCase& uc, Ctx& ctx)
{
  const KCase& c = uc.k;
  labelCase(c, ctx);
  ctx.sig = Hash().add(signature(c)).add(uc.hasRadius).add(uc.extra).add((int)uc.nang.size()).h;
  int n = c.n(), nt = c.ntarg(), nv = c.nvar;
  // moving twin: radius larger than any data-target distance in the neighbourhood metric, nmaxi >= n, nmini 1, one sector
  KCase m = c;
  m.moving = 1;
  m.nmaxi = n + uc.extra;
  m.nmini = 1;
  m.nsect = 1;
  m.nsmax = 0;
  m.hasRadius = uc.hasRadius;
  m.ncoef = uc.ncoef;
  m.nang = uc.nang;
  double dmax = 0, cmin = 1e300;
  for (int k = 0; k < nt; k++)
    for (int i = 0; i < n; i++) dmax = std::max(dmax, vfgeo::euclid(c.ndim, c.targ.p(k), c.data.p(i)));
  for (double v : uc.ncoef) cmin = std::min(cmin, v);
  m.radius = uc.radFactor * std::max(dmax, 1e-3 * c.L) / cmin;
  std::vector<int> all = admissibleAll(c);
  for (int k = 0; k < nt; k++)
  {
    NbRef r = refNeigh(m, m.targ.p(k));
    if (r.nb != all) { ctx.fail("harness:moving-not-all", "generated moving neighbourhood does not hold all samples"); return; }
  }
  World wu, wm;
  if (!buildWorld(c, wu, ctx)) return;
  if (!buildWorld(m, wm, ctx)) return;
  bool wantVarz = c.flagVarz != 0;
  std::string V = std::string(c.family());
  ctx.at("kriging:unique:" + V);
  KRes A = runK(wu.dbin.get(), wu.dbout.get(), wu.model.get(), wu.neigh.get(), nv, false, VectorInt(), VectorInt(), "KU", wantVarz);
  ctx.at("kriging:moving:" + V);
  KRes B = runK(wm.dbin.get(), wm.dbout.get(), wm.model.get(), wm.neigh.get(), nv, false, VectorInt(), VectorInt(), "KM", wantVarz);
  if (A.err != B.err || A.cols != B.cols)
  {
    ctx.fail("unique-moving:status:" + V, fmt("unique: err %d cols %d; moving: err %d cols %d", A.err, (int)A.cols, B.err, (int)B.cols));
    return;
  }
  if (A.err || !A.cols) { ctx.label("kriging-error-both"); return; }
  if (all.empty()) { ctx.label("no-data"); return; }
  Orc orc;
  if (!makeOracle(c, wu.dbout.get(), orc)) { ctx.fail("harness:model", "oracle model"); return; }
  double eta = etaIn(c);
  int nChecked = 0, nIll = 0;
  for (int k = 0; k < nt; k++)
  {
    Sys S;
    orc.o->solve(k, pointGeom(c.ndim, c.targ.p(k)), all, S);
    if (!S.solved || !(S.kappa <= kKappaMax)) { nIll++; continue; }
    nChecked++;
    for (int tv = 0; tv < nv; tv++)
    {
      Tol t = tolOf(S, eta, tv, 0.);
      size_t q = (size_t)(k * nv + tv);
      if (!cmpVal(ctx, "unique-moving:estim:" + V, "estim", k, tv, A.est[q], B.est[q], t.e, S.kappa)) return;
      if (!cmpVal(ctx, "unique-moving:stdev:" + V, "stdev", k, tv, A.sd[q], B.sd[q], t.v, S.kappa, true)) return;
      if (wantVarz && !cmpVal(ctx, "unique-moving:varz:" + V, "varz", k, tv, A.vz[q], B.vz[q], t.v, S.kappa)) return;
    }
  }
  if (nChecked == 0 && nIll > 0) ctx.inconclusive("ill-conditioned");
  ctx.nontrivial(nChecked > 0 && (int)all.size() >= 2 && interesting(c));
}
VERIF_SUB(unique_vs_moving, UMCase, genUM, runUM);

// ====================================================================== 3. xvalid unique vs leave-one-out ==
static KCase genXV()
{
  GenOpt o;
  o.movingPct = 0;
  o.nvarMin = 1;
  o.nvarMax = 1;
  o.nMax = 24;
  o.heteroPct = 40;
  o.selPct = 30;
  o.verrPct = 12;
  o.naFdataPct = 10;
  o.family = G::pick<int>({0, 1, 1, 2, 2, 3});
  return genCase(o);
}
static void runXV(const KCase& c, Ctx& ctx)
{
  labelCase(c, ctx);
  ctx.sig = signature(c);
  World w;
  if (!buildWorld(c, w, ctx)) return;
  int n = c.n();
  std::string V = c.family();
  std::unique_ptr<NeighUnique> nu(NeighUnique::create());
  ctx.at("xvalid:unique:" + V);
  int err = xvalid(w.dbin.get(), w.model.get(), nu.get(), false, -1, -1, 0, VectorInt(), NamingConvention("XV"));
  std::vector<int> all = admissibleAll(c);
  if (err != 0)
  {
    ctx.fail("xvalid:error:" + V, "xvalid() in unique neighbourhood returns an error on a valid configuration");
    return;
  }
  if (w.dbin->getUID("XV.z1.estim") < 0 || w.dbin->getUID("XV.z1.stdev") < 0)
  {
    ctx.fail("xvalid:columns:" + V, "xvalid(flag_xvalid_est=-1, flag_xvalid_std=-1) did not create XV.z1.estim / XV.z1.stdev");
    return;
  }
  VectorDouble xe = w.dbin->getColumn("XV.z1.estim", false), xs = w.dbin->getColumn("XV.z1.stdev", false);
  if ((int)xe.size() != n || (int)xs.size() != n) { ctx.fail("xvalid:columns:" + V, "result columns have the wrong size"); return; }
  if ((int)all.size() < 2) { ctx.label("fewer-than-2-data"); return; }

  // conditioning of the full system (the shortcut inverts it once)
  double eta = etaIn(c);
  Orc full;
  if (!makeOracle(c, w.dbin.get(), full)) { ctx.fail("harness:model", "oracle model"); return; }
  Sys SF;
  full.o->solve(0, pointGeom(c.ndim, c.data.p(all[0])), all, SF);
  if (!SF.solved || !(SF.kappa <= kKappaMax)) { ctx.inconclusive("ill-conditioned"); return; }
  bool hasVerr = !c.verr.empty();
  bool naF = false; // data without external drift: they do not enter the kriging system (KrigingSystem::_flagDefine)
  for (int i : all) naF = naF || !c.fdef(i);
  if (naF) ctx.label("na-extdrift-at-data");
  std::string Q = naF ? "xvalid:na-extdrift" : "xvalid";
  int nChecked = 0, nIll = 0;
  for (int i : all)
  {
    if (!c.fdef(i)) continue;
    // explicit leave-one-out: krige at x_i from the data set without sample i
    KCase l = oneTarget(dropSample(c, i), c.data.p(i), c.nfex ? &c.fdat[(size_t)(i * c.nfex)] : nullptr);
    l.moving = 0;
    World wl;
    if (!buildWorld(l, wl, ctx)) return;
    ctx.at("kriging:loo:" + V);
    KRes R = runK(wl.dbin.get(), wl.dbout.get(), wl.model.get(), wl.neigh.get(), 1, false, VectorInt(), VectorInt(), "LOO", false);
    if (R.err || !R.cols) { ctx.fail("xvalid:loo-error:" + V, "leave-one-out kriging returns an error"); return; }
    Orc lo;
    if (!makeOracle(l, wl.dbout.get(), lo)) { ctx.fail("harness:model", "oracle model"); return; }
    Sys S;
    std::vector<int> nb = admissibleAll(l);
    lo.o->solve(0, pointGeom(c.ndim, c.data.p(i)), nb, S);
    if (!S.solved || !(S.kappa <= kKappaMax)) { nIll++; continue; }
    nChecked++;
    double kap = std::max(S.kappa, SF.kappa);
    Tol t = tolOf(S, eta, 0, SF.kappa);
    // the shortcut goes through 1 / inv(A)(i,i): its error is |d inv(A)| var^2 <= kappa eps |inv(A)| var^2
    LD var = std::max((LD)0, S.var[0]);
    LD z1 = 0;
    for (int j : all) z1 += fabsl((LD)c.z[(size_t)j] - (c.order < 0 ? (LD)c.means[0] : 0.L));
    LD relB = (LD)epsK(kap, eta) * (LD)SF.sminInv;
    t.v += relB * var * var;
    t.e += relB * var * z1 * 2;
    if (!cmpVal(ctx, Q + ":estim:" + V, "Z*", i, 0, xe[i], R.est[0], t.e, kap)) return;
    std::string ks = hasVerr ? Q + ":stdev:verr:" + V : Q + ":stdev:" + V;
    if (!cmpVal(ctx, ks, "S", i, 0, xs[i], R.sd[0], t.v, kap, true)) return;
  }
  // masked / undefined samples keep undefined results
  for (int i = 0; i < n; i++)
    if ((!c.active(i) || !c.anyDef(i)) && !(isNA(xe[i]) && isNA(xs[i])))
    {
      ctx.fail("xvalid:inactive-result:" + V, fmt("sample %d is masked or undefined but received results %g / %g", i, xe[i], xs[i]));
      return;
    }
  if (nChecked == 0 && nIll > 0) ctx.inconclusive("ill-conditioned");
  ctx.nontrivial(nChecked >= 2 && (interesting(c) || c.order >= 0 || (int)all.size() < n));
}
VERIF_SUB(xvalid_unique, KCase, genXV, runXV);

// ====================================================================== 5. block (1 point) vs point ==
static KCase genB1()
{
  GenOpt o;
  o.blockMode = G::pick<int>({1, 2});
  o.nMax = 30;
  o.heteroPct = 45;
  o.selPct = 25;
  KCase c = genCase(o);
  for (auto& v : c.ndisc) v = 1;
  return c;
}
static void runB1(const KCase& c, Ctx& ctx)
{
  labelCase(c, ctx);
  ctx.sig = signature(c);
  World w;
  if (!buildWorld(c, w, ctx)) return;
  int nt = c.ntarg(), nv = c.nvar;
  VectorInt nd;
  for (int v : c.ndisc) nd.push_back(v);
  bool wantVarz = c.flagVarz != 0;
  std::string V = std::string(c.family()) + (c.moving ? ":moving" : ":unique");
  ctx.at("kriging:block1:" + V);
  KRes A = runK(w.dbin.get(), w.dbout.get(), w.model.get(), w.neigh.get(), nv, true, nd, VectorInt(), "KB", wantVarz);
  World w2;
  if (!buildWorld(c, w2, ctx)) return;
  ctx.at("kriging:point:" + V);
  KRes B = runK(w2.dbin.get(), w2.dbout.get(), w2.model.get(), w2.neigh.get(), nv, false, VectorInt(), VectorInt(), "KP", wantVarz);
  if (A.err != B.err || A.cols != B.cols)
  {
    ctx.fail("block1:status:" + V, fmt("block: err %d cols %d; point: err %d cols %d", A.err, (int)A.cols, B.err, (int)B.cols));
    return;
  }
  if (A.err || !A.cols) { ctx.label("kriging-error-both"); return; }
  Orc orc;
  if (!makeOracle(c, w.dbout.get(), orc)) { ctx.fail("harness:model", "oracle model"); return; }
  double eta = etaIn(c);
  int nChecked = 0, nIll = 0, maxNb = 0;
  for (int k = 0; k < nt; k++)
  {
    std::vector<double> x0((size_t)c.ndim);
    for (int d = 0; d < c.ndim; d++) x0[(size_t)d] = w.dbout->getCoordinate(k, d);
    NbRef nr = refNeigh(c, x0.data());
    if (nr.ambiguous) { ctx.label("target:ambiguous-neigh"); continue; }
    size_t q0 = (size_t)(k * nv);
    if (nr.empty())
    {
      for (int tv = 0; tv < nv; tv++)
        if (!bothNA(A.est[q0 + tv], B.est[q0 + tv])) { ctx.fail("block1:empty-neigh:" + V, fmt("target %d: empty neighbourhood, block %g point %g", k, A.est[q0 + tv], B.est[q0 + tv])); return; }
      continue;
    }
    Sys S;
    orc.o->solve(k, pointGeom(c.ndim, x0.data()), nr.nb, S);
    if (!S.solved || !(S.kappa <= kKappaMax)) { nIll++; continue; }
    nChecked++;
    maxNb = std::max(maxNb, (int)nr.nb.size());
    for (int tv = 0; tv < nv; tv++)
    {
      Tol t = tolOf(S, eta, tv, 0.);
      if (!cmpVal(ctx, "block1:estim:" + V, "estim", k, tv, A.est[q0 + tv], B.est[q0 + tv], t.e, S.kappa)) return;
      if (wantVarz && !cmpVal(ctx, "block1:varz:" + V, "varz", k, tv, A.vz[q0 + tv], B.vz[q0 + tv], t.v, S.kappa)) return;
    }
    // weights (krigtest: iech0 = 0 loops over all targets, usable only with one target)
    if (k >= 1 || nt == 1)
    {
      ctx.at("krigtest:block1:" + V);
      Krigtest_Res ka = krigtest(w.dbin.get(), w.dbout.get(), w.model.get(), w.neigh.get(), k, EKrigOpt::BLOCK, nd, false, false);
      ctx.at("krigtest:point:" + V);
      Krigtest_Res kb = krigtest(w2.dbin.get(), w2.dbout.get(), w2.model.get(), w2.neigh.get(), k, EKrigOpt::POINT, VectorInt(), false, false);
      if (ka.wgt.getNRows() != kb.wgt.getNRows() || ka.wgt.getNCols() != kb.wgt.getNCols() || ka.wgt.getNRows() != S.N)
      {
        ctx.fail("block1:wgt-dims:" + V, fmt("target %d: block weights %dx%d, point weights %dx%d, system %d", k, ka.wgt.getNRows(), ka.wgt.getNCols(), kb.wgt.getNRows(), kb.wgt.getNCols(), S.N));
        return;
      }
      for (int tv = 0; tv < ka.wgt.getNCols() && tv < nv; tv++)
      {
        LD wmax = 0;
        for (int r = 0; r < S.N; r++) wmax = std::max(wmax, fabsl(S.sol(r, tv)));
        LD tol = 2 * (LD)epsK(S.kappa, eta) * wmax + (LD)10 * (LD)epsIn(eta) * (LD)S.covScale * (LD)S.sminInv * sqrtl((LD)S.N);
        for (int r = 0; r < S.N; r++)
          if (!cmpVal(ctx, "block1:wgt:" + V, "weight", k, tv, ka.wgt.getValue(r, tv), kb.wgt.getValue(r, tv), tol, S.kappa)) return;
      }
      ctx.label("weights-compared");
    }
  }
  if (nChecked == 0 && nIll > 0) ctx.inconclusive("ill-conditioned");
  ctx.nontrivial(nChecked > 0 && maxNb >= 2 && (interesting(c) || c.gridRotated()));
}
VERIF_SUB(block1_vs_point, KCase, genB1, runB1);

// ====================================================================== 4a. migrate: ball tree vs exhaustive ==
struct MigCase
{
  int ndim = 2;
  vfgeo::Points src, dst;
  std::vector<int> sel1, sel2;
  int distType = 1;
  std::vector<double> dmax;
  template<class A> void io(A& a) { a("ndim", ndim)("src", src)("dst", dst)("sel1", sel1)("sel2", sel2)("distType", distType)("dmax", dmax); }
};
// criterion of st_larger_than_dmax (read from CalcMigrate.cpp): value > 1 <=> rejected
static double dmaxCrit(int ndim, const double* a, const double* b, int distType, const std::vector<double>& dmax)
{
  if (dmax.empty()) return 0.;
  double r = 0;
  for (int d = 0; d < ndim; d++)
  {
    double q = (a[d] - b[d]) / dmax[(size_t)d];
    if (distType == 1) r = std::max(r, std::fabs(q));
    else r += q * q;
  }
  return r;
}
static MigCase genMig()
{
  MigCase c;
  c.ndim = G::pick<int>({1, 2, 2, 3});
  int n1 = G::pct(50) ? G::sz(1, 40) : G::sz(20, 500);
  int n2 = G::sz(1, 12);
  vfgeo::Lattice lat;
  std::vector<vfgeo::Points> sets = vfgeo::genPointSets(c.ndim, {n1, n2}, G::pct(30), true, -1., &lat);
  c.src = sets[0];
  if (n1 > 1 && G::pct(35))
  {
    c.sel1.assign((size_t)n1, 1);
    int p = G::pick<int>({10, 30, 60});
    for (int i = 1; i < n1; i++)
      if (G::pct(p)) c.sel1[(size_t)i] = 0;
  }
  int dm = G::pick<int>({0, 0, 0, 1, 2, 3});
  c.distType = (dm == 3) ? 1 : (dm == 0 ? G::pick<int>({1, 2}) : 2);
  if (dm != 0)
  {
    double r0 = lat.L * G::lu(0.03, 1.);
    for (int d = 0; d < c.ndim; d++) c.dmax.push_back((dm == 1) ? r0 : lat.L * G::lu(0.03, 1.));
  }
  // ties and boundaries are excluded by the property: keep the targets whose answer has a margin
  double mrg = 1e-7 * lat.L;
  c.dst.ndim = c.ndim;
  std::vector<int> keep;
  for (int t = 0; t < n2; t++)
  {
    const double* x = sets[1].p(t);
    bool ok = true;
    std::vector<double> dAll, dAct, dIn;
    for (int i = 0; i < n1 && ok; i++)
    {
      double d = vfgeo::euclid(c.ndim, x, c.src.p(i));
      double cr = dmaxCrit(c.ndim, x, c.src.p(i), c.distType, c.dmax);
      if (!c.dmax.empty() && std::fabs(cr - 1.) < 1e-6) ok = false;
      bool act = c.sel1.empty() || c.sel1[(size_t)i];
      dAll.push_back(d);
      if (act) dAct.push_back(d);
      if (act && cr <= 1.) dIn.push_back(d);
    }
    for (auto* v : {&dAll, &dAct, &dIn})
    {
      std::sort(v->begin(), v->end());
      if (v->size() >= 2 && (*v)[1] - (*v)[0] <= mrg) ok = false;
    }
    if (ok) { c.dst.push(x); keep.push_back(t); }
  }
  if (c.dst.n() > 1 && G::pct(25))
  {
    c.sel2.assign((size_t)c.dst.n(), 1);
    for (int i = 1; i < c.dst.n(); i++)
      if (G::pct(30)) c.sel2[(size_t)i] = 0;
  }
  return c;
}
static std::unique_ptr<Db> pointsDb(const vfgeo::Points& P, const std::vector<int>& sel)
{
  std::unique_ptr<Db> db(Db::create());
  for (int d = 0; d < P.ndim; d++) db->addColumns(colOf(P, d), "x" + std::to_string(d + 1), ELoc::X, d);
  if (!sel.empty())
  {
    VectorDouble e((size_t)P.n());
    for (int i = 0; i < P.n(); i++) e[i] = (double)sel[(size_t)i];
    db->addColumns(e, "sel", ELoc::SEL, 0);
  }
  return db;
}
static void runMig(const MigCase& c, Ctx& ctx)
{
  resetGlobals(c.ndim);
  int n1 = c.src.n(), n2 = c.dst.n();
  ctx.label("ndim:" + std::to_string(c.ndim));
  ctx.label(c.sel1.empty() ? "src:all-active" : "src:selection");
  ctx.label(c.dmax.empty() ? "dmax:none" : (c.distType == 1 ? "dmax:L1" : "dmax:L2"));
  ctx.label(n1 > 30 ? "tree:several-leaves" : "tree:one-leaf");
  if (n1 < 1 || n2 < 1) { ctx.label("degenerate:empty"); return; }
  std::unique_ptr<Db> db1 = pointsDb(c.src, c.sel1), db2 = pointsDb(c.dst, c.sel2);
  VectorDouble val((size_t)n1);
  for (int i = 0; i < n1; i++) val[i] = 1000. + i; // one distinct value per source sample: equal outputs <=> same sample
  db1->addColumns(val, "v", ELoc::Z, 0);
  VectorDouble dm;
  for (double v : c.dmax) dm.push_back(v);
  ctx.at("migrate:exhaustive");
  int e1 = migrate(db1.get(), db2.get(), "v", c.distType, dm, false, false, false, NamingConvention("ME"));
  int ce = db2->getColumnNumber() - 1;
  VectorDouble E = db2->getColumnByColIdx(ce, false);
  ctx.at("migrate:ball");
  int e2 = migrate(db1.get(), db2.get(), "v", c.distType, dm, false, false, true, NamingConvention("MB"));
  int cb = db2->getColumnNumber() - 1;
  VectorDouble B = db2->getColumnByColIdx(cb, false);
  if (e1 != e2 || (e1 == 0 && (cb != ce + 1 || (int)E.size() != n2 || (int)B.size() != n2)))
  {
    ctx.fail("migrate:status", fmt("exhaustive err %d, ball err %d, columns %d -> %d", e1, e2, ce, cb));
    return;
  }
  if (e1) { ctx.label("migrate-error-both"); return; }
  int nCmp = 0;
  bool maskedNearest = false;
  for (int t = 0; t < n2; t++)
  {
    bool same = (isNA(E[t]) && isNA(B[t])) || E[t] == B[t];
    // classification of the target by the harness's own exhaustive search
    int jAll = -1;
    double dAll = 1e300;
    for (int i = 0; i < n1; i++)
    {
      double d = vfgeo::euclid(c.ndim, c.dst.p(t), c.src.p(i));
      if (d < dAll) { dAll = d; jAll = i; }
    }
    int jAct = -1;
    double dAct = 1e300;
    for (int i = 0; i < n1; i++)
    {
      if (!c.sel1.empty() && !c.sel1[(size_t)i]) continue;
      double d = vfgeo::euclid(c.ndim, c.dst.p(t), c.src.p(i));
      if (d < dAct) { dAct = d; jAct = i; }
    }
    // the nearest active row lies outside dmax although a farther one lies inside: the dmax question, whatever the masks
    bool outside = jAct >= 0 && dmaxCrit(c.ndim, c.dst.p(t), c.src.p(jAct), c.distType, c.dmax) > 1.;
    bool masked = !outside && !c.sel1.empty() && !c.sel1[(size_t)jAll];
    maskedNearest = maskedNearest || masked;
    nCmp++;
    if (!same)
    {
      std::string key = masked ? "migrate:ball:masked-source" : (outside ? "migrate:ball:dmax-nearest-outside" : "migrate:ball-vs-exhaustive");
      ctx.fail(key, fmt("target %d: exhaustive search gives sample %s, ball tree gives sample %s (nearest of all rows: %d, %s, %s dmax)", t,
                        isNA(E[t]) ? "none" : std::to_string((int)(E[t] - 1000)).c_str(), isNA(B[t]) ? "none" : std::to_string((int)(B[t] - 1000)).c_str(), jAll,
                        masked ? "masked by the selection" : "active", outside ? "outside" : "inside / no"));
      return;
    }
  }
  if (maskedNearest) ctx.label("nearest-row-masked");
  ctx.nontrivial(nCmp > 0 && n1 >= 2);
  ctx.sig = Hash().add(c.ndim).add(n1 < 4 ? n1 : (n1 <= 30 ? 4 : 5)).add(c.sel1.empty() ? 0 : 1).add(c.sel2.empty() ? 0 : 1).add((int)c.dmax.size()).add(c.distType).add(maskedNearest ? 1 : 0).add(n2).h;
}
VERIF_SUB(migrate_ball, MigCase, genMig, runMig);

// ====================================================================== 4b. moving neighbourhood: ball search on / off ==
struct NbCase
{
  int ndim = 2;
  vfgeo::Points data, targ;
  std::vector<double> z;
  std::vector<int> sel;
  int nmaxi = 5, nmini = 1, hasRadius = 0, nsect = 1, nsmax = 0, leaf = 10;
  double radius = 1., L = 1.;
  std::vector<double> coef;
  template<class A> void io(A& a)
  {
    a("ndim", ndim)("data", data)("targ", targ)("z", z)("sel", sel)("nmaxi", nmaxi)("nmini", nmini)("hasRadius", hasRadius)("nsect", nsect)(
      "nsmax", nsmax)("leaf", leaf)("radius", radius)("L", L)("coef", coef);
  }
};
static NbCase genNb()
{
  NbCase c;
  c.ndim = G::pick<int>({1, 2, 2, 3});
  int n = G::sz(1, 90), nt = G::sz(1, 6);
  vfgeo::Lattice lat;
  std::vector<vfgeo::Points> sets = vfgeo::genPointSets(c.ndim, {n, nt}, G::pct(30), true, -1., &lat);
  c.data = sets[0];
  c.targ = sets[1];
  c.L = lat.L;
  c.z.resize((size_t)n);
  for (auto& v : c.z) v = G::r(-10, 10, 4);
  if (G::pct(25))
    for (int i = 1; i < n; i++)
      if (G::pct(15)) c.z[(size_t)i] = NA;
  if (n > 1 && G::pct(30))
  {
    c.sel.assign((size_t)n, 1);
    for (int i = 1; i < n; i++)
      if (G::pct(20)) c.sel[(size_t)i] = 0;
  }
  c.nmaxi = G::pct(85) ? G::i(1, std::max(1, std::min(n, 15))) : G::i(1, n + 3);
  c.nmini = std::min(c.nmaxi, G::pick<int>({1, 1, 1, 2, 3})); // nmini <= nmaxi: a consistent neighbourhood definition
  c.hasRadius = G::pct(50) ? 1 : 0;
  c.radius = c.L * G::lu(0.2, 3.);
  bool iso = G::pct(85);
  double c0 = G::pick<double>({1., 1., 1., 2., 0.5});
  for (int d = 0; d < c.ndim; d++) c.coef.push_back(iso ? c0 : G::lu(0.25, 4.));
  if (c.ndim >= 2 && G::pct(12))
  {
    c.nsect = G::pick<int>({2, 4, 8});
    c.nsmax = G::pct(50) ? G::i(1, 3) : 0;
  }
  c.leaf = G::pct(50) ? G::i(1, 5) : G::i(6, 30);
  return c;
}
static void runNb(const NbCase& c, Ctx& ctx)
{
  resetGlobals(c.ndim);
  int n = c.data.n(), nt = c.targ.n();
  ctx.label("ndim:" + std::to_string(c.ndim));
  if (n < 1 || nt < 1) { ctx.label("degenerate:empty"); return; }
  std::unique_ptr<Db> dbin = pointsDb(c.data, c.sel), dbout = pointsDb(c.targ, std::vector<int>());
  VectorDouble zz((size_t)n);
  for (int i = 0; i < n; i++) zz[i] = c.z[(size_t)i];
  dbin->addColumns(zz, "z1", ELoc::Z, 0);
  VectorDouble coeffs;
  for (double v : c.coef) coeffs.push_back(v);
  std::unique_ptr<NeighMoving> plain(NeighMoving::create(false, c.nmaxi, c.hasRadius ? c.radius : TEST, c.nmini, c.nsect, c.nsmax > 0 ? c.nsmax : ITEST, coeffs, VectorDouble()));
  std::unique_ptr<NeighMoving> ball(NeighMoving::create(false, c.nmaxi, c.hasRadius ? c.radius : TEST, c.nmini, c.nsect, c.nsmax > 0 ? c.nsmax : ITEST, coeffs, VectorDouble()));
  if (!plain || !ball) { ctx.fail("harness:neigh", "NeighMoving::create failed"); return; }
  ball->setBallSearch(true, c.leaf);
  ctx.at("attach");
  if (plain->attach(dbin.get(), dbout.get()) || ball->attach(dbin.get(), dbout.get())) { ctx.fail("harness:attach", "attach failed"); return; }
  bool iso = true;
  for (double v : c.coef) iso = iso && v == c.coef[0];
  vfgeo::Aniso metric = vfgeo::Aniso::make(c.ndim, c.coef, std::vector<double>());
  int nCmp = 0;
  bool binds = false;
  for (int k = 0; k < nt; k++)
  {
    VectorInt r0, r1;
    ctx.at("select:scan");
    plain->select(k, r0);
    ctx.at("select:ball");
    ball->select(k, r1);
    // precondition of the property: the nmaxi Euclidean-nearest rows exist and are all admissible; the candidate
    // restriction of the ball search is then provably harmless only with one sector and when the neighbourhood
    // metric orders the samples like the Euclidean one (or nothing is cut: nmaxi == n)
    std::string why;
    if (c.nmaxi > n) why = "nmaxi>n";
    else if (c.nsect > 1 && c.ndim > 1) why = "sectors";
    else if (!iso && c.nmaxi != n) why = "anisotropic";
    else
    {
      vfgeo::KnnRef kn = vfgeo::bruteKnn(c.data, c.targ.p(k));
      for (int q = 0; q < c.nmaxi && why.empty(); q++)
      {
        int i = kn.idx[(size_t)q];
        bool adm = (c.sel.empty() || c.sel[(size_t)i]) && !isNA(c.z[(size_t)i]);
        if (!adm) why = "nearest-not-admissible";
        else if (c.hasRadius)
        {
          double h = metric.dist(c.targ.p(k), c.data.p(i));
          if (std::fabs(h - c.radius) <= 1e-6 * c.radius) why = "on-radius";
          else if (h > c.radius) why = "nearest-beyond-radius";
        }
      }
      if (why.empty() && c.nmaxi < n && kn.dist[(size_t)c.nmaxi] - kn.dist[(size_t)c.nmaxi - 1] <= 1e-6 * c.L) why = "tie";
    }
    if (!why.empty()) { ctx.label("skip:ball:" + why); continue; }
    nCmp++;
    std::vector<int> a(r1.begin(), r1.end()), b(r0.begin(), r0.end());
    std::sort(a.begin(), a.end());
    std::sort(b.begin(), b.end());
    if (c.nmaxi < n) binds = true;
    if (a != b)
    {
      std::string sa, sb;
      for (int v : a) sa += std::to_string(v) + " ";
      for (int v : b) sb += std::to_string(v) + " ";
      ctx.fail("neigh-ball:select", fmt("target %d: ball search {%s}, scan {%s} (n %d nmaxi %d nmini %d radius %s leaf %d)", k, sa.c_str(), sb.c_str(), n, c.nmaxi, c.nmini,
                                        c.hasRadius ? "yes" : "no", c.leaf));
      return;
    }
  }
  ctx.label(nCmp ? "ball:compared" : "ball:none-compared");
  ctx.nontrivial(nCmp > 0 && n >= 2 && binds);
  ctx.sig = Hash().add(c.ndim).add(n < 4 ? n : (n < 12 ? 4 : (n < 40 ? 5 : 6))).add(c.nmaxi).add(c.nmini).add(c.hasRadius).add(c.sel.empty() ? 0 : 1).add(c.leaf < n ? 1 : 0).add(nCmp).h;
}
VERIF_SUB(neigh_ball, NbCase, genNb, runNb);

// ====================================================================== 6. collocated cokriging vs added datum ==
struct CcCase
{
  KCase k;
  std::vector<int> colvar;   // nvar flags: variable collocated
  std::vector<double> zc;    // ntarg*nvar collocated values (NA: none)
  std::vector<int> ops;      // getter order (KrigingCalcul variant)
  template<class A> void io(A& a) { a("k", k)("colvar", colvar)("zc", zc)("ops", ops); }
};
static CcCase genCc()
{
  CcCase c;
  GenOpt o;
  o.movingPct = 0;
  o.nvarMin = 2;
  o.onDataPct = 0;
  o.farPct = 5;
  o.verrPct = 0;
  o.intrinsicPct = 0;
  o.heteroPct = 50;
  o.naFdataPct = 0;
  o.selPct = 20;
  o.nMax = 30;
  c.k = genCase(o);
  int nv = c.k.nvar, nt = c.k.ntarg();
  c.colvar.assign((size_t)nv, 0);
  int keep = G::i(0, nv - 1); // one variable at least is not collocated
  bool any = false;
  for (int v = 0; v < nv; v++)
    if (v != keep && G::pct(70)) { c.colvar[(size_t)v] = 1; any = true; }
  if (!any) c.colvar[(size_t)((keep + 1) % nv)] = 1;
  c.zc.resize((size_t)(nt * nv));
  for (int k = 0; k < nt; k++)
    for (int v = 0; v < nv; v++) c.zc[(size_t)(k * nv + v)] = (c.colvar[(size_t)v] && !G::pct(10)) ? G::r(-40, 40, 8) : NA;
  int nops = G::i(2, 8);
  for (int q = 0; q < nops; q++) c.ops.push_back(G::i(0, 2));
  return c;
}
static void runCc(const CcCase& cc, Ctx& ctx)
{
  const KCase& c = cc.k;
  labelCase(c, ctx);
  ctx.sig = signature(c);
  int nt = c.ntarg(), nv = c.nvar;
  bool wantVarz = c.flagVarz != 0;
  std::string V = c.family();
  double eta = etaIn(c);
  int nChecked = 0, nIll = 0, nCol = 0;
  // without any ordinary datum the neighbourhood is empty before the collocated datum is considered: out of scope
  if (admissibleAll(c).empty()) { ctx.label("no-data"); return; }
  // the same collocated option with ALL the targets in one call: each target's answer is still the one of its own system
  // (whatever the library keeps from the previous target)
  KRes C;
  C.err = 1;
  {
    World wc;
    if (!buildWorld(c, wc, ctx)) return;
    VectorInt rank((size_t)nv);
    for (int v = 0; v < nv; v++)
    {
      rank[v] = -1;
      if (!cc.colvar[(size_t)v]) continue;
      VectorDouble col((size_t)nt);
      for (int k = 0; k < nt; k++) col[k] = cc.zc[(size_t)(k * nv + v)];
      wc.dbout->addColumns(col, "col" + std::to_string(v + 1));
      rank[v] = wc.dbout->getUID("col" + std::to_string(v + 1));
    }
    ctx.at("kriging:colcok-batch:" + V);
    C = runK(wc.dbin.get(), wc.dbout.get(), wc.model.get(), wc.neigh.get(), nv, false, VectorInt(), rank, "KC", wantVarz);
    if (C.err || !C.cols) ctx.label("colcok-batch:refused");
  }
  for (int k = 0; k < nt; k++)
  {
    const double* x = c.targ.p(k);
    const double* f = c.nfex ? &c.ftar[(size_t)(k * c.nfex)] : nullptr;
    std::vector<double> zk(cc.zc.begin() + k * nv, cc.zc.begin() + (k + 1) * nv);
    bool any = false;
    for (double v : zk) any = any || !isNA(v);
    // fast path: collocated option, one target
    KCase a = oneTarget(c, x, f);
    World wa;
    if (!buildWorld(a, wa, ctx)) return;
    VectorInt rank((size_t)nv);
    for (int v = 0; v < nv; v++)
    {
      rank[v] = -1;
      if (!cc.colvar[(size_t)v]) continue;
      VectorDouble col(1);
      col[0] = zk[(size_t)v];
      wa.dbout->addColumns(col, "col" + std::to_string(v + 1));
      rank[v] = wa.dbout->getUID("col" + std::to_string(v + 1));
    }
    ctx.at("kriging:colcok:" + V);
    KRes A = runK(wa.dbin.get(), wa.dbout.get(), wa.model.get(), wa.neigh.get(), nv, false, VectorInt(), rank, "KC", wantVarz);
    // reference path: the collocated datum added to the data
    KCase b = any ? oneTarget(addSample(c, x, zk, f), x, f) : a;
    World wb;
    if (!buildWorld(b, wb, ctx)) return;
    ctx.at("kriging:added-datum:" + V);
    KRes B = runK(wb.dbin.get(), wb.dbout.get(), wb.model.get(), wb.neigh.get(), nv, false, VectorInt(), VectorInt(), "KA", wantVarz);
    if (A.err != B.err || A.cols != B.cols)
    {
      ctx.fail("colcok:status:" + V, fmt("collocated option: err %d cols %d; added datum: err %d cols %d", A.err, (int)A.cols, B.err, (int)B.cols));
      return;
    }
    if (A.err || !A.cols) { ctx.label("kriging-error-both"); continue; }
    Orc orc;
    if (!makeOracle(b, wb.dbout.get(), orc)) { ctx.fail("harness:model", "oracle model"); return; }
    std::vector<int> nb = admissibleAll(b);
    if (nb.empty()) continue;
    Sys S;
    orc.o->solve(0, pointGeom(c.ndim, x), nb, S);
    if (!S.solved || !(S.kappa <= kKappaMax)) { nIll++; continue; }
    nChecked++;
    if (any) nCol++;
    for (int tv = 0; tv < nv; tv++)
    {
      Tol t = tolOf(S, eta, tv, 0.);
      if (!cmpVal(ctx, "colcok:estim:" + V, "estim", k, tv, A.est[(size_t)tv], B.est[(size_t)tv], t.e, S.kappa)) return;
      if (!cmpVal(ctx, "colcok:stdev:" + V, "stdev", k, tv, A.sd[(size_t)tv], B.sd[(size_t)tv], t.v, S.kappa, true)) return;
      if (wantVarz && !cmpVal(ctx, "colcok:varz:" + V, "varz", k, tv, A.vz[(size_t)tv], B.vz[(size_t)tv], t.v, S.kappa)) return;
      if (!C.err && C.cols)
      {
        size_t q = (size_t)(k * nv + tv);
        if (!cmpVal(ctx, "colcok:batch:estim:" + V, "estim (all targets in one call)", k, tv, C.est[q], B.est[(size_t)tv], t.e, S.kappa)) return;
        if (!cmpVal(ctx, "colcok:batch:stdev:" + V, "stdev (all targets in one call)", k, tv, C.sd[q], B.sd[(size_t)tv], t.v, S.kappa, true)) return;
        if (wantVarz && !cmpVal(ctx, "colcok:batch:varz:" + V, "varz (all targets in one call)", k, tv, C.vz[q], B.vz[(size_t)tv], t.v, S.kappa)) return;
      }
    }
  }
  if (nChecked == 0 && nIll > 0) ctx.inconclusive("ill-conditioned");
  ctx.nontrivial(nCol > 0);
}
VERIF_SUB(colcok_vs_added, CcCase, genCc, runCc);

// ====================================================================== 7. KrigingCalcul vs the kriging system ==
// Inputs of the calculator built with the library's own helpers, as tests/cpp/test_Schur.cpp does.
struct KcIn
{
  VectorDouble Z, Z2, means;
  MatrixSquareSymmetric Sigma, SigmaS, Sigma00, Sigma00S;
  MatrixRectangular X;
  bool hasX = false;
  std::vector<MatrixRectangular> Sigma0, Sigma0S, X0;
  int neq = 0;
  double kappaSigma = 0.;
  double kappaDrift = 1.; // conditioning of X' inv(Sigma) X: the calculator estimates the drift from the data alone
};
static const double kZScale = 2., kCovScale = 4.;
static bool buildKcIn(const KCase& c, Db* dbin, Db* dbout, Ctx& ctx, KcIn& in)
{
  Ctx d;
  std::unique_ptr<Model> m = buildModel(c, d); // own model: nothing is shared with the kriging() call
  if (!m) { ctx.fail("harness:model", "model for the calculator"); return false; }
  int nv = c.nvar, nt = dbout->getSampleNumber();
  in.means.resize((size_t)nv);
  for (int v = 0; v < nv; v++) in.means[v] = (c.order < 0) ? c.means[(size_t)v] : 0.;
  ctx.at("kcalc:inputs");
  in.Sigma = m->evalCovMatrixSymmetric(dbin);
  in.neq = in.Sigma.getNRows();
  in.Z = dbin->getMultipleValuesActive(VectorInt(), VectorInt(), in.means);
  if (in.neq <= 0 || (int)in.Z.size() != in.neq) { ctx.fail("harness:kcalc-inputs", fmt("Sigma %d rows, Z %d values", in.neq, (int)in.Z.size())); return false; }
  in.Z2 = in.Z;
  for (int i = 0; i < in.neq; i++) in.Z2[i] = kZScale * in.Z[i];
  in.hasX = c.order >= 0;
  if (in.hasX)
  {
    in.X = m->evalDriftMatrix(dbin);
    if (in.X.getNRows() != in.neq) { ctx.fail("harness:kcalc-inputs", fmt("X %d rows, Sigma %d", in.X.getNRows(), in.neq)); return false; }
  }
  in.Sigma00 = MatrixSquareSymmetric(nv);
  for (int a = 0; a < nv; a++)
    for (int b = 0; b <= a; b++) in.Sigma00.setValue(a, b, m->eval0(a, b));
  in.SigmaS = in.Sigma;
  in.SigmaS.prodScalar(kCovScale);
  in.Sigma00S = in.Sigma00;
  in.Sigma00S.prodScalar(kCovScale);
  for (int k = 0; k < nt; k++)
  {
    VectorInt one(1);
    one[0] = k;
    in.Sigma0.push_back(m->evalCovMatrix(dbin, dbout, -1, -1, VectorInt(), one));
    in.Sigma0S.push_back(in.Sigma0.back());
    in.Sigma0S.back().prodScalar(kCovScale);
    if (in.hasX) in.X0.push_back(m->evalDriftMatrix(dbout, -1, one));
    if (in.Sigma0.back().getNRows() != in.neq || in.Sigma0.back().getNCols() != nv || (in.hasX && (in.X0.back().getNRows() != nv || in.X0.back().getNCols() != in.X.getNCols())))
    {
      ctx.fail("harness:kcalc-inputs", "Sigma0 / X0 dimensions");
      return false;
    }
  }
  Eigen::MatrixXd S(in.neq, in.neq);
  for (int i = 0; i < in.neq; i++)
    for (int j = 0; j < in.neq; j++) S(i, j) = in.Sigma.getValue(i, j);
  Eigen::JacobiSVD<Eigen::MatrixXd> svd(S, Eigen::ComputeThinU | Eigen::ComputeThinV);
  double smin = svd.singularValues()(in.neq - 1);
  in.kappaSigma = smin > 0 ? svd.singularValues()(0) / smin : INFINITY;
  if (in.hasX && in.kappaSigma < 1e12)
  {
    int nf = in.X.getNCols();
    Eigen::MatrixXd Xm(in.neq, nf);
    for (int i = 0; i < in.neq; i++)
      for (int j = 0; j < nf; j++) Xm(i, j) = in.X.getValue(i, j);
    Eigen::MatrixXd Q = Xm.transpose() * svd.solve(Xm);
    Eigen::JacobiSVD<Eigen::MatrixXd> sq(Q);
    double qmin = sq.singularValues()(nf - 1);
    in.kappaDrift = qmin > 0 ? sq.singularValues()(0) / qmin : INFINITY;
  }
  return true;
}
static GenOpt optKc()
{
  GenOpt o;
  o.movingPct = 0;
  o.intrinsicPct = 0;
  o.verrPct = 0;
  o.heteroPct = 45;
  o.naFdataPct = 0;
  o.selPct = 25;
  o.nMax = 30;
  return o;
}
static void zeroSomeMeans(KCase& c)
{
  if (c.order < 0 && G::pct(50))
    for (auto& v : c.means) v = 0.;
}

// ---------------------------------------------------------------- 7a/7b. primal and dual ----
struct KcCase
{
  KCase k;
  std::vector<int> ops; // 0 estimation, 1 stdv, 2 variance of Z*, 3 next target, 4 toggle data scale, 5 toggle covariance scale
  template<class A> void io(A& a) { a("k", k)("ops", ops); }
};
static KcCase genKc()
{
  KcCase c;
  c.k = genCase(optKc());
  zeroSomeMeans(c.k);
  int nops = G::i(3, 14);
  for (int q = 0; q < nops; q++) c.ops.push_back(G::pick<int>({0, 0, 1, 1, 2, 2, 3, 3, 4, 5}));
  return c;
}
static void runKc(const KcCase& kc, Ctx& ctx, bool dual)
{
  const KCase& c = kc.k;
  labelCase(c, ctx);
  ctx.sig = Hash().add(signature(c)).add(dual ? 1 : 0).add((int)kc.ops.size()).h;
  World w;
  if (!buildWorld(c, w, ctx)) return;
  int nt = c.ntarg(), nv = c.nvar;
  std::vector<int> all = admissibleAll(c);
  if (all.empty()) { ctx.label("no-data"); return; }
  bool wantVarz = c.flagVarz != 0;
  std::string V = c.family();
  bool nzMean = false;
  for (double v : c.means) nzMean = nzMean || v != 0.;
  std::string cls = V + ((c.order < 0 && nzMean) ? ":nonzero-mean" : "");
  if (c.order < 0) ctx.label(nzMean ? "SK:nonzero-mean" : "SK:zero-mean");
  KcIn in;
  if (!buildKcIn(c, w.dbin.get(), w.dbout.get(), ctx, in)) return;
  ctx.at("kriging:reference:" + V);
  KRes R = runK(w.dbin.get(), w.dbout.get(), w.model.get(), w.neigh.get(), nv, false, VectorInt(), VectorInt(), "KR", wantVarz);
  if (R.err || !R.cols) { ctx.fail("kcalc:reference-error:" + V, "kriging() fails on a valid configuration"); return; }
  Orc orc;
  if (!makeOracle(c, w.dbout.get(), orc)) { ctx.fail("harness:model", "oracle model"); return; }
  double eta = etaIn(c);
  std::vector<Sys> sys((size_t)nt);
  for (int k = 0; k < nt; k++) orc.o->solve(k, pointGeom(c.ndim, c.targ.p(k)), all, sys[(size_t)k]);
  if (!(in.kappaSigma <= kKappaMax) || !(in.kappaDrift <= kKappaMax)) { ctx.inconclusive("ill-conditioned"); return; }

  std::string P = dual ? "kcalc-dual" : "kcalc";
  KrigingCalcul kcal(dual);
  int k = 0;
  bool zs = false, cs = false;
  ctx.at(P + ":setters");
  if (kcal.setData(&in.Z, &in.means) || kcal.setLHS(&in.Sigma, in.hasX ? &in.X : nullptr) || kcal.setRHS(&in.Sigma0[0], in.hasX ? &in.X0[0] : nullptr) ||
      (!dual && kcal.setVar(&in.Sigma00)))
  {
    ctx.fail(P + ":setter-error:" + V, "a setter of KrigingCalcul rejects consistent inputs");
    return;
  }
  int nChecked = 0, nIll = 0;
  std::vector<int> ops = kc.ops;
  ops.push_back(0);
  if (!dual) { ops.push_back(1); ops.push_back(2); }
  for (int op : ops)
  {
    if (op == 3)
    {
      k = (k + 1) % nt;
      ctx.at(P + ":setRHS");
      if (kcal.setRHS(cs ? &in.Sigma0S[(size_t)k] : &in.Sigma0[(size_t)k], in.hasX ? &in.X0[(size_t)k] : nullptr)) { ctx.fail(P + ":setter-error:" + V, "setRHS"); return; }
      continue;
    }
    if (op == 4)
    {
      zs = !zs;
      ctx.at(P + ":setData");
      if (kcal.setData(zs ? &in.Z2 : &in.Z, &in.means)) { ctx.fail(P + ":setter-error:" + V, "setData"); return; }
      continue;
    }
    if (op == 5)
    {
      cs = !cs;
      ctx.at(P + ":setLHS");
      if (kcal.setLHS(cs ? &in.SigmaS : &in.Sigma, in.hasX ? &in.X : nullptr) || kcal.setRHS(cs ? &in.Sigma0S[(size_t)k] : &in.Sigma0[(size_t)k], in.hasX ? &in.X0[(size_t)k] : nullptr) ||
          (!dual && kcal.setVar(cs ? &in.Sigma00S : &in.Sigma00)))
      {
        ctx.fail(P + ":setter-error:" + V, "setLHS/setRHS/setVar");
        return;
      }
      continue;
    }
    if (dual && op != 0) continue;
    if (op == 2 && !wantVarz) continue;
    const Sys& S = sys[(size_t)k];
    if (!S.solved || !(S.kappa <= kKappaMax)) { nIll++; continue; }
    double kap = std::max(std::max(S.kappa, in.kappaSigma), in.kappaDrift);
    ctx.at(P + (op == 0 ? ":getEstimation" : (op == 1 ? ":getStdv" : ":getVarianceZstar")));
    VectorDouble got = (op == 0) ? kcal.getEstimation() : (op == 1 ? kcal.getStdv() : kcal.getVarianceZstar());
    const char* what = (op == 0) ? "estimation" : (op == 1 ? "stdv" : "varZ*");
    std::string key = P + ":" + (op == 0 ? "estim" : (op == 1 ? "stdev" : "varz")) + ":" + cls;
    if ((int)got.size() != nv)
    {
      ctx.fail(key + ":size", fmt("%s: %d values returned for %d variables (target %d, data scale %d, cov scale %d)", what, (int)got.size(), nv, k, (int)zs, (int)cs));
      return;
    }
    nChecked++;
    for (int tv = 0; tv < nv; tv++)
    {
      size_t q = (size_t)(k * nv + tv);
      Tol t = tolOf(S, eta, tv, std::max(in.kappaSigma, in.kappaDrift));
      double m = in.means[tv];
      double expd;
      LD tol;
      if (op == 0) { expd = zs ? m + kZScale * (R.est[q] - m) : R.est[q]; tol = t.e * (zs ? kZScale : 1.) * 5; }
      else if (op == 1) { expd = cs ? std::sqrt(kCovScale) * R.sd[q] : R.sd[q]; tol = t.v * (cs ? kCovScale : 1.) * 5; }
      else { expd = cs ? kCovScale * R.vz[q] : R.vz[q]; tol = t.v * (cs ? kCovScale : 1.) * 5; }
      if (getenv("C04_DEBUG")) diag(fmt("DBG k %d op %d tv %d zs %d cs %d got %.15g exp %.15g oracle est %.15Lg var %.15Lg kS %.3g kD %.3g kA %.3g", k, op, tv, (int)zs, (int)cs, got[tv], expd, S.estim[(size_t)tv], S.var[(size_t)tv], in.kappaSigma, in.kappaDrift, S.kappa));
      if (!cmpVal(ctx, key, what, k, tv, got[tv], expd, tol, kap, op == 1)) return;
    }
  }
  if (nChecked == 0 && nIll > 0) ctx.inconclusive("ill-conditioned");
  ctx.nontrivial(nChecked > 0 && (int)all.size() >= 2 && (interesting(c) || c.order >= 0 || nv > 1));
}
static void runKcPrimal(const KcCase& c, Ctx& ctx) { runKc(c, ctx, false); }
static void runKcDual(const KcCase& c, Ctx& ctx) { runKc(c, ctx, true); }
VERIF_SUB(kcalc_primal, KcCase, genKc, runKcPrimal);
VERIF_SUB(kcalc_dual, KcCase, genKc, runKcDual);

// ---------------------------------------------------------------- 7c. weights ----
static KcCase genKcL()
{
  KcCase c;
  GenOpt o = optKc();
  o.nMax = 20;
  c.k = genCase(o);
  int nops = G::i(1, 4);
  for (int q = 0; q < nops; q++) c.ops.push_back(G::pick<int>({0, 1, 3}));
  return c;
}
static void runKcLambda(const KcCase& kc, Ctx& ctx)
{
  const KCase& c = kc.k;
  labelCase(c, ctx);
  ctx.sig = signature(c);
  World w;
  if (!buildWorld(c, w, ctx)) return;
  int nt = c.ntarg(), nv = c.nvar;
  std::vector<int> all = admissibleAll(c);
  if (all.empty()) { ctx.label("no-data"); return; }
  std::string V = c.family();
  KcIn in;
  if (!buildKcIn(c, w.dbin.get(), w.dbout.get(), ctx, in)) return;
  if (!(in.kappaSigma <= kKappaMax) || !(in.kappaDrift <= kKappaMax)) { ctx.inconclusive("ill-conditioned"); return; }
  int k = (nt == 1) ? 0 : 1 + (int)(kc.ops.size() % (size_t)(nt - 1)); // krigtest(iech0 = 0) loops over all targets
  Orc orc;
  if (!makeOracle(c, w.dbout.get(), orc)) { ctx.fail("harness:model", "oracle model"); return; }
  Sys S;
  orc.o->solve(k, pointGeom(c.ndim, c.targ.p(k)), all, S);
  if (!S.solved || !(S.kappa <= kKappaMax)) { ctx.inconclusive("ill-conditioned"); return; }
  ctx.at("krigtest:reference:" + V);
  Krigtest_Res kt = krigtest(w.dbin.get(), w.dbout.get(), w.model.get(), w.neigh.get(), k, EKrigOpt::POINT, VectorInt(), false, false);
  if (kt.wgt.getNRows() != S.N || kt.wgt.getNCols() != nv || S.nu != in.neq) { ctx.fail("harness:kcalc-lambda", fmt("krigtest weights %dx%d, system %d (%d covariance rows), calculator %d equations", kt.wgt.getNRows(), kt.wgt.getNCols(), S.N, S.nu, in.neq)); return; }
  KrigingCalcul kcal(false);
  ctx.at("kcalc:setters");
  if (kcal.setData(&in.Z, &in.means) || kcal.setLHS(&in.Sigma, in.hasX ? &in.X : nullptr) || kcal.setRHS(&in.Sigma0[(size_t)k], in.hasX ? &in.X0[(size_t)k] : nullptr) || kcal.setVar(&in.Sigma00))
  {
    ctx.fail("kcalc:setter-error:" + V, "a setter of KrigingCalcul rejects consistent inputs");
    return;
  }
  for (int op : kc.ops)
  {
    if (op == 0) (void)kcal.getEstimation();
    if (op == 1) (void)kcal.getStdv();
  }
  ctx.at("kcalc:getLambda");
  const MatrixRectangular* L = kcal.getLambda();
  if (L == nullptr)
  {
    ctx.fail("kcalc:lambda:null", "getLambda() returns no matrix although every input is present and getEstimation() works");
    return;
  }
  if (L->getNRows() != in.neq || L->getNCols() != nv) { ctx.fail("kcalc:lambda:dims", fmt("getLambda() is %dx%d for %d equations and %d variables", L->getNRows(), L->getNCols(), in.neq, nv)); return; }
  double kap = std::max(std::max(S.kappa, in.kappaSigma), in.kappaDrift);
  double eta = etaIn(c);
  for (int tv = 0; tv < nv; tv++)
  {
    LD wmax = 0;
    for (int r = 0; r < S.N; r++) wmax = std::max(wmax, fabsl(S.sol(r, tv)));
    LD tol = 10 * (LD)epsK(kap, eta) * wmax + (LD)10 * (LD)epsIn(eta) * (LD)S.covScale * (LD)S.sminInv * sqrtl((LD)S.N);
    for (int r = 0; r < in.neq; r++)
      if (!cmpVal(ctx, "kcalc:lambda:" + V, "weight", k, tv, L->getValue(r, tv), kt.wgt.getValue(r, tv), tol, kap)) return;
  }
  if (in.hasX)
  {
    ctx.at("kcalc:getMu");
    const MatrixRectangular* M = kcal.getMu();
    if (M == nullptr || M->getNRows() != S.nfeq || M->getNCols() != nv) { ctx.fail("kcalc:mu:dims", "getMu() absent or of the wrong size"); return; }
  }
  ctx.nontrivial((int)all.size() >= 2);
}
VERIF_SUB(kcalc_lambda, KcCase, genKcL, runKcLambda);

// ---------------------------------------------------------------- 7d. Bayesian ----
struct ByCase
{
  KCase k;
  std::vector<double> pmean, pA; // prior mean (nfeq), prior covariance = A A' + eps I (nfeq x nfeq)
  double peps = 1.;
  std::vector<int> ops;          // 0 estimation, 1 stdv, 2 posterior mean, 3 posterior covariance, 4 next target
  template<class A> void io(A& a) { a("k", k)("pmean", pmean)("pA", pA)("peps", peps)("ops", ops); }
};
static ByCase genBy()
{
  ByCase c;
  GenOpt o = optKc();
  o.family = G::pick<int>({1, 1, 1, 2, 3});
  o.nvarMax = G::pct(80) ? 1 : 2;
  o.selPct = 15;
  o.heteroPct = 20;
  o.nMax = 24;
  c.k = genCase(o);
  int nfeq = c.k.nvar * (monoCount(c.k.ndim, c.k.order) + c.k.nfex);
  for (int i = 0; i < nfeq; i++) c.pmean.push_back(G::r(-20, 20, 4));
  for (int i = 0; i < nfeq * nfeq; i++) c.pA.push_back(G::r(-2, 2, 4));
  c.peps = G::pick<double>({0.1, 1., 4.});
  int nops = G::i(2, 10);
  for (int q = 0; q < nops; q++) c.ops.push_back(G::i(0, 4));
  return c;
}
static void dbgMsg(const char* s) { diag(std::string("LIB: ") + s); }
static void runBy(const ByCase& bc, Ctx& ctx)
{
  if (getenv("C04_DEBUG")) { redefine_error(dbgMsg); redefine_message(dbgMsg); }
  const KCase& c = bc.k;
  labelCase(c, ctx);
  ctx.sig = Hash().add(signature(c)).add((int)bc.ops.size()).h;
  World w;
  if (!buildWorld(c, w, ctx)) return;
  int nt = c.ntarg(), nv = c.nvar;
  std::vector<int> all = admissibleAll(c);
  if (all.empty()) { ctx.label("no-data"); return; }
  int nbfl = monoCount(c.ndim, c.order) + c.nfex, nf = nv * nbfl;
  bool dropped = (int)all.size() != c.n();
  std::string cls = (nv > 1) ? "multivariate" : (nbfl > 1 ? "drift-functions" : (dropped ? "masked-or-undefined-samples" : "constant-mean"));
  ctx.label("bayes:" + cls);
  KcIn in;
  if (!buildKcIn(c, w.dbin.get(), w.dbout.get(), ctx, in)) return;
  if (!(in.kappaSigma <= kKappaMax) || in.X.getNCols() != nf) { ctx.inconclusive("ill-conditioned"); return; }
  VectorDouble pm((size_t)nf);
  MatrixSquareSymmetric pc(nf);
  MatL Sp(nf, nf), mp(nf, 1);
  for (int i = 0; i < nf; i++)
  {
    pm[i] = bc.pmean[(size_t)i];
    mp(i, 0) = pm[i];
    for (int j = 0; j < nf; j++)
    {
      double v = (i == j) ? bc.peps : 0.;
      for (int r = 0; r < nf; r++) v += bc.pA[(size_t)(i * nf + r)] * bc.pA[(size_t)(j * nf + r)];
      Sp(i, j) = v;
      if (j <= i) pc.setValue(i, j, v);
    }
  }
  // textbook Bayesian kriging from the very matrices given to the calculator (long double)
  int ne = in.neq;
  MatL Sg(ne, ne), X(ne, nf), Zv(ne, 1);
  for (int i = 0; i < ne; i++)
  {
    Zv(i, 0) = in.Z[i];
    for (int j = 0; j < ne; j++) Sg(i, j) = in.Sigma.getValue(i, j);
    for (int j = 0; j < nf; j++) X(i, j) = in.X.getValue(i, j);
  }
  Eigen::FullPivLU<MatL> luS(Sg), luP(Sp);
  MatL SiX = luS.solve(X), SiZ = luS.solve(Zv), Spi = luP.inverse();
  MatL Qc = X.transpose() * SiX + Spi;
  Eigen::JacobiSVD<Eigen::MatrixXd> svq(Qc.cast<double>());
  double kq = svq.singularValues()(nf - 1) > 0 ? svq.singularValues()(0) / svq.singularValues()(nf - 1) : INFINITY;
  Eigen::JacobiSVD<Eigen::MatrixXd> svp(Sp.cast<double>());
  double kp = svp.singularValues()(0) / svp.singularValues()(nf - 1);
  if (!(kq <= 1e8) || !(kp <= 1e8)) { ctx.inconclusive("ill-conditioned"); return; }
  MatL Sc = Eigen::FullPivLU<MatL>(Qc).inverse();
  MatL beta = Sc * (X.transpose() * SiZ + Spi * mp);
  double kap = std::max(in.kappaSigma, std::max(kq, kp));
  double er = std::max(1e-9, 1e3 * kEps * in.kappaSigma * std::max(kq, kp));

  ctx.at("kribayes");
  int err = kribayes(w.dbin.get(), w.dbout.get(), w.model.get(), w.neigh.get(), pm, pc, true, true, NamingConvention("BY"));
  std::vector<double> be((size_t)(nt * nv), NA), bs((size_t)(nt * nv), NA);
  if (!err)
    for (int v = 0; v < nv; v++)
    {
      std::string base = "BY.z" + std::to_string(v + 1);
      if (w.dbout->getUID(base + ".estim") < 0 || w.dbout->getUID(base + ".stdev") < 0) { err = 2; break; }
      VectorDouble e = w.dbout->getColumn(base + ".estim", false), s = w.dbout->getColumn(base + ".stdev", false);
      for (int k = 0; k < nt; k++) { be[(size_t)(k * nv + v)] = e[k]; bs[(size_t)(k * nv + v)] = s[k]; }
    }
  if (err) { ctx.fail("kcalc-bayes:kribayes:" + cls + ":error", fmt("kribayes() fails (%d) on a valid configuration", err)); return; }

  KrigingCalcul kcal(false);
  ctx.at("kcalc-bayes:setters");
  if (kcal.setData(&in.Z, &in.means) || kcal.setLHS(&in.Sigma, &in.X) || kcal.setRHS(&in.Sigma0[0], &in.X0[0]) || kcal.setVar(&in.Sigma00) || kcal.setBayes(&pm, &pc))
  {
    ctx.fail("kcalc-bayes:setter-error", "a setter of KrigingCalcul rejects consistent inputs");
    return;
  }
  int k = 0, nChecked = 0;
  std::vector<int> ops = bc.ops;
  for (int q = 0; q < 4; q++) ops.push_back(q);
  for (int op : ops)
  {
    if (op == 4)
    {
      k = (k + 1) % nt;
      if (kcal.setRHS(&in.Sigma0[(size_t)k], &in.X0[(size_t)k])) { ctx.fail("kcalc-bayes:setter-error", "setRHS"); return; }
      continue;
    }
    // algebra for target k
    MatL S0(ne, nv), X0(nv, nf), S00(nv, nv);
    for (int i = 0; i < ne; i++)
      for (int v = 0; v < nv; v++) S0(i, v) = in.Sigma0[(size_t)k].getValue(i, v);
    for (int v = 0; v < nv; v++)
    {
      for (int j = 0; j < nf; j++) X0(v, j) = in.X0[(size_t)k].getValue(v, j);
      for (int u = 0; u < nv; u++) S00(v, u) = in.Sigma00.getValue(v, u);
    }
    MatL lam = luS.solve(S0);
    MatL Y0 = X0 - lam.transpose() * X;
    MatL zs = lam.transpose() * Zv + Y0 * beta;
    MatL var = S00 - lam.transpose() * S0 + Y0 * Sc * Y0.transpose();
    nChecked++;
    if (op == 0 || op == 1)
    {
      ctx.at(op == 0 ? "kcalc-bayes:getEstimation" : "kcalc-bayes:getStdv");
      VectorDouble got = (op == 0) ? kcal.getEstimation() : kcal.getStdv();
      if ((int)got.size() != nv) { ctx.fail("kcalc-bayes:size", fmt("%d values for %d variables", (int)got.size(), nv)); return; }
      for (int tv = 0; tv < nv; tv++)
      {
        LD sc = 0;
        for (int i = 0; i < ne; i++) sc += fabsl(lam(i, tv) * Zv(i, 0));
        for (int j = 0; j < nf; j++)
        {
          LD y = fabsl(X0(tv, j)); // Y0 = X0 - lambda' X is itself a difference
          for (int i = 0; i < ne; i++) y += fabsl(lam(i, tv) * X(i, j));
          sc += y * (fabsl(beta(j, 0)) + fabsl(mp(j, 0)));
        }
        LD sv = fabsl(S00(tv, tv)) + fabsl((lam.col(tv).transpose() * S0.col(tv))(0, 0)) + fabsl((Y0.row(tv) * Sc * Y0.row(tv).transpose())(0, 0));
        LD expd = (op == 0) ? zs(tv, 0) : std::max((LD)0, var(tv, tv));
        LD tol = (LD)er * ((op == 0) ? sc : sv) + 1e-300L;
        LD g = (op == 0) ? (LD)got[tv] : (LD)got[tv] * got[tv];
        if (!(fabsl(g - expd) <= tol))
        {
          ctx.fail(std::string("kcalc-bayes:algebra:") + (op == 0 ? "estim" : "stdev"), fmt("target %d var %d: calculator %.15Lg, Bayesian kriging formulae on the same matrices %.15Lg (tol %.3Lg, kappa %.3g)", k, tv, g, expd, tol, kap));
          return;
        }
        // the standard path
        double kb = (op == 0) ? be[(size_t)(k * nv + tv)] : bs[(size_t)(k * nv + tv)];
        LD kg = (op == 0) ? (LD)kb : (LD)kb * kb;
        if (isNA(kb) || !(fabsl(kg - g) <= 10 * tol))
        {
          ctx.fail("kcalc-bayes:kribayes:" + cls + (op == 0 ? ":estim" : ":stdev"), fmt("target %d var %d: kribayes() %.15Lg, calculator %.15Lg, formulae %.15Lg (tol %.3Lg, %d drift equations, %d of %d samples used)", k, tv, kg, g, expd, 10 * tol, nf, (int)all.size(), c.n()));
          return;
        }
      }
    }
    else if (op == 2)
    {
      ctx.at("kcalc-bayes:getPostMean");
      VectorDouble got = kcal.getPostMean();
      if ((int)got.size() != nf) { ctx.fail("kcalc-bayes:size", "posterior mean size"); return; }
      LD sc = beta.cwiseAbs().maxCoeff() + mp.cwiseAbs().maxCoeff();
      for (int j = 0; j < nf; j++)
        if (!(fabsl((LD)got[j] - beta(j, 0)) <= (LD)er * sc)) { ctx.fail("kcalc-bayes:algebra:postmean", fmt("coefficient %d: calculator %.15g, formula %.15Lg", j, got[j], beta(j, 0))); return; }
    }
    else
    {
      ctx.at("kcalc-bayes:getPostCov");
      const MatrixSquareSymmetric* got = kcal.getPostCov();
      if (got == nullptr || got->getNRows() != nf) { ctx.fail("kcalc-bayes:size", "posterior covariance size"); return; }
      LD sc = Sc.cwiseAbs().maxCoeff();
      for (int i = 0; i < nf; i++)
        for (int j = 0; j < nf; j++)
          if (!(fabsl((LD)got->getValue(i, j) - Sc(i, j)) <= (LD)er * sc)) { ctx.fail("kcalc-bayes:algebra:postcov", fmt("(%d,%d): calculator %.15g, formula %.15Lg", i, j, got->getValue(i, j), Sc(i, j))); return; }
    }
  }
  ctx.nontrivial(nChecked > 0 && (int)all.size() >= 2);
}
VERIF_SUB(kcalc_bayes, ByCase, genBy, runBy);

// ---------------------------------------------------------------- 7e. collocated option of the calculator ----
static void runKcCcX(const CcCase& cc, Ctx& ctx, bool reuse)
{
  const KCase& c = cc.k;
  labelCase(c, ctx);
  ctx.sig = signature(c);
  World w;
  if (!buildWorld(c, w, ctx)) return;
  int nt = c.ntarg(), nv = c.nvar;
  std::vector<int> all = admissibleAll(c);
  if (all.empty()) { ctx.label("no-data"); return; }
  bool wantVarz = c.flagVarz != 0;
  std::string V = c.family();
  bool nzMean = false;
  for (double v : c.means) nzMean = nzMean || v != 0.;
  std::string cls = V + ((c.order < 0 && nzMean) ? ":nonzero-mean" : "");
  KcIn in;
  if (!buildKcIn(c, w.dbin.get(), w.dbout.get(), ctx, in)) return;
  if (!(in.kappaSigma <= kKappaMax)) { ctx.inconclusive("ill-conditioned"); return; }
  // the collocated formulae of the calculator estimate the drift from the ordinary data alone: their domain
  if (!(in.kappaDrift <= 1e8)) { ctx.inconclusive("drift-not-estimable-from-data-alone"); return; }
  double eta = etaIn(c);
  // reuse: one calculator for all targets (lazy cache across setRHS / setColCokUnique); otherwise a new one per target
  std::unique_ptr<KrigingCalcul> kown;
  std::string P = reuse ? "kcalc-colcok-cache" : "kcalc-colcok";
  int nChecked = 0, nIll = 0, nCol = 0;
  VectorDouble Zp((size_t)nv);
  VectorInt ranks;
  for (int k = 0; k < nt; k++)
  {
    const double* x = c.targ.p(k);
    const double* f = c.nfex ? &c.ftar[(size_t)(k * c.nfex)] : nullptr;
    std::vector<double> zk(cc.zc.begin() + k * nv, cc.zc.begin() + (k + 1) * nv);
    ranks.clear();
    for (int v = 0; v < nv; v++)
    {
      Zp[v] = 0.;
      if (isNA(zk[(size_t)v])) continue;
      Zp[v] = zk[(size_t)v] - in.means[v];
      ranks.push_back(v);
    }
    bool any = !ranks.empty();
    // reference: standard kriging with the collocated datum added to the data
    KCase b = any ? oneTarget(addSample(c, x, zk, f), x, f) : oneTarget(c, x, f);
    World wb;
    if (!buildWorld(b, wb, ctx)) return;
    ctx.at("kriging:added-datum:" + V);
    KRes B = runK(wb.dbin.get(), wb.dbout.get(), wb.model.get(), wb.neigh.get(), nv, false, VectorInt(), VectorInt(), "KA", wantVarz);
    if (B.err || !B.cols) { ctx.fail("kcalc-colcok:reference-error:" + V, "kriging() fails on a valid configuration"); return; }
    Orc orc;
    if (!makeOracle(b, wb.dbout.get(), orc)) { ctx.fail("harness:model", "oracle model"); return; }
    Sys S;
    orc.o->solve(0, pointGeom(c.ndim, x), admissibleAll(b), S);
    if (!reuse || !kown)
    {
      kown.reset(new KrigingCalcul(false));
      ctx.at(P + ":setters");
      if (kown->setData(&in.Z, &in.means) || kown->setLHS(&in.Sigma, in.hasX ? &in.X : nullptr) || kown->setVar(&in.Sigma00))
      {
        ctx.fail(P + ":setter-error:" + V, "a setter of KrigingCalcul rejects consistent inputs");
        return;
      }
    }
    KrigingCalcul& kcal = *kown;
    ctx.at(P + ":setRHS");
    if (kcal.setRHS(&in.Sigma0[(size_t)k], in.hasX ? &in.X0[(size_t)k] : nullptr) || kcal.setColCokUnique(any ? &Zp : nullptr, any ? &ranks : nullptr))
    {
      ctx.fail(P + ":setter-error:" + V, "setRHS / setColCokUnique reject consistent inputs");
      return;
    }
    if (!S.solved || !(S.kappa <= kKappaMax)) { nIll++; continue; }
    nChecked++;
    if (any) nCol++;
    double kap = std::max(std::max(S.kappa, in.kappaSigma), in.kappaDrift);
    std::vector<int> ops = cc.ops;
    for (int q = 0; q < 3; q++) ops.push_back(q);
    for (int op : ops)
    {
      if (op == 2 && !wantVarz) continue;
      ctx.at(P + (op == 0 ? ":getEstimation" : (op == 1 ? ":getStdv" : ":getVarianceZstar")));
      VectorDouble got = (op == 0) ? kcal.getEstimation() : (op == 1 ? kcal.getStdv() : kcal.getVarianceZstar());
      const char* what = (op == 0) ? "estimation" : (op == 1 ? "stdv" : "varZ*");
      std::string key = P + ":" + (op == 0 ? "estim" : (op == 1 ? "stdev" : "varz")) + ":" + cls;
      if ((int)got.size() != nv) { ctx.fail(key + ":size", fmt("%s: %d values returned for %d variables (target %d, %d collocated values)", what, (int)got.size(), nv, k, (int)ranks.size())); return; }
      for (int tv = 0; tv < nv; tv++)
      {
        Tol t = tolOf(S, eta, tv, std::max(in.kappaSigma, in.kappaDrift));
        double expd = (op == 0) ? B.est[(size_t)tv] : (op == 1 ? B.sd[(size_t)tv] : B.vz[(size_t)tv]);
        if (getenv("C04_DEBUG")) diag(fmt("DBG k %d op %d tv %d got %.15g ref %.15g oracle est %.15Lg var %.15Lg varz %.15Lg", k, op, tv, got[tv], expd, S.estim[(size_t)tv], S.var[(size_t)tv], S.varz[(size_t)tv]));
        if (!cmpVal(ctx, key, what, k, tv, got[tv], expd, 5 * (op == 0 ? t.e : t.v), kap, op == 1)) return;
      }
    }
  }
  if (nChecked == 0 && nIll > 0) ctx.inconclusive("ill-conditioned");
  ctx.nontrivial(nCol > 0);
}
static void runKcCc(const CcCase& c, Ctx& ctx) { runKcCcX(c, ctx, false); }
static void runKcCcCache(const CcCase& c, Ctx& ctx) { runKcCcX(c, ctx, true); }
VERIF_SUB(kcalc_colcok, CcCase, genCc, runKcCc);
VERIF_SUB(kcalc_colcok_cache, CcCase, genCc, runKcCcCache);

// ---------------------------------------------------------------- 7f. cross-validation option of the calculator ----
struct XvCase
{
  KCase k;
  int isamp = 0;
  std::vector<int> vars; // nvar flags
  std::vector<int> ops;
  template<class A> void io(A& a) { a("k", k)("isamp", isamp)("vars", vars)("ops", ops); }
};
static XvCase genXvc()
{
  XvCase c;
  GenOpt o = optKc();
  o.nMax = 24;
  c.k = genCase(o);
  zeroSomeMeans(c.k);
  c.isamp = G::i(0, 1000);
  for (int v = 0; v < c.k.nvar; v++) c.vars.push_back(G::pct(60) ? 1 : 0);
  int nops = G::i(1, 6);
  for (int q = 0; q < nops; q++) c.ops.push_back(G::i(0, 2));
  return c;
}
static void runKcXv(const XvCase& xc, Ctx& ctx)
{
  const KCase& c = xc.k;
  labelCase(c, ctx);
  ctx.sig = signature(c);
  int nv = c.nvar, n = c.n();
  std::vector<int> all = admissibleAll(c);
  if ((int)all.size() < 2) { ctx.label("fewer-than-2-data"); return; }
  int i0 = all[(size_t)(xc.isamp % (int)all.size())];
  std::vector<int> xv; // cross-validated variables (defined at i0)
  for (int v = 0; v < nv; v++)
    if (xc.vars[(size_t)v] && c.zdef(i0, v)) xv.push_back(v);
  if (xv.empty())
    for (int v = 0; v < nv && xv.empty(); v++)
      if (c.zdef(i0, v)) xv.push_back(v);
  VectorInt eqs, evars;
  {
    int idx = 0;
    for (int v = 0; v < nv; v++)
      for (int i = 0; i < n; i++)
      {
        if (!c.active(i) || !c.zdef(i, v)) continue;
        if (i == i0 && std::find(xv.begin(), xv.end(), v) != xv.end()) { eqs.push_back(idx); evars.push_back(v); }
        idx++;
      }
  }
  int nx = (int)eqs.size();
  bool wantVarz = c.flagVarz != 0;
  std::string V = c.family();
  bool nzMean = false;
  for (double v : c.means) nzMean = nzMean || v != 0.;
  std::string cls = V + ((c.order < 0 && nzMean) ? ":nonzero-mean" : "");
  ctx.label(nx == 1 ? "xvalid:one-equation" : "xvalid:several-equations");
  // reference: standard kriging of the cross-validated variables at x_i0 from the data without those values
  KCase b = oneTarget(c, c.data.p(i0), c.nfex ? &c.fdat[(size_t)(i0 * c.nfex)] : nullptr);
  for (int v : xv) b.z[(size_t)(i0 * nv + v)] = NA;
  std::vector<int> nb = admissibleAll(b);
  if (nb.empty()) { ctx.label("no-data-left"); return; }
  World wb;
  if (!buildWorld(b, wb, ctx)) return;
  ctx.at("kriging:deplemented:" + V);
  KRes B = runK(wb.dbin.get(), wb.dbout.get(), wb.model.get(), wb.neigh.get(), nv, false, VectorInt(), VectorInt(), "KD", wantVarz);
  if (B.err || !B.cols) { ctx.fail("kcalc-xvalid:reference-error:" + V, "kriging() fails on a valid configuration"); return; }
  Orc orc;
  if (!makeOracle(b, wb.dbout.get(), orc)) { ctx.fail("harness:model", "oracle model"); return; }
  Sys S;
  orc.o->solve(0, pointGeom(c.ndim, c.data.p(i0)), nb, S);
  // the calculator works on the complete data set
  World w;
  if (!buildWorld(c, w, ctx)) return;
  KcIn in;
  if (!buildKcIn(c, w.dbin.get(), w.dbout.get(), ctx, in)) return;
  if (!S.solved || !(S.kappa <= kKappaMax) || !(in.kappaSigma <= kKappaMax) || !(in.kappaDrift <= kKappaMax)) { ctx.inconclusive("ill-conditioned"); return; }
  double eta = etaIn(c);
  double kap = std::max(std::max(S.kappa, in.kappaSigma), in.kappaDrift);
  KrigingCalcul kcal(false);
  ctx.at("kcalc-xvalid:setters");
  if (kcal.setData(&in.Z, &in.means) || kcal.setLHS(&in.Sigma, in.hasX ? &in.X : nullptr) || kcal.setVar(&in.Sigma00))
  {
    ctx.fail("kcalc-xvalid:setter-error:" + V, "a setter of KrigingCalcul rejects consistent inputs");
    return;
  }
  ctx.at("kcalc-xvalid:setXvalidUnique");
  if (kcal.setXvalidUnique(&eqs, &evars)) { ctx.fail("kcalc-xvalid:setter-error:" + V, "setXvalidUnique rejects consistent inputs"); return; }
  std::vector<int> ops = xc.ops;
  for (int q = 0; q < 3; q++) ops.push_back(q);
  for (int op : ops)
  {
    if (op == 2 && !wantVarz) continue;
    ctx.at(std::string("kcalc-xvalid") + (op == 0 ? ":getEstimation" : (op == 1 ? ":getStdv" : ":getVarianceZstar")));
    VectorDouble got = (op == 0) ? kcal.getEstimation() : (op == 1 ? kcal.getStdv() : kcal.getVarianceZstar());
    const char* what = (op == 0) ? "estimation" : (op == 1 ? "stdv" : "varZ*");
    std::string key = std::string("kcalc-xvalid:") + (op == 0 ? "estim" : (op == 1 ? "stdev" : "varz")) + ":" + cls;
    if ((int)got.size() != nx) { ctx.fail(key + ":size", fmt("%s: %d values returned for %d cross-validated equations", what, (int)got.size(), nx)); return; }
    for (int q = 0; q < nx; q++)
    {
      int tv = evars[q];
      Tol t = tolOf(S, eta, tv, std::max(in.kappaSigma, in.kappaDrift));
      double expd = (op == 0) ? B.est[(size_t)tv] : (op == 1 ? B.sd[(size_t)tv] : B.vz[(size_t)tv]);
      if (!cmpVal(ctx, key, what, i0, tv, got[q], expd, 10 * (op == 0 ? t.e : t.v), kap, op == 1)) return;
    }
  }
  ctx.nontrivial(true);
}
VERIF_SUB(kcalc_xvalid, XvCase, genXvc, runKcXv);

VERIF_MAIN()
