// Shared pieces of the C15 harness (SPDE): small exact-ish linear algebra in long double written here
// (the library's sparse/dense algebra is the implementation under test), mesh construction with the
// geometry known to the harness, Matern/Markov model construction.
#pragma once
#include "verif.hpp"
#include "geo_common.hpp"

#include "Basic/VectorNumT.hpp"
#include "Basic/VectorHelper.hpp"
#include "Basic/Law.hpp"
#include "Basic/OptDbg.hpp"
#include "Basic/NamingConvention.hpp"
#include "Enum/ECov.hpp"
#include "Enum/ELoc.hpp"
#include "Enum/EPowerPT.hpp"
#include "Space/ASpaceObject.hpp"
#include "Db/Db.hpp"
#include "Db/DbGrid.hpp"
#include "Model/Model.hpp"
#include "Covariances/CovAniso.hpp"
#include "Mesh/AMesh.hpp"
#include "Mesh/MeshETurbo.hpp"
#include "Mesh/MeshEStandard.hpp"
#include "Matrix/MatrixSparse.hpp"
#include "Matrix/MatrixRectangular.hpp"
#include "Matrix/MatrixInt.hpp"
#include "Matrix/NF_Triplet.hpp"

#include <memory>
#include <algorithm>
#include <numeric>

namespace vfspde {
using namespace vf;
typedef long double LD;

// ------------------------------------------------------------------ sparse rows (reference) ----
struct Sp
{
  int nr = 0, nc = 0;
  std::vector<std::vector<std::pair<int, LD>>> row;
  LD get(int i, int j) const
  {
    LD s = 0;
    for (auto& e : row[(size_t)i])
      if (e.first == j) s += e.second;
    return s;
  }
  void mul(const std::vector<LD>& x, std::vector<LD>& y) const
  {
    y.assign((size_t)nr, 0.L);
    for (int i = 0; i < nr; i++)
    {
      LD s = 0;
      for (auto& e : row[(size_t)i]) s += e.second * x[(size_t)e.first];
      y[(size_t)i] = s;
    }
  }
  void mulT(const std::vector<LD>& x, std::vector<LD>& y) const
  {
    y.assign((size_t)nc, 0.L);
    for (int i = 0; i < nr; i++)
      for (auto& e : row[(size_t)i]) y[(size_t)e.first] += e.second * x[(size_t)i];
  }
  // sum_j |a_ij| |x_j| (scale of the rounding error of a product)
  void mulAbs(const std::vector<LD>& x, std::vector<LD>& y) const
  {
    y.assign((size_t)nr, 0.L);
    for (int i = 0; i < nr; i++)
    {
      LD s = 0;
      for (auto& e : row[(size_t)i]) s += fabsl(e.second) * fabsl(x[(size_t)e.first]);
      y[(size_t)i] = s;
    }
  }
  LD maxAbs() const
  {
    LD m = 0;
    for (auto& r : row)
      for (auto& e : r) m = std::max(m, fabsl(e.second));
    return m;
  }
  LD normInf() const
  {
    LD m = 0;
    for (auto& r : row)
    {
      LD s = 0;
      for (auto& e : r) s += fabsl(e.second);
      m = std::max(m, s);
    }
    return m;
  }
  long nnz() const
  {
    long n = 0;
    for (auto& r : row)
      for (auto& e : r)
        if (e.second != 0) n++;
    return n;
  }
};
// copy of a library sparse matrix (entries with equal (i,j) are summed)
inline bool spFrom(const MatrixSparse* m, Sp& s)
{
  if (m == nullptr) return false;
  s.nr = m->getNRows();
  s.nc = m->getNCols();
  s.row.assign((size_t)std::max(0, s.nr), {});
  if (!m->isFlagEigen())
  {
    // csparse storage: the triplet conversion drops entries below 1e-10 in absolute value, read the
    // entries one by one instead
    for (int i = 0; i < s.nr; i++)
      for (int j = 0; j < s.nc; j++)
      {
        double v = m->getValue(i, j, false);
        if (v != 0) s.row[(size_t)i].push_back({j, (LD)v});
      }
    return true;
  }
  NF_Triplet t = m->getMatrixToTriplet();
  for (int k = 0, n = t.getNumber(); k < n; k++)
  {
    int i = t.getRow(k), j = t.getCol(k);
    if (i < 0 || i >= s.nr || j < 0 || j >= s.nc) return false;
    bool found = false;
    for (auto& e : s.row[(size_t)i])
      if (e.first == j) { e.second += (LD)t.getValue(k); found = true; break; }
    if (!found) s.row[(size_t)i].push_back({j, (LD)t.getValue(k)});
  }
  return true;
}

// ------------------------------------------------------------------ dense SPD (reference) ------
struct Dense
{
  int n = 0;
  std::vector<LD> a;
  Dense() {}
  explicit Dense(int n_) : n(n_), a((size_t)n_ * (size_t)n_, 0.L) {}
  LD& at(int i, int j) { return a[(size_t)i * (size_t)n + (size_t)j]; }
  LD at(int i, int j) const { return a[(size_t)i * (size_t)n + (size_t)j]; }
  void mul(const std::vector<LD>& x, std::vector<LD>& y) const
  {
    y.assign((size_t)n, 0.L);
    for (int i = 0; i < n; i++)
    {
      LD s = 0;
      for (int j = 0; j < n; j++) s += at(i, j) * x[(size_t)j];
      y[(size_t)i] = s;
    }
  }
  LD normInf() const
  {
    LD m = 0;
    for (int i = 0; i < n; i++)
    {
      LD s = 0;
      for (int j = 0; j < n; j++) s += fabsl(at(i, j));
      m = std::max(m, s);
    }
    return m;
  }
};
// in-place Cholesky A = L L^t (lower part holds L); false when a pivot is not positive
inline bool cholFactor(Dense& A)
{
  int n = A.n;
  for (int j = 0; j < n; j++)
  {
    LD d = A.at(j, j);
    for (int k = 0; k < j; k++) d -= A.at(j, k) * A.at(j, k);
    if (!(d > 0) || !std::isfinite((double)d)) return false;
    d = sqrtl(d);
    A.at(j, j) = d;
    for (int i = j + 1; i < n; i++)
    {
      LD s = A.at(i, j);
      for (int k = 0; k < j; k++) s -= A.at(i, k) * A.at(j, k);
      A.at(i, j) = s / d;
    }
  }
  return true;
}
inline void cholSolve(const Dense& L, std::vector<LD>& b)
{
  int n = L.n;
  for (int i = 0; i < n; i++)
  {
    LD s = b[(size_t)i];
    for (int k = 0; k < i; k++) s -= L.at(i, k) * b[(size_t)k];
    b[(size_t)i] = s / L.at(i, i);
  }
  for (int i = n - 1; i >= 0; i--)
  {
    LD s = b[(size_t)i];
    for (int k = i + 1; k < n; k++) s -= L.at(k, i) * b[(size_t)k];
    b[(size_t)i] = s / L.at(i, i);
  }
}
inline LD cholLogDet(const Dense& L)
{
  LD s = 0;
  for (int i = 0; i < L.n; i++) s += 2.L * logl(L.at(i, i));
  return s;
}
// smallest eigenvalue by inverse iteration with the factor (Rayleigh quotient: an upper estimate)
inline LD lambdaMin(const Dense& L, int iters = 60)
{
  int n = L.n;
  std::vector<LD> x((size_t)n);
  for (int i = 0; i < n; i++) x[(size_t)i] = 1.L + 0.37L * sinl(1.3L * i + 0.2L);
  LD rho = 0;
  for (int it = 0; it < iters; it++)
  {
    LD nx = 0;
    for (auto v : x) nx += v * v;
    nx = sqrtl(nx);
    for (auto& v : x) v /= nx;
    std::vector<LD> y = x;
    cholSolve(L, y);
    rho = 0;
    for (int i = 0; i < n; i++) rho += x[(size_t)i] * y[(size_t)i];
    x = y;
  }
  return 1.L / rho;
}
inline LD norm2(const std::vector<LD>& v)
{
  LD s = 0;
  for (auto x : v) s += x * x;
  return sqrtl(s);
}
inline LD normInfV(const std::vector<LD>& v)
{
  LD s = 0;
  for (auto x : v) s = std::max(s, fabsl(x));
  return s;
}
inline std::vector<LD> toLD(const std::vector<double>& v) { return std::vector<LD>(v.begin(), v.end()); }
inline VectorDouble toVD(const std::vector<double>& v) { return VectorDouble(v.begin(), v.end()); }
inline VectorInt toVI(const std::vector<int>& v) { return VectorInt(v.begin(), v.end()); }

// ------------------------------------------------------------------ global state --------------
inline void resetGlobals(int ndim, bool flagEigen)
{
  defineDefaultSpace(ESpaceType::RN, (unsigned)ndim);
  law_set_old_style(true);
  law_set_random_seed(13579);
  OptDbg::reset();
  setGlobalFlagEigen(flagEigen);
}

// ------------------------------------------------------------------ meshes --------------------
// kind: 0 turbo (MeshETurbo from a DbGrid), 1 turbo polarized, 2 unstructured (MeshEStandard built by
// createFromExternal from the turbo connectivity with jittered interior apices), 3 turbo from a DbGrid
// carrying a selection (masked nodes)
struct MeshSpec
{
  int ndim = 2;
  std::vector<int> nx;
  std::vector<double> dx, x0, ang; // ang in degrees (size ndim when ndim >= 2)
  int kind = 0;
  double amp = 0.2;          // jitter amplitude (fraction of the cell) for kind 2
  std::vector<double> jit;   // kind 2: pattern in [-1,1], used cyclically per (grid node, axis)
  std::vector<int> mask;     // kind 3: pattern (1 = selected), used cyclically per grid node
  template<class A> void io(A& a) { a("ndim", ndim)("nx", nx)("dx", dx)("x0", x0)("ang", ang)("kind", kind)("amp", amp)("jit", jit)("mask", mask); }
  int nnodes() const
  {
    int n = 1;
    for (int v : nx) n *= v;
    return n;
  }
  double cell() const
  {
    double c = dx[0];
    for (double v : dx) c = std::min(c, v);
    return c;
  }
};
inline const char* kindName(int k)
{
  static const char* n[] = {"turbo", "turbo-pol", "std", "turbo-mask"};
  return n[k & 3];
}

// maxNodes: cap on the number of grid nodes; kinds: admitted kinds
inline MeshSpec genMeshSpec(int maxNodes, std::vector<int> kinds, int maxPerAxis = 14)
{
  MeshSpec m;
  int d = G::i(0, 99);
  m.ndim = (d < 15) ? 1 : (d < 70 ? 2 : 3);
  double cell = G::pick<double>({0.01, 1., 250.});
  int budget = maxNodes;
  for (int k = 0; k < m.ndim; k++)
  {
    int rest = 1;
    for (int q = k + 1; q < m.ndim; q++) rest *= 3;
    int hi = std::min(m.ndim == 1 ? std::min(40, maxNodes) : maxPerAxis, budget / rest);
    hi = std::max(3, hi);
    int n = G::sz(3, hi);
    m.nx.push_back(n);
    budget = std::max(1, budget / n);
    m.dx.push_back(cell * G::r(1, 4, 8) * 0.5);
    m.x0.push_back(G::pct(30) ? 0. : cell * G::r(-1000, 1000, 4));
  }
  if (m.ndim >= 2)
  {
    m.ang.assign((size_t)m.ndim, 0.);
    if (G::pct(65))
    {
      m.ang[0] = G::pct(25) ? G::pick<double>({90., -90., 180., 45.}) : G::r(-180, 180, 2);
      if (m.ndim == 3 && G::pct(70))
      {
        m.ang[1] = G::r(-90, 90, 2);
        m.ang[2] = G::r(-180, 180, 2);
      }
    }
  }
  m.kind = G::pickv(kinds);
  if (m.kind == 1 && m.ndim != 2) m.kind = 0; // polarisation only exists in 2-D
  if (m.kind == 2)
  {
    m.amp = G::pick<double>({0.05, 0.2, 0.3});
    m.jit.resize(23); // pattern used cyclically over (node, axis)
    for (auto& v : m.jit) v = G::r(-1, 1, 16);
  }
  if (m.kind == 3)
  {
    m.mask.assign(61, 1); // pattern used cyclically over the grid nodes
    int p = G::pick<int>({5, 15, 30});
    for (auto& v : m.mask) v = G::pct(p) ? 0 : 1;
  }
  return m;
}

struct Built
{
  std::unique_ptr<DbGrid> grid;
  std::unique_ptr<MeshETurbo> turbo;
  std::unique_ptr<MeshEStandard> stdm;
  const AMesh* mesh = nullptr;
  int ndim = 0, nap = 0, nel = 0, nc = 0;
  std::vector<double> U;       // grid axes (row i = u_i)
  std::vector<double> apex;    // nap * ndim, the geometry as known to the harness
  std::vector<int> elem;       // nel * nc apex ranks (connectivity reported by the library)
  std::vector<int> nodeOfApex; // grid rank of each apex
  std::vector<int> mask;       // per grid node (all 1 unless kind 3)
  double extent = 1;           // size of the coordinates (for tolerances)
};

inline void nodeIndices(const MeshSpec& s, int rank, int* idx)
{
  for (int d = 0; d < s.ndim; d++)
  {
    idx[d] = rank % s.nx[(size_t)d];
    rank /= s.nx[(size_t)d];
  }
}
// world coordinates of the point with grid-frame coordinates t (in cells)
inline void gridToWorld(const MeshSpec& s, const std::vector<double>& U, const double* t, double* x)
{
  for (int j = 0; j < s.ndim; j++)
  {
    LD v = s.x0[(size_t)j];
    for (int d = 0; d < s.ndim; d++) v += (LD)t[d] * (LD)s.dx[(size_t)d] * (LD)U[(size_t)(d * s.ndim + j)];
    x[j] = (double)v;
  }
}
inline void worldToGrid(const MeshSpec& s, const std::vector<double>& U, const double* x, double* t)
{
  for (int d = 0; d < s.ndim; d++)
  {
    LD v = 0;
    for (int j = 0; j < s.ndim; j++) v += ((LD)x[j] - (LD)s.x0[(size_t)j]) * (LD)U[(size_t)(d * s.ndim + j)];
    t[d] = (double)(v / (LD)s.dx[(size_t)d]);
  }
}
// signed volume of the simplex with apices given by nc = ndim+1 points
inline LD simplexVolume(int ndim, const double* const* p)
{
  LD m[9];
  for (int c = 1; c <= ndim; c++)
    for (int j = 0; j < ndim; j++) m[(c - 1) * ndim + j] = (LD)p[c][j] - (LD)p[0][j];
  if (ndim == 1) return m[0];
  if (ndim == 2) return (m[0] * m[3] - m[1] * m[2]) / 2.L;
  return (m[0] * (m[4] * m[8] - m[5] * m[7]) - m[1] * (m[3] * m[8] - m[5] * m[6]) + m[2] * (m[3] * m[7] - m[4] * m[6])) / 6.L;
}
inline LD elemVolume(const Built& B, const std::vector<double>& apex, int e)
{
  const double* p[4];
  for (int c = 0; c < B.nc; c++) p[c] = &apex[(size_t)(B.elem[(size_t)(e * B.nc + c)] * B.ndim)];
  return simplexVolume(B.ndim, p);
}

// Builds the library mesh and the harness' own description of its geometry; structural
// inconsistencies of the library mesh are reported through ctx (keys mesh:*).
inline bool buildMesh(const MeshSpec& s, Built& B, Ctx& ctx)
{
  int ndim = s.ndim;
  B.ndim = ndim;
  B.nc = ndim + 1;
  B.U = vfgeo::rotationAxes(ndim, s.ang);
  int nn = s.nnodes();
  B.mask.assign((size_t)nn, 1);
  if (s.kind == 3)
  {
    for (int r = 0; r < nn; r++) B.mask[(size_t)r] = s.mask[(size_t)r % s.mask.size()];
    // the first cell always survives (so that the mesh is never empty)
    for (int r = 0; r < nn; r++)
    {
      int idx[3];
      bool first = true;
      nodeIndices(s, r, idx);
      for (int d = 0; d < ndim; d++)
        if (idx[d] > 1) first = false;
      if (first) B.mask[(size_t)r] = 1;
    }
  }
  std::string kn = kindName(s.kind);

  ctx.at("DbGrid::create");
  VectorDouble ang = (ndim >= 2) ? toVD(s.ang) : VectorDouble();
  B.grid.reset(DbGrid::create(toVI(s.nx), toVD(s.dx), toVD(s.x0), ang));
  if (!B.grid) { ctx.fail("mesh:grid-null", "DbGrid::create returned null"); return false; }
  if (s.kind == 3)
  {
    VectorDouble sel((size_t)nn);
    for (int i = 0; i < nn; i++) sel[i] = B.mask[(size_t)i];
    B.grid->addColumns(sel, "sel", ELoc::SEL, 0);
  }
  ctx.at("MeshETurbo::createFromGrid");
  B.turbo.reset(MeshETurbo::createFromGrid(B.grid.get(), s.kind == 1, false));
  if (!B.turbo) { ctx.fail("mesh:turbo-null", "MeshETurbo::createFromGrid returned null"); return false; }
  const MeshETurbo* T = B.turbo.get();
  B.nap = T->getNApices();
  B.nel = T->getNMeshes();
  if (T->getNDim() != ndim || T->getNApexPerMesh() != ndim + 1)
  {
    ctx.fail("mesh:" + kn + ":dims", fmt("ndim %d apices per mesh %d", T->getNDim(), T->getNApexPerMesh()));
    return false;
  }
  // extent of the coordinates
  B.extent = 0;
  for (int d = 0; d < ndim; d++) B.extent = std::max(B.extent, std::fabs(s.x0[(size_t)d]) + s.nx[(size_t)d] * s.dx[(size_t)d]);

  // apices: grid nodes (all of them without selection)
  std::vector<double> node((size_t)(nn * ndim));
  for (int r = 0; r < nn; r++)
  {
    int idx[3];
    double t[3];
    nodeIndices(s, r, idx);
    for (int d = 0; d < ndim; d++) t[d] = idx[d];
    gridToWorld(s, B.U, t, &node[(size_t)(r * ndim)]);
  }
  double ctol = 1e-9 * B.extent;
  B.apex.assign((size_t)(B.nap * ndim), 0.);
  B.nodeOfApex.assign((size_t)B.nap, -1);
  if (s.kind != 3)
  {
    if (B.nap != nn) { ctx.fail("mesh:" + kn + ":napices", fmt("%d apices for %d grid nodes", B.nap, nn)); return false; }
    for (int k = 0; k < B.nap; k++)
    {
      B.nodeOfApex[(size_t)k] = k;
      for (int j = 0; j < ndim; j++)
      {
        double lib = T->getApexCoor(k, j);
        B.apex[(size_t)(k * ndim + j)] = node[(size_t)(k * ndim + j)];
        if (!(std::fabs(lib - node[(size_t)(k * ndim + j)]) <= ctol))
        {
          ctx.fail("mesh:" + kn + ":apex-coor", fmt("apex %d axis %d: %.17g, grid node is at %.17g", k, j, lib, node[(size_t)(k * ndim + j)]));
          return false;
        }
      }
    }
  }
  else
  {
    // with a selection: every apex must be a selected grid node, apices in increasing grid rank
    int prev = -1;
    for (int k = 0; k < B.nap; k++)
    {
      double x[3], t[3];
      for (int j = 0; j < ndim; j++) x[j] = T->getApexCoor(k, j);
      worldToGrid(s, B.U, x, t);
      int rank = 0, mul = 1;
      bool ok = true;
      for (int d = 0; d < ndim; d++)
      {
        int i = (int)std::lround(t[d]);
        if (i < 0 || i >= s.nx[(size_t)d] || std::fabs(t[d] - i) > 1e-6) ok = false;
        rank += mul * std::max(0, std::min(i, s.nx[(size_t)d] - 1));
        mul *= s.nx[(size_t)d];
      }
      if (!ok || B.mask[(size_t)rank] == 0)
      {
        ctx.fail("mesh:turbo-mask:apex-not-selected-node", fmt("apex %d is not a selected grid node (grid rank %d)", k, rank));
        return false;
      }
      if (rank <= prev) { ctx.fail("mesh:turbo-mask:apex-order", fmt("apex %d has grid rank %d after %d", k, rank, prev)); return false; }
      prev = rank;
      B.nodeOfApex[(size_t)k] = rank;
      for (int j = 0; j < ndim; j++) B.apex[(size_t)(k * ndim + j)] = node[(size_t)(rank * ndim + j)];
    }
  }
  // connectivity
  ctx.at("MeshETurbo::getApex");
  B.elem.assign((size_t)(B.nel * B.nc), 0);
  for (int e = 0; e < B.nel; e++)
    for (int c = 0; c < B.nc; c++)
    {
      int a = T->getApex(e, c);
      if (a < 0 || a >= B.nap) { ctx.fail("mesh:" + kn + ":apex-rank", fmt("mesh %d corner %d -> apex %d of %d", e, c, a, B.nap)); return false; }
      B.elem[(size_t)(e * B.nc + c)] = a;
    }
  // every element is one of the simplices of one grid cell, with the volume cell/nPerCell; without
  // selection the elements tile the grid
  LD cellVol = 1;
  for (int d = 0; d < ndim; d++) cellVol *= s.dx[(size_t)d];
  int perCell = (ndim == 1) ? 1 : (ndim == 2 ? 2 : 6);
  LD tot = 0;
  for (int e = 0; e < B.nel; e++)
  {
    LD v = fabsl(elemVolume(B, B.apex, e));
    tot += v;
    if (!(fabsl(v - cellVol / perCell) <= 1e-9L * cellVol))
    {
      ctx.fail("mesh:" + kn + ":element-volume", fmt("mesh %d has volume %Lg, a cell has %Lg / %d", e, v, cellVol, perCell));
      return false;
    }
    int lo[3], hi[3];
    for (int c = 0; c < B.nc; c++)
    {
      int idx[3];
      nodeIndices(s, B.nodeOfApex[(size_t)B.elem[(size_t)(e * B.nc + c)]], idx);
      for (int d = 0; d < ndim; d++)
      {
        if (c == 0) lo[d] = hi[d] = idx[d];
        lo[d] = std::min(lo[d], idx[d]);
        hi[d] = std::max(hi[d], idx[d]);
      }
    }
    for (int d = 0; d < ndim; d++)
      if (hi[d] - lo[d] > 1) { ctx.fail("mesh:" + kn + ":element-span", fmt("mesh %d spans more than one cell along axis %d", e, d)); return false; }
  }
  if (s.kind != 3)
  {
    LD all = cellVol;
    for (int d = 0; d < ndim; d++) all *= (s.nx[(size_t)d] - 1);
    if (!(fabsl(tot - all) <= 1e-9L * all))
    {
      ctx.fail("mesh:" + kn + ":tiling", fmt("elements have total volume %Lg, the grid %Lg", tot, all));
      return false;
    }
  }
  B.mesh = B.turbo.get();

  if (s.kind == 2)
  {
    // jitter interior nodes in the grid frame; halve the amplitude until every element keeps its
    // orientation and at least 20 % of its volume (identity on the boundary + positive orientation
    // everywhere => still a tiling of the same box)
    std::vector<double> moved;
    double amp = s.amp;
    for (int attempt = 0; attempt < 8; attempt++, amp *= 0.5)
    {
      moved = B.apex;
      for (int r = 0; r < nn; r++)
      {
        int idx[3];
        nodeIndices(s, r, idx);
        bool interior = true;
        for (int d = 0; d < ndim; d++)
          if (idx[d] == 0 || idx[d] == s.nx[(size_t)d] - 1) interior = false;
        if (!interior) continue;
        double t[3];
        for (int d = 0; d < ndim; d++) t[d] = idx[d] + amp * s.jit[(size_t)(r * ndim + d) % s.jit.size()];
        gridToWorld(s, B.U, t, &moved[(size_t)(r * ndim)]);
      }
      bool ok = true;
      for (int e = 0; e < B.nel && ok; e++)
      {
        LD v0 = elemVolume(B, B.apex, e), v1 = elemVolume(B, moved, e);
        if (!(v1 / v0 >= 0.2L)) ok = false;
      }
      if (ok) break;
      if (attempt == 7) moved = B.apex;
    }
    B.apex = moved;
    MatrixRectangular ap(B.nap, ndim);
    for (int k = 0; k < B.nap; k++)
      for (int j = 0; j < ndim; j++) ap.setValue(k, j, B.apex[(size_t)(k * ndim + j)]);
    MatrixInt me(B.nel, B.nc);
    for (int e = 0; e < B.nel; e++)
      for (int c = 0; c < B.nc; c++) me.setValue(e, c, B.elem[(size_t)(e * B.nc + c)]);
    ctx.at("MeshEStandard::createFromExternal");
    B.stdm.reset(MeshEStandard::createFromExternal(ap, me, false));
    if (!B.stdm) { ctx.fail("mesh:std:null", "createFromExternal returned null"); return false; }
    const MeshEStandard* M = B.stdm.get();
    if (M->getNApices() != B.nap || M->getNMeshes() != B.nel || M->getNDim() != ndim)
    {
      ctx.fail("mesh:std:dims", fmt("%d apices %d meshes ndim %d, given %d %d %d", M->getNApices(), M->getNMeshes(), M->getNDim(), B.nap, B.nel, ndim));
      return false;
    }
    for (int k = 0; k < B.nap; k++)
      for (int j = 0; j < ndim; j++)
        if (M->getApexCoor(k, j) != B.apex[(size_t)(k * ndim + j)])
        {
          ctx.fail("mesh:std:apex-coor", fmt("apex %d axis %d is not the given coordinate", k, j));
          return false;
        }
    for (int e = 0; e < B.nel; e++)
      for (int c = 0; c < B.nc; c++)
        if (M->getApex(e, c) != B.elem[(size_t)(e * B.nc + c)])
        {
          ctx.fail("mesh:std:apex-rank", fmt("mesh %d corner %d is not the given apex", e, c));
          return false;
        }
    B.mesh = M;
  }
  return true;
}

// ------------------------------------------------------------------ points --------------------
// A point described relative to the mesh: type 0 = inside element (el modulo the number of
// elements) with barycentric weights w (all >= 0.03), type 1 = outside the grid box, grid-frame
// coordinates t (cells), type 2 = middle of a cell all corners of which are masked (kind 3; falls back
// to type 1 when there is no such cell)
struct PtSpec
{
  int type = 0, el = 0;
  std::vector<double> w, t;
  template<class A> void io(A& a) { a("type", type)("el", el)("w", w)("t", t); }
};
inline PtSpec genPt(const MeshSpec& m, int pctOutside, bool holes)
{
  PtSpec p;
  int ndim = m.ndim;
  p.type = G::pct(pctOutside) ? 1 : 0;
  if (holes && m.kind == 3 && G::pct(20)) p.type = 2;
  p.el = G::i(0, 1 << 20);
  // weights >= 0.03, sum 1
  std::vector<double> g((size_t)(ndim + 1));
  double sg = 0;
  for (auto& v : g) { v = G::r(1, 32, 1); sg += v; }
  double mgn = 0.03;
  for (auto v : g) p.w.push_back(mgn + (1. - (ndim + 1) * mgn) * v / sg);
  // outside: every axis anywhere around the box, one axis forced out by 0.05 .. 1.5 cells
  int forced = G::i(0, ndim - 1);
  for (int d = 0; d < ndim; d++)
  {
    double hi = m.nx[(size_t)d] - 1;
    double t = -1.5 + (hi + 3.) * G::r(0, 64, 1) / 64.;
    if (d == forced)
    {
      double off = G::pick<double>({0.05, 0.3, 0.9, 1.0, 1.5, 3.});
      t = G::b() ? -off : hi + off;
    }
    p.t.push_back(t);
  }
  if (p.type == 2)
    for (int d = 0; d < ndim; d++) p.t[(size_t)d] = G::r(2, 8, 1) / 10.; // position inside the cell
  return p;
}
struct ResolvedPt
{
  bool inside = false;     // inside the mesh (one element)
  bool outOfGrid = false;  // outside the index range of the grid (library: coordinateToIndices fails)
  int el = -1;
  std::vector<double> x;   // world coordinates
  std::vector<double> w;   // expected weights per apex of el
};
inline ResolvedPt resolvePt(const MeshSpec& s, const Built& B, const PtSpec& p)
{
  ResolvedPt r;
  int ndim = s.ndim;
  r.x.assign((size_t)ndim, 0.);
  int type = p.type;
  std::vector<double> t = p.t;
  if (type == 2)
  {
    // cells with all corners masked
    std::vector<int> cells;
    int nn = s.nnodes();
    for (int rnk = 0; rnk < nn; rnk++)
    {
      int idx[3];
      nodeIndices(s, rnk, idx);
      bool ok = true;
      for (int d = 0; d < ndim; d++)
        if (idx[d] >= s.nx[(size_t)d] - 1) ok = false;
      if (!ok) continue;
      for (int c = 0; c < (1 << ndim) && ok; c++)
      {
        int rr = 0, mul = 1;
        for (int d = 0; d < ndim; d++)
        {
          rr += mul * (idx[d] + ((c >> d) & 1));
          mul *= s.nx[(size_t)d];
        }
        if (B.mask[(size_t)rr] != 0) ok = false;
      }
      if (ok) cells.push_back(rnk);
    }
    if (cells.empty()) { type = 1; t = p.t; for (int d = 0; d < ndim; d++) t[(size_t)d] = (d == 0) ? -0.5 - p.t[(size_t)d] : p.t[(size_t)d]; }
    else
    {
      int idx[3];
      nodeIndices(s, cells[(size_t)(p.el % (int)cells.size())], idx);
      for (int d = 0; d < ndim; d++) t[(size_t)d] = idx[d] + p.t[(size_t)d];
    }
  }
  if (type == 3 && B.nel > 0 && B.nap > 0)
  {
    // an apex of the mesh itself (also on the hull): it belongs to the mesh; its coordinates are exactly the stored ones
    int a = p.el % B.nap;
    int el = -1;
    for (int e = 0; e < B.nel && el < 0; e++)
      for (int c = 0; c < B.nc; c++)
        if (B.elem[(size_t)(e * B.nc + c)] == a) { el = e; break; }
    if (el >= 0)
    {
      r.inside = true;
      r.el = el;
      for (int j = 0; j < ndim; j++) r.x[(size_t)j] = B.apex[(size_t)(a * ndim + j)];
      return r;
    }
    type = 0;
  }
  if (type == 0 && B.nel > 0)
  {
    r.inside = true;
    r.el = p.el % B.nel;
    r.w = p.w;
    for (int j = 0; j < ndim; j++)
    {
      LD v = 0;
      for (int c = 0; c < B.nc; c++) v += (LD)p.w[(size_t)c] * (LD)B.apex[(size_t)(B.elem[(size_t)(r.el * B.nc + c)] * ndim + j)];
      r.x[(size_t)j] = (double)v;
    }
    return r;
  }
  gridToWorld(s, B.U, t.data(), r.x.data());
  for (int d = 0; d < ndim; d++)
  {
    double v = std::floor(t[(size_t)d] + 1e-6); // the library's index (Grid::coordinateToIndicesInPlace, eps = 1e-6)
    if (v < 0 || v >= s.nx[(size_t)d]) r.outOfGrid = true;
  }
  return r;
}

// ------------------------------------------------------------------ covariances ---------------
struct CovSpec
{
  int type = 0; // 0 MATERN, 1 MARKOV
  double param = 1, sill = 1;
  std::vector<double> ranges, ang;
  std::vector<double> mk1, mk2;
  double mkeps = 0.1;
  template<class A> void io(A& a) { a("type", type)("param", param)("sill", sill)("ranges", ranges)("ang", ang)("mk1", mk1)("mk2", mk2)("mkeps", mkeps); }
};
// cell: typical mesh size; ranges are 1.5 .. 6 cells
inline CovSpec genCov(int ndim, double cell, double sillScale, bool allowMarkov)
{
  CovSpec c;
  c.type = (allowMarkov && ndim <= 2 && G::pct(ndim == 1 ? 15 : 3)) ? 1 : 0; // the normalisation of a Markov model is an FFT on 256^ndim points
  if (G::pct(85))
    c.param = (ndim == 2) ? G::pick<double>({1., 1., 2., 3.}) : G::pick<double>({0.5, 1.5, 1.5, 2.5});
  else
    c.param = G::r(4, 24, 1) / 8.; // any smoothness is accepted (alpha is rounded to an integer by the library)
  bool iso = G::pct(35);
  double r0 = cell * G::r(12, 48, 1) / 8.;
  for (int d = 0; d < ndim; d++) c.ranges.push_back(iso ? r0 : cell * G::r(12, 48, 1) / 8.);
  if (ndim >= 2)
  {
    c.ang.assign((size_t)ndim, 0.);
    if (!iso && G::pct(70))
    {
      c.ang[0] = G::r(-180, 180, 1);
      if (ndim == 3 && G::pct(60)) { c.ang[1] = G::r(-90, 90, 1); c.ang[2] = G::r(-180, 180, 1); }
    }
  }
  c.sill = sillScale * G::r(3, 30, 1) / 10.;
  if (c.type == 1)
  {
    int n1 = G::i(1, 3), n2 = G::i(0, 2);
    for (int k = 0; k < n1; k++) c.mk1.push_back(G::r(1, 16, 1) / 8.);
    for (int k = 0; k < n2; k++) c.mk2.push_back(G::r(1, 16, 1) / 8.);
    c.mkeps = G::pick<double>({0.01, 0.1, 1.});
  }
  return c;
}
inline Model* buildModel(int ndim, const std::vector<CovSpec>& covs, double nugget)
{
  Model* m = nullptr;
  for (size_t k = 0; k < covs.size(); k++)
  {
    const CovSpec& c = covs[k];
    ECov type = (c.type == 1) ? ECov::MARKOV : ECov::MATERN;
    VectorDouble ang = (ndim >= 2) ? toVD(c.ang) : VectorDouble();
    if (k == 0)
      m = Model::createFromParam(type, 1., c.sill, c.param, toVD(c.ranges), VectorDouble(), ang, nullptr, true);
    else
      m->addCovFromParam(type, 1., c.sill, c.param, toVD(c.ranges), VectorDouble(), ang, true);
    if (m == nullptr) return nullptr;
    if (c.type == 1) m->getCova((int)k)->setMarkovCoeffsBySquaredPolynomials(toVD(c.mk1), toVD(c.mk2), c.mkeps);
  }
  if (m != nullptr && nugget > 0) m->addCovFromParam(ECov::NUGGET, 0., nugget);
  return m;
}
inline bool nontrivialGeom(const MeshSpec& m, const std::vector<CovSpec>& covs)
{
  bool rot = false;
  for (double a : m.ang)
    if (a != 0) rot = true;
  bool aniso = false;
  for (auto& c : covs)
    for (size_t d = 1; d < c.ranges.size(); d++)
      if (c.ranges[d] != c.ranges[0]) aniso = true;
  return rot || aniso || m.ndim == 3 || m.kind == 2;
}

// data base of points
inline Db* makeDb(int ndim, const std::vector<std::vector<double>>& xs)
{
  Db* db = Db::create();
  for (int d = 0; d < ndim; d++)
  {
    VectorDouble col(xs.size());
    for (size_t i = 0; i < xs.size(); i++) col[i] = xs[i][(size_t)d];
    db->addColumns(col, "x" + std::to_string(d + 1), ELoc::X, d);
  }
  return db;
}

} // namespace vfspde
