// Force-included (-include) in every TU of the verification build: Eigen's internal assertions
// (dimension mismatches, out-of-range coefficients) become C++ exceptions, so that a case which
// trips one is an ordinary, shrinkable, replayable failure instead of a SIGABRT.
#pragma once
#ifdef __cplusplus
#include <stdexcept>
#define eigen_assert(x) \
  do { if (!(x)) throw std::runtime_error("Eigen assertion failed: " #x); } while (0)
#endif
