// Kriging case generator, world builder and dense kriging oracle shared by the kriging harnesses
// (C01, C02; meant to be reused by C04/C05).  namespace vfkrig.  DESIGN.md §3 and §5 C01.
//
//  * KCase / genCase(GenOpt)   : plain-data description of one kriging problem (data, NA pattern, selection,
//                                measurement-error variances, external drifts, model, drift order / means,
//                                neighbourhood, point or block targets).  Data locations are pairwise distinct
//                                by construction (vfgeo::genPointSets); targets may sit exactly on data.
//  * World / buildWorld        : the gstlearn objects of a case (Db, Db or DbGrid, Model, ANeigh).
//  * Oracle                    : assembles Sigma, X, Sigma0, X0, sigma00 from Model::eval (plain bi-point
//                                evaluation on the harness's own, never pre-processed, Model) and the harness's
//                                own drift monomials over exactly the neighbourhood samples, solves in long
//                                double with Eigen full-pivot LU, gives kappa_2 of the system (SVD).
//                                Layout = the library's (learnt from KrigingSystem.cpp, confirmed by probe):
//                                unknowns variable-major over the neighbourhood samples in neighbourhood order,
//                                undefined (sample,variable) pairs removed; drift equations after them,
//                                variable-major (ib = ivar * nbfl + il); system [S X; X' 0][l; m] = [S0; X0]
//                                (the library's Lagrange part m is minus the mu of doc/references/Kriging.md).
//  * refNeigh                  : neighbourhood of a target by the definition of C06 (vfgeo::refMovingNeigh).
//  * runKriging / getKrigtest  : calls of the API under test and extraction of its outputs.
#pragma once
#include "verif.hpp"
#include "geo_common.hpp"

#include "Db/Db.hpp"
#include "Db/DbGrid.hpp"
#include "Model/Model.hpp"
#include "Neigh/ANeigh.hpp"
#include "Neigh/NeighUnique.hpp"
#include "Neigh/NeighMoving.hpp"
#include "Neigh/NeighBench.hpp"
#include "Estimation/CalcKriging.hpp"
#include "Covariances/CovFactory.hpp"
#include "Covariances/ACovFunc.hpp"
#include "Covariances/CovContext.hpp"
#include "Space/ASpaceObject.hpp"
#include "Space/SpacePoint.hpp"
#include "Basic/OptDbg.hpp"
#include "Basic/OptCst.hpp"
#include "Basic/Law.hpp"
#include "Basic/NamingConvention.hpp"
#include "Enum/ECov.hpp"
#include "Enum/EKrigOpt.hpp"
#include "Enum/ELoc.hpp"
#include "Enum/ELoadBy.hpp"
#include "Enum/ESpaceType.hpp"
#include "geoslib_define.h"

#include <Eigen/Dense>
#include <memory>
#include <algorithm>
#include <cmath>

namespace vfkrig {
using vf::Ctx;
using vf::fmt;
using vfgeo::Points;
namespace G = vf::G;
typedef long double LD;
typedef Eigen::Matrix<LD, Eigen::Dynamic, Eigen::Dynamic> MatL;
constexpr double NA = 1.234e30; // TEST
inline bool isNA(double v) { return !(v < 1e29) || std::isnan(v); }
constexpr double kEps = 2.220446049250313e-16;
constexpr double kKappaMax = 1e10;

// ECov values used by the generator (include/Enum/ECov.hpp).  Only structures whose validity in R^1..R^3 is
// established in the literature: PENTA, BESSELJ (small nu), COSEXP (small parameter) and the 1-D only
// structures are deliberately absent (known non positive definite: DESIGN §6 #6-8).
enum
{
  T_NUGGET = 0, T_EXPONENTIAL = 1, T_SPHERICAL = 2, T_GAUSSIAN = 3, T_CUBIC = 4, T_SINCARD = 5, T_MATERN = 7,
  T_GAMMA = 8, T_CAUCHY = 9, T_STABLE = 10, T_LINEAR = 11, T_POWER = 12, T_ORDER1_GC = 13, T_SPLINE_GC = 14,
  T_ORDER3_GC = 15, T_WENDLAND1 = 25
};
inline int minOrderOf(int t)
{
  switch (t)
  {
    case T_LINEAR: case T_POWER: case T_ORDER1_GC: return 0;
    case T_SPLINE_GC: case T_ORDER3_GC: return 1;
    default: return -1;
  }
}
inline const char* typeName(int t)
{
  switch (t)
  {
    case T_NUGGET: return "NUGGET"; case T_EXPONENTIAL: return "EXPONENTIAL"; case T_SPHERICAL: return "SPHERICAL";
    case T_GAUSSIAN: return "GAUSSIAN"; case T_CUBIC: return "CUBIC"; case T_SINCARD: return "SINCARD";
    case T_MATERN: return "MATERN"; case T_GAMMA: return "GAMMA"; case T_CAUCHY: return "CAUCHY";
    case T_STABLE: return "STABLE"; case T_LINEAR: return "LINEAR"; case T_POWER: return "POWER";
    case T_ORDER1_GC: return "ORDER1_GC"; case T_SPLINE_GC: return "SPLINE_GC"; case T_ORDER3_GC: return "ORDER3_GC";
    case T_WENDLAND1: return "WENDLAND1"; default: return "?";
  }
}

// ------------------------------------------------------------------ case ----------------
struct StructC
{
  int type = T_EXPONENTIAL;
  double param = 1.;
  std::vector<double> len;   // ndim ranges (scale for the structures without a range)
  std::vector<double> ang;   // ndim angles (degrees; empty in 1-D)
  std::vector<double> sill;  // nvar*nvar, row-major, symmetric positive semi-definite by construction
  template<class A> void io(A& a) { a("type", type)("param", param)("len", len)("ang", ang)("sill", sill); }
};

struct KCase
{
  int ndim = 2, nvar = 1;
  double L = 1.;
  Points data;                 // n pairwise distinct locations
  std::vector<double> z;       // n*nvar (z[i*nvar+v]); NA = undefined
  std::vector<int> sel;        // empty, or n flags (0 = masked sample)
  std::vector<double> verr;    // empty, or n*nvar measurement-error variances (NA / <=0: none)
  int nfex = 0;
  std::vector<double> fdat;    // n*nfex external drift at the data
  int order = 0;               // -1: known means (simple kriging); 0,1,2: drift order (unknown mean/drift)
  std::vector<double> means;   // nvar (used when order < 0)
  std::vector<StructC> st;
  // neighbourhood
  int moving = 0;
  int nmaxi = 1000, nmini = 1, nsect = 1, nsmax = 0, hasRadius = 0;
  double radius = 1.;
  std::vector<double> ncoef, nang;
  // targets
  int block = 0;               // 0: point targets (Db); 1: blocks = cells of a DbGrid
  Points targ;                 // point targets
  std::vector<double> ftar;    // ntarg*nfex external drift at the targets
  std::vector<int> gnx;        // grid (block == 1)
  std::vector<double> gdx, gx0, gang;
  std::vector<int> ndisc;
  int flagVarz = 0;

  int n() const { return data.n(); }
  int ntarg() const
  {
    if (!block) return targ.n();
    int p = 1;
    for (int v : gnx) p *= v;
    return p;
  }
  bool zdef(int i, int v) const { return !isNA(z[(size_t)(i * nvar + v)]); }
  bool active(int i) const { return sel.empty() || sel[(size_t)i] != 0; }
  // external drifts all defined at datum i (a datum without them cannot enter the system: KrigingSystem::_flagDefine)
  bool fdef(int i) const
  {
    for (int f = 0; f < nfex; f++)
      if (isNA(fdat[(size_t)(i * nfex + f)])) return false;
    return true;
  }
  bool ftdef(int k) const
  {
    for (int f = 0; f < nfex; f++)
      if (isNA(ftar[(size_t)(k * nfex + f)])) return false;
    return true;
  }
  bool anyDef(int i) const
  {
    for (int v = 0; v < nvar; v++)
      if (zdef(i, v)) return true;
    return false;
  }
  bool heterotopic() const
  {
    for (int i = 0; i < n(); i++)
      if (active(i) && anyDef(i))
      {
        if (!fdef(i)) return true;
        for (int v = 0; v < nvar; v++)
          if (!zdef(i, v)) return true;
      }
    return false;
  }
  bool stationary() const
  {
    for (auto& s : st)
      if (minOrderOf(s.type) >= 0) return false;
    return true;
  }
  bool rotatedAniso() const
  {
    for (auto& s : st)
    {
      bool an = false, rot = false;
      for (size_t i = 1; i < s.len.size(); i++) an = an || s.len[i] != s.len[0];
      for (double a : s.ang) rot = rot || std::fmod(std::fabs(a), 90.) != 0.;
      if (an && rot) return true;
    }
    return false;
  }
  bool gridRotated() const
  {
    for (double a : gang)
      if (a != 0.) return true;
    return false;
  }
  const char* family() const { return order < 0 ? "SK" : (nfex > 0 ? "ED" : (order == 0 ? "OK" : "UK")); }
  // failure key: <what>:<family>:<neighbourhood>:<target>; everything observed on blocks of a rotated grid is
  // prefixed "block-rotgrid:" (recorded finding: the block discretisation ignores the grid rotation)
  std::string key(const std::string& what) const { return ((block && gridRotated()) ? "block-rotgrid:" : "") + what + ":" + variant(); }
  std::string variant() const
  {
    return std::string(family()) + ":" + (moving == 2 ? "bench" : moving ? "moving" : "unique") + ":" + (block ? "block" : "point");
  }
  template<class A> void io(A& a)
  {
    a("ndim", ndim)("nvar", nvar)("L", L)("data", data)("z", z)("sel", sel)("verr", verr)("nfex", nfex)("fdat", fdat)(
      "order", order)("means", means)("st", st)("moving", moving)("nmaxi", nmaxi)("nmini", nmini)("nsect", nsect)(
      "nsmax", nsmax)("hasRadius", hasRadius)("radius", radius)("ncoef", ncoef)("nang", nang)("block", block)(
      "targ", targ)("ftar", ftar)("gnx", gnx)("gdx", gdx)("gx0", gx0)("gang", gang)("ndisc", ndisc)("flagVarz", flagVarz);
  }
};

// ------------------------------------------------------------------ generator -----------
struct GenOpt
{
  int family = -1;       // -1: any; 0: SK; 1: OK; 2: UK (order 1-2); 3: external drift
  int nvarMin = 1, nvarMax = 3;
  int heteroPct = 35;    // probability of an NA pattern
  int movingPct = 40;
  int blockMode = 0;     // 0: points; 1: blocks of an unrotated grid; 2: blocks of a rotated grid
  int verrPct = 20;
  int intrinsicPct = 25; // probability of allowing intrinsic structures (unknown mean only)
  int onDataPct = 15;    // probability for each target to sit on a datum (point targets)
  int selPct = 10;
  int sectorPct = 50;    // moving neighbourhood: probability of angular sectors (ndim >= 2)
  int nMax = 40;
  int farPct = 10;       // targets far outside the data hull
  int naFdataPct = 20;   // external drift family: probability of undefined external-drift values at some data
  int naFtargPct = 0;    // external drift family: probability (per target) of an undefined external drift at the target
};

inline int monoCount(int ndim, int order)
{
  if (order < 0) return 0;
  if (order == 0) return 1;
  if (order == 1) return 1 + ndim;
  return 1 + ndim + ndim * (ndim + 1) / 2;
}

inline StructC genStruct(int ndim, int nvar, double L, int type, bool fullRank)
{
  StructC s;
  s.type = type;
  switch (type)
  {
    case T_MATERN: s.param = G::pct(30) ? G::pick<double>({0.5, 1., 1.5, 2.5}) : G::lu(0.3, 3.); break;
    case T_GAMMA: case T_CAUCHY: s.param = G::lu(0.3, 5.); break;
    case T_STABLE: s.param = G::u(0.3, 2.); break;
    case T_POWER: s.param = G::u(0.2, 1.8); break;
    default: s.param = 1.;
  }
  double len0 = L * G::lu(0.05, 2.);
  bool iso = G::pct(35);
  for (int d = 0; d < ndim; d++) s.len.push_back((d == 0 || iso) ? len0 : len0 * G::lu(0.2, 5.));
  if (ndim >= 2)
  {
    bool rot = !iso && !G::pct(25);
    for (int d = 0; d < ndim; d++)
      s.ang.push_back((!rot || (ndim == 2 && d > 0)) ? 0. : (G::pct(25) ? G::pick<double>({0., 90., 180., 45., -30., 270.}) : G::r(-180, 360, 2)));
  }
  // sill = A A' + eps I
  std::vector<double> A((size_t)(nvar * nvar));
  for (auto& v : A) v = G::r(-2, 2, 4);
  double eps = fullRank ? G::pick<double>({0.1, 1.}) : G::pick<double>({0., 0.1, 1.});
  int rank = fullRank ? nvar : G::i(1, nvar);
  s.sill.assign((size_t)(nvar * nvar), 0.);
  for (int i = 0; i < nvar; i++)
    for (int j = 0; j < nvar; j++)
    {
      double v = 0;
      for (int r = 0; r < rank; r++) v += A[(size_t)(i * nvar + r)] * A[(size_t)(j * nvar + r)];
      s.sill[(size_t)(i * nvar + j)] = v + (i == j ? eps : 0.);
    }
  // no null diagonal term (a structure which does not concern a variable is fine mathematically, but
  // the library refuses null sills for some constructions): keep variances positive
  for (int i = 0; i < nvar; i++)
    if (s.sill[(size_t)(i * nvar + i)] <= 0)
    {
      for (int j = 0; j < nvar; j++) s.sill[(size_t)(i * nvar + j)] = s.sill[(size_t)(j * nvar + i)] = 0.;
      s.sill[(size_t)(i * nvar + i)] = 0.5;
    }
  return s;
}

inline KCase genCase(const GenOpt& o)
{
  KCase c;
  c.ndim = G::pick<int>({1, 2, 2, 2, 3, 3});
  c.nvar = G::pick<int>({1, 1, 1, 2, 2, 3});
  c.nvar = std::max(o.nvarMin, std::min(o.nvarMax, c.nvar));
  int fam = (o.family >= 0) ? o.family : G::pick<int>({0, 1, 1, 2, 2, 3});
  c.nfex = 0;
  switch (fam)
  {
    case 0: c.order = -1; break;
    case 1: c.order = 0; break;
    case 2: c.order = G::pick<int>({1, 1, 2}); break;
    default: c.order = G::pick<int>({0, 0, 1}); c.nfex = G::pick<int>({1, 1, 2}); break;
  }
  if (o.blockMode != 0 && c.order > 1) c.order = 1; // the drift of a block is taken at its centre: exact up to order 1 only
  if (o.blockMode == 2 && c.ndim == 1) c.ndim = 2;
  int nbfl = monoCount(c.ndim, c.order) + c.nfex;
  if (nbfl >= 8 && c.nvar > 2) c.nvar = 2; // keep the number of universality equations moderate

  // sizes
  int nmax = std::max(std::max(2, o.nMax / c.nvar), nbfl + 4);
  int n = G::sz(1, nmax);
  if (G::pct(90)) n = std::min(nmax, std::max(n, nbfl + 1 + G::i(0, 3)));
  int nt = G::sz(1, 6);

  // geometry
  // the library does not centre the coordinates in the drift monomials: large coordinates with a drift of
  // order >= 1 give systems with kappa > 1e10 (inconclusive by the property's own clause); they are generated,
  // but not most of the time
  c.L = (c.order == 2) ? G::pick<double>({1., 1., 1., 100.}) : (c.order == 1 ? G::pick<double>({1., 1., 1., 100., 100., 1e4}) : G::pick<double>({1., 1., 100., 100., 1e4}));
  vfgeo::Lattice lat;
  std::vector<Points> sets = vfgeo::genPointSets(c.ndim, {n, o.blockMode ? 0 : nt}, G::pct(30), true, c.L, &lat);
  std::vector<double> org((size_t)c.ndim);
  for (int d = 0; d < c.ndim; d++)
    org[(size_t)d] = (c.order == 2) ? G::pick<double>({0., 0., -0.5, 0.25, -1., 3.}) * c.L
                     : (c.order == 1) ? G::pick<double>({0., 0., -0.5 * c.L, -3.25, 0.5, 250.5})
                                      : G::pick<double>({0., 0., -1e4, 1e4, 250.5, -3.25});
  for (auto& P : sets)
    for (int i = 0; i < P.n(); i++)
      for (int d = 0; d < c.ndim; d++) P.c[(size_t)(i * c.ndim + d)] += org[(size_t)d] - lat.origin[(size_t)d];
  c.data = sets[0];

  // values, NA pattern, selection, measurement error, external drift
  double zoff = G::pick<double>({0., 0., 10., -100.});
  c.z.resize((size_t)(n * c.nvar));
  for (auto& v : c.z) v = zoff + G::r(-40, 40, 8);
  if (c.nvar > 1 && G::pct(o.heteroPct))
  {
    int p = (nbfl >= 3) ? G::pick<int>({10, 20, 40}) : G::pick<int>({20, 50, 70});
    for (int i = 0; i < n; i++)
      for (int v = 0; v < c.nvar; v++)
        if (G::pct(p)) c.z[(size_t)(i * c.nvar + v)] = NA;
    // every variable keeps one defined value at least (else its universality equations cannot be met)
    for (int v = 0; v < c.nvar; v++)
    {
      bool any = false;
      for (int i = 0; i < n; i++) any = any || c.zdef(i, v);
      if (!any) c.z[(size_t)(G::i(0, n - 1) * c.nvar + v)] = zoff + G::r(-40, 40, 8);
    }
  }
  else if (c.nvar == 1 && G::pct(o.heteroPct / 2))
  {
    for (int i = 1; i < n; i++)
      if (G::pct(20)) c.z[(size_t)i] = NA; // wholly undefined samples: dropped by the neighbourhood search
  }
  if (n > 1 && G::pct(o.selPct))
  {
    c.sel.assign((size_t)n, 1);
    for (int i = 1; i < n; i++)
      if (G::pct(25)) c.sel[(size_t)i] = 0;
  }
  if (G::pct(o.verrPct))
  {
    c.verr.resize((size_t)(n * c.nvar));
    for (auto& v : c.verr)
    {
      int r = G::i(0, 9);
      v = (r < 2) ? 0. : (r < 3 ? NA : G::lu(0.01, 4.));
    }
  }
  if (c.nfex > 0)
  {
    c.fdat.resize((size_t)(n * c.nfex));
    for (auto& v : c.fdat) v = G::r(-5, 5, 16);
    if (n > nbfl + 2 && G::pct(o.naFdataPct))
      for (int i = 1; i < n; i++)
        if (G::pct(15)) c.fdat[(size_t)(i * c.nfex + G::i(0, c.nfex - 1))] = NA;
  }
  if (c.order < 0)
    for (int v = 0; v < c.nvar; v++) c.means.push_back(G::pct(30) ? 0. : zoff + G::r(-20, 20, 4));

  // model
  {
    bool intr = c.order >= 0 && G::pct(o.intrinsicPct);
    std::vector<int> types = {T_EXPONENTIAL, T_EXPONENTIAL, T_SPHERICAL, T_SPHERICAL, T_CUBIC, T_MATERN, T_MATERN,
                              T_GAMMA, T_CAUCHY, T_STABLE, T_GAUSSIAN, T_WENDLAND1, T_SINCARD};
    std::vector<int> itypes;
    if (intr)
    {
      itypes = {T_LINEAR, T_ORDER1_GC, T_POWER};
      if (c.order >= 1) { itypes.push_back(T_ORDER3_GC); itypes.push_back(T_SPLINE_GC); }
    }
    int nst = G::pick<int>({1, 1, 2, 2, 3});
    for (int k = 0; k < nst; k++)
    {
      int t = (intr && (k == 0 || G::pct(40))) ? G::pickv(itypes) : G::pickv(types);
      c.st.push_back(genStruct(c.ndim, c.nvar, c.L, t, k == 0));
    }
    if (G::pct(35))
    {
      StructC s = genStruct(c.ndim, c.nvar, c.L, T_NUGGET, false);
      double f = G::pick<double>({0.01, 0.1, 1.});
      for (auto& v : s.sill) v *= f;
      c.st.push_back(s);
    }
  }
  c.flagVarz = c.stationary() ? 1 : 0;

  // neighbourhood
  c.moving = G::pct(o.movingPct) ? 1 : 0;
  if (c.moving)
  {
    c.nmaxi = G::pct(70) ? G::i(1, 12) : 1000;
    if (G::pct(85)) c.nmaxi = std::max(c.nmaxi, nbfl + G::i(1, 4));
    c.nmini = G::pick<int>({1, 1, 1, 2, 3});
    if (c.ndim >= 2 && G::pct(o.sectorPct))
    {
      c.nsect = G::pick<int>({2, 4, 4, 8, 3});
      c.nsmax = G::pct(50) ? G::i(1, 3) + (G::pct(70) ? nbfl / c.nsect : 0) : 0;
    }
    c.hasRadius = G::pct(nbfl >= 3 ? 50 : 75) ? 1 : 0;
    c.radius = c.L * (nbfl >= 3 ? G::lu(0.4, 2.) : G::lu(0.15, 1.5));
    bool iso = G::pct(50);
    // coefficients are always given: without them the library's distance checker is 2-D whatever the space
    // (finding of C06), which is not the object of this property
    for (int d = 0; d < c.ndim; d++) c.ncoef.push_back(iso ? 1. : G::lu(0.25, 4.));
    if (c.ndim >= 2 && G::pct(50))
    {
      int na = (c.ndim == 2) ? 1 : 3;
      for (int k = 0; k < na; k++) c.nang.push_back(G::pct(30) ? G::pick<double>({0., 30., 45., 90., 180., -60.}) : G::r(-180, 360, 2));
    }
  }

  // targets
  if (o.blockMode == 0)
  {
    c.block = 0;
    c.targ = sets[1];
    for (int k = 0; k < nt; k++)
    {
      if (G::pct(o.onDataPct))
      {
        int j = G::i(0, n - 1);
        for (int d = 0; d < c.ndim; d++) c.targ.c[(size_t)(k * c.ndim + d)] = c.data.at(j, d);
      }
      else if (G::pct(o.farPct))
      {
        for (int d = 0; d < c.ndim; d++)
        {
          double ctr = org[(size_t)d] + 0.5 * c.L;
          c.targ.c[(size_t)(k * c.ndim + d)] = ctr + 3. * (c.targ.at(k, d) - ctr);
        }
      }
    }
  }
  else
  {
    c.block = 1;
    // small grid laid over the data box: at most 6 cells
    int left = 6;
    for (int d = 0; d < c.ndim; d++)
    {
      int nx = G::i(1, std::min(3, left));
      left = std::max(1, left / nx);
      c.gnx.push_back(nx);
      c.gdx.push_back(c.L * G::lu(0.05, 0.6));
      c.gx0.push_back(org[(size_t)d] + c.L * G::u(0., 0.7));
      c.ndisc.push_back(G::i(1, 4));
    }
    if (o.blockMode == 2)
    {
      int na = (c.ndim == 2) ? 1 : 3;
      c.gang.assign((size_t)c.ndim, 0.);
      for (int k = 0; k < na && k < c.ndim; k++) c.gang[(size_t)k] = G::pct(30) ? G::pick<double>({30., 45., 60., -20.}) : G::r(-170, 170, 2);
      if (c.gang[0] == 0.) c.gang[0] = 30.;
    }
  }
  if (c.nfex > 0)
  {
    c.ftar.resize((size_t)(c.ntarg() * c.nfex));
    for (auto& v : c.ftar) v = G::r(-5, 5, 16);
    // a target sitting on a datum carries the datum's external drift (it is one function of space)
    if (!c.block)
      for (int k = 0; k < c.ntarg(); k++)
        for (int i = 0; i < n; i++)
        {
          bool same = true;
          for (int d = 0; d < c.ndim; d++) same = same && c.targ.at(k, d) == c.data.at(i, d);
          if (same && c.fdef(i))
            for (int f = 0; f < c.nfex; f++) c.ftar[(size_t)(k * c.nfex + f)] = c.fdat[(size_t)(i * c.nfex + f)];
        }
    for (int k = 0; k < c.ntarg(); k++)
      if (G::pct(o.naFtargPct)) c.ftar[(size_t)(k * c.nfex + G::i(0, c.nfex - 1))] = NA;
  }
  return c;
}

// ------------------------------------------------------------------ world ---------------
struct World
{
  std::unique_ptr<Db> dbin;
  std::unique_ptr<Db> dbout; // Db or DbGrid
  std::unique_ptr<Model> model;
  std::unique_ptr<ANeigh> neigh;
  DbGrid* grid() const { return dynamic_cast<DbGrid*>(dbout.get()); }
};

inline VectorDouble colOf(const Points& P, int d)
{
  VectorDouble v((size_t)P.n());
  for (int i = 0; i < P.n(); i++) v[i] = P.at(i, d);
  return v;
}

inline void resetGlobals(int ndim)
{
  defineDefaultSpace(ESpaceType::RN, (unsigned)ndim);
  OptDbg::reset();
  law_set_random_seed(132421);
}

inline std::unique_ptr<Model> buildModel(const KCase& c, Ctx& ctx)
{
  ctx.at("Model");
  std::unique_ptr<Model> m(new Model(c.nvar, c.ndim));
  for (auto& s : c.st)
  {
    VectorDouble lens, angles, sills;
    for (double v : s.len) lens.push_back(v);
    for (double v : s.ang) angles.push_back(v);
    for (double v : s.sill) sills.push_back(v);
    int before = m->getCovaNumber();
    ctx.at(std::string("addCov:") + typeName(s.type));
    if (s.type == T_NUGGET)
      m->addCovFromParam(ECov::fromValue(s.type), 0., 0., 1., VectorDouble(), sills, VectorDouble(), true);
    else
      m->addCovFromParam(ECov::fromValue(s.type), 0., 0., s.param, lens, sills, angles, true);
    if (m->getCovaNumber() != before + 1)
    {
      ctx.fail(std::string("harness:addCov:") + typeName(s.type), "structure could not be added to the Model");
      return nullptr;
    }
  }
  if (c.order < 0)
  {
    VectorDouble mm;
    for (double v : c.means) mm.push_back(v);
    m->setMeans(mm);
  }
  else
    m->setDriftIRF(c.order, c.nfex);
  return m;
}

inline bool buildWorld(const KCase& c, World& w, Ctx& ctx)
{
  resetGlobals(c.ndim);
  int n = c.n();
  ctx.at("Db");
  w.dbin.reset(Db::create());
  for (int d = 0; d < c.ndim; d++) w.dbin->addColumns(colOf(c.data, d), "x" + std::to_string(d + 1), ELoc::X, d);
  for (int v = 0; v < c.nvar; v++)
  {
    VectorDouble zz((size_t)n);
    for (int i = 0; i < n; i++) zz[i] = c.z[(size_t)(i * c.nvar + v)];
    w.dbin->addColumns(zz, "z" + std::to_string(v + 1), ELoc::Z, v);
  }
  if (!c.verr.empty())
    for (int v = 0; v < c.nvar; v++)
    {
      VectorDouble e((size_t)n);
      for (int i = 0; i < n; i++) e[i] = c.verr[(size_t)(i * c.nvar + v)];
      w.dbin->addColumns(e, "v" + std::to_string(v + 1), ELoc::V, v);
    }
  for (int f = 0; f < c.nfex; f++)
  {
    VectorDouble e((size_t)n);
    for (int i = 0; i < n; i++) e[i] = c.fdat[(size_t)(i * c.nfex + f)];
    w.dbin->addColumns(e, "f" + std::to_string(f + 1), ELoc::F, f);
  }
  if (!c.sel.empty())
  {
    VectorDouble e((size_t)n);
    for (int i = 0; i < n; i++) e[i] = (double)c.sel[(size_t)i];
    w.dbin->addColumns(e, "sel", ELoc::SEL, 0);
  }
  int nt = c.ntarg();
  if (!c.block)
  {
    w.dbout.reset(Db::create());
    for (int d = 0; d < c.ndim; d++) w.dbout->addColumns(colOf(c.targ, d), "x" + std::to_string(d + 1), ELoc::X, d);
  }
  else
  {
    VectorInt nx;
    VectorDouble dx, x0, ang;
    for (int v : c.gnx) nx.push_back(v);
    for (double v : c.gdx) dx.push_back(v);
    for (double v : c.gx0) x0.push_back(v);
    for (double v : c.gang) ang.push_back(v);
    w.dbout.reset(DbGrid::create(nx, dx, x0, ang));
  }
  if (w.dbout == nullptr || w.dbout->getSampleNumber() != nt || w.dbin->getSampleNumber() != n || w.dbin->getNDim() != c.ndim ||
      w.dbout->getNDim() != c.ndim)
  {
    ctx.fail("harness:db", "Db construction does not give the expected sizes");
    return false;
  }
  for (int f = 0; f < c.nfex; f++)
  {
    VectorDouble e((size_t)nt);
    for (int k = 0; k < nt; k++) e[k] = c.ftar[(size_t)(k * c.nfex + f)];
    w.dbout->addColumns(e, "f" + std::to_string(f + 1), ELoc::F, f);
  }
  w.model = buildModel(c, ctx);
  if (!w.model) return false;
  ctx.at("Neigh");
  if (!c.moving)
    w.neigh.reset(NeighUnique::create());
  else if (c.moving == 2)
    w.neigh.reset(NeighBench::create(false, c.radius)); // bench along the last coordinate, half-width = radius
  else
  {
    VectorDouble coeffs, angles;
    for (double v : c.ncoef) coeffs.push_back(v);
    for (double v : c.nang) angles.push_back(v);
    w.neigh.reset(NeighMoving::create(false, c.nmaxi, c.hasRadius ? c.radius : TEST, c.nmini, c.nsect,
                                      c.nsmax > 0 ? c.nsmax : ITEST, coeffs, angles));
  }
  return w.neigh != nullptr;
}

// ------------------------------------------------------------------ drift functions -----
// monomials in the order of DriftFactory::createDriftListFromIRF (1; x, x2; y, xy, y2; z, xz, yz, z2)
inline std::vector<std::vector<int>> monomials(int ndim, int order)
{
  std::vector<std::vector<int>> m;
  if (order < 0) return m;
  auto P = [&](int a, int b, int cc) {
    std::vector<int> p = {a, b, cc};
    p.resize((size_t)ndim);
    return p;
  };
  m.push_back(P(0, 0, 0));
  if (order == 1)
  {
    if (ndim >= 1) m.push_back(P(1, 0, 0));
    if (ndim >= 2) m.push_back(P(0, 1, 0));
    if (ndim >= 3) m.push_back(P(0, 0, 1));
  }
  else if (order == 2)
  {
    if (ndim >= 1) { m.push_back(P(1, 0, 0)); m.push_back(P(2, 0, 0)); }
    if (ndim >= 2) { m.push_back(P(0, 1, 0)); m.push_back(P(1, 1, 0)); m.push_back(P(0, 2, 0)); }
    if (ndim >= 3) { m.push_back(P(0, 0, 1)); m.push_back(P(1, 0, 1)); m.push_back(P(0, 1, 1)); m.push_back(P(0, 0, 2)); }
  }
  return m;
}
inline LD monoVal(const std::vector<int>& p, const double* x)
{
  LD v = 1;
  for (size_t d = 0; d < p.size(); d++)
    for (int k = 0; k < p[d]; k++) v *= (LD)x[d];
  return v;
}

// ------------------------------------------------------------------ oracle --------------
struct TargetGeom
{
  std::vector<double> x0;                       // centre / point
  std::vector<std::vector<double>> disc1, disc2; // block: offsets (regular / randomised); empty for points
};

struct Sys
{
  std::vector<int> nb;                       // neighbourhood (sample ranks) in the order used for the unknowns
  std::vector<std::pair<int, int>> unk;      // (sample, variable) of each covariance unknown
  int nu = 0, nbfl = 0, nfeq = 0, N = 0;
  MatL A, B, C00, sol, zext, zam;
  double kappa = 0.;
  double sminInv = 0.;     // 1 / smallest singular value of A  (= ||A^-1||_2)
  double covScale = 0.;    // largest |covariance| entry of A
  bool solved = false;
  std::vector<LD> estim, var, varz, scaleE, scaleV; // per target variable
  LD normA = 0;
};

class Oracle
{
public:
  const KCase& c;
  Model* model;
  std::vector<SpacePoint> pd;            // data points
  std::vector<double> covDD;             // (i,j,v,w) covariance table between data, filled lazily
  std::vector<char> covDone;
  std::vector<std::vector<int>> mono;
  int nbfl = 0;

  Oracle(const KCase& cc, Model* m) : c(cc), model(m)
  {
    int n = c.n();
    for (int i = 0; i < n; i++)
    {
      VectorDouble x((size_t)c.ndim);
      for (int d = 0; d < c.ndim; d++) x[d] = c.data.at(i, d);
      pd.emplace_back(x);
    }
    covDD.assign((size_t)n * (size_t)n * (size_t)(c.nvar * c.nvar), 0.);
    covDone.assign((size_t)n * (size_t)n, 0);
    mono = monomials(c.ndim, c.order);
    nbfl = (int)mono.size() + c.nfex;
  }
  // field extension the library gives to its private copy of the model (KrigingSystem::_isCorrect):
  // diagonal of the bounding box of the ACTIVE data and target coordinates.  Only the intrinsic structures use it
  // (their generalised covariance is shifted by an even polynomial which authorised combinations filter).
  static double fieldOf(const KCase& c, const Db* dbout)
  {
    double diag = 0;
    for (int d = 0; d < c.ndim; d++)
    {
      double lo = 1e300, hi = -1e300;
      // (active samples only, on both sides: a masked sample does not extend the field — repaired in f869cc76e)
      for (int i = 0; i < c.n(); i++) { if (!c.active(i)) continue; lo = std::min(lo, c.data.at(i, d)); hi = std::max(hi, c.data.at(i, d)); }
      for (int k = 0; k < dbout->getSampleNumber(); k++)
      {
        if (!dbout->isActive(k)) continue;
        double v = dbout->getCoordinate(k, d);
        lo = std::min(lo, v);
        hi = std::max(hi, v);
      }
      diag += (hi - lo) * (hi - lo);
    }
    return std::sqrt(diag);
  }
  double cdd(int i, int j, int v, int w)
  {
    size_t n = (size_t)c.n(), nv2 = (size_t)(c.nvar * c.nvar);
    size_t base = ((size_t)i * n + (size_t)j);
    if (!covDone[base])
    {
      for (int a = 0; a < c.nvar; a++)
        for (int b = 0; b < c.nvar; b++) covDD[base * nv2 + (size_t)(a * c.nvar + b)] = model->eval(pd[(size_t)i], pd[(size_t)j], a, b);
      covDone[base] = 1;
    }
    return covDD[base * nv2 + (size_t)(v * c.nvar + w)];
  }
  LD driftAtData(int i, int l) const
  {
    if (l < (int)mono.size()) return monoVal(mono[(size_t)l], c.data.p(i));
    return (LD)c.fdat[(size_t)(i * c.nfex + (l - (int)mono.size()))];
  }
  LD driftAtTarget(int k, const TargetGeom& g, int l) const
  {
    if (l < (int)mono.size()) return monoVal(mono[(size_t)l], g.x0.data());
    return (LD)c.ftar[(size_t)(k * c.nfex + (l - (int)mono.size()))];
  }

  // geometry of target k (block discretisation: regular offsets built here, rotated with the grid when
  // `rotateWithGrid`; randomised second set = DbGrid::getDiscretizedBlock(seed 1234546), the documented design)
  TargetGeom geom(int k, const World& w, bool rotateWithGrid) const
  {
    TargetGeom g;
    g.x0.resize((size_t)c.ndim);
    if (!c.block)
    {
      for (int d = 0; d < c.ndim; d++) g.x0[(size_t)d] = c.targ.at(k, d);
      return g;
    }
    const DbGrid* grid = w.grid();
    for (int d = 0; d < c.ndim; d++) g.x0[(size_t)d] = grid->getCoordinate(k, d);
    int ntot = 1;
    for (int v : c.ndisc) ntot *= v;
    // randomised set: same draws as the library (its generator, seed 1234546, one uniform per point and per
    // dimension, last dimension first), but laid out here so that the oracle does not depend on
    // DbGrid::getDiscretizedBlock
    int memo = law_get_random_seed();
    law_set_random_seed(1234546);
    std::vector<double> U = vfgeo::rotationAxes(c.ndim, c.gang);
    for (int i = 0; i < ntot; i++)
    {
      std::vector<double> loc((size_t)c.ndim), rnd((size_t)c.ndim);
      int jech = i, nval = ntot;
      for (int d = c.ndim - 1; d >= 0; d--)
      {
        int ndd = c.ndisc[(size_t)d];
        nval /= ndd;
        int j = jech / nval;
        jech -= j * nval;
        loc[(size_t)d] = c.gdx[(size_t)d] * ((j + 0.5) / ndd - 0.5);
        rnd[(size_t)d] = loc[(size_t)d] + c.gdx[(size_t)d] * law_uniform(-0.5, 0.5) / (double)ndd;
      }
      if (rotateWithGrid && c.gridRotated())
      {
        std::vector<double> a((size_t)c.ndim, 0.), b((size_t)c.ndim, 0.);
        for (int d = 0; d < c.ndim; d++)
          for (int e = 0; e < c.ndim; e++)
          {
            a[(size_t)e] += loc[(size_t)d] * U[(size_t)(d * c.ndim + e)];
            b[(size_t)e] += rnd[(size_t)d] * U[(size_t)(d * c.ndim + e)];
          }
        loc = a;
        rnd = b;
      }
      g.disc1.push_back(loc);
      g.disc2.push_back(rnd);
    }
    law_set_random_seed(memo);
    return g;
  }

  // list of unknowns over the neighbourhood nb (in that order)
  void layout(const std::vector<int>& nb, Sys& S) const
  {
    S.nb = nb;
    S.unk.clear();
    for (int v = 0; v < c.nvar; v++)
      for (int i : nb)
        if (c.zdef(i, v) && c.fdef(i)) S.unk.push_back({i, v});
    S.nu = (int)S.unk.size();
    S.nbfl = nbfl;
    S.nfeq = (c.order >= 0) ? c.nvar * nbfl : 0;
    S.N = S.nu + S.nfeq;
  }

  // assemble the system of target k over the neighbourhood nb and solve it
  void solve(int k, const TargetGeom& g, const std::vector<int>& nb, Sys& S)
  {
    layout(nb, S);
    int nu = S.nu, N = S.N, nv = c.nvar;
    S.A = MatL::Zero(N, N);
    S.B = MatL::Zero(N, nv);
    S.C00 = MatL::Zero(nv, nv);
    S.zext = MatL::Zero(N, 1);
    for (int a = 0; a < nu; a++)
    {
      for (int b = 0; b < nu; b++) S.A(a, b) = (LD)cdd(S.unk[(size_t)a].first, S.unk[(size_t)b].first, S.unk[(size_t)a].second, S.unk[(size_t)b].second);
      if (!c.verr.empty())
      {
        double e = c.verr[(size_t)(S.unk[(size_t)a].first * nv + S.unk[(size_t)a].second)];
        if (!isNA(e) && e > 0) S.A(a, a) += (LD)e;
      }
      int i = S.unk[(size_t)a].first, v = S.unk[(size_t)a].second;
      for (int l = 0; l < (S.nfeq > 0 ? nbfl : 0); l++)
      {
        LD f = driftAtData(i, l);
        S.A(a, nu + v * nbfl + l) = f;
        S.A(nu + v * nbfl + l, a) = f;
      }
      S.zext(a, 0) = (LD)c.z[(size_t)(i * nv + v)] - (c.order < 0 ? (LD)c.means[(size_t)v] : 0.L);
    }
    // right-hand side
    VectorDouble xt((size_t)c.ndim);
    int nd = g.disc1.empty() ? 1 : (int)g.disc1.size();
    std::vector<SpacePoint> pt;
    for (int q = 0; q < nd; q++)
    {
      for (int d = 0; d < c.ndim; d++) xt[d] = g.x0[(size_t)d] + (g.disc1.empty() ? 0. : g.disc1[(size_t)q][(size_t)d]);
      pt.emplace_back(xt);
    }
    for (int a = 0; a < nu; a++)
      for (int tv = 0; tv < nv; tv++)
      {
        LD s = 0;
        for (int q = 0; q < nd; q++) s += (LD)model->eval(pd[(size_t)S.unk[(size_t)a].first], pt[(size_t)q], S.unk[(size_t)a].second, tv);
        S.B(a, tv) = s / (LD)nd;
      }
    if (S.nfeq > 0)
      for (int tv = 0; tv < nv; tv++)
        for (int l = 0; l < nbfl; l++) S.B(nu + tv * nbfl + l, tv) = driftAtTarget(k, g, l);
    // sigma00
    if (g.disc1.empty())
    {
      for (int a = 0; a < nv; a++)
        for (int b = 0; b < nv; b++) S.C00(a, b) = (LD)model->eval(pt[0], pt[0], a, b);
    }
    else
    {
      std::vector<SpacePoint> p1, p2;
      for (int q = 0; q < nd; q++)
      {
        VectorDouble u((size_t)c.ndim), r((size_t)c.ndim);
        for (int d = 0; d < c.ndim; d++) { u[d] = g.disc1[(size_t)q][(size_t)d]; r[d] = g.disc2[(size_t)q][(size_t)d]; }
        p1.emplace_back(u);
        p2.emplace_back(r);
      }
      for (int a = 0; a < nv; a++)
        for (int b = 0; b < nv; b++)
        {
          LD s = 0;
          for (int q = 0; q < nd; q++)
            for (int r = 0; r < nd; r++) s += (LD)model->eval(p1[(size_t)q], p2[(size_t)r], a, b);
          S.C00(a, b) = s / (LD)(nd * nd);
        }
    }
    S.solved = false;
    S.kappa = INFINITY;
    S.normA = 0;
    S.covScale = 0;
    for (int a = 0; a < nu; a++)
      for (int b = 0; b < nu; b++) S.covScale = std::max(S.covScale, (double)fabsl(S.A(a, b)));
    for (int a = 0; a < nv; a++) S.covScale = std::max(S.covScale, (double)fabsl(S.C00(a, a)));
    if (N == 0 || nu == 0) return;
    for (int r = 0; r < N; r++)
    {
      LD s = 0;
      for (int q = 0; q < N; q++) s += fabsl(S.A(r, q));
      S.normA = std::max(S.normA, s);
    }
    // conditioning (2-norm, SVD in double)
    {
      Eigen::MatrixXd Ad = S.A.cast<double>();
      if (!Ad.allFinite()) return;
      Eigen::JacobiSVD<Eigen::MatrixXd> svd(Ad);
      double smax = svd.singularValues()(0), smin = svd.singularValues()(N - 1);
      S.kappa = (smin > 0) ? smax / smin : INFINITY;
      S.sminInv = (smin > 0) ? 1. / smin : INFINITY;
    }
    if (!(S.kappa < 1e15)) return;
    Eigen::FullPivLU<MatL> lu(S.A);
    S.sol = lu.solve(S.B);
    S.zam = lu.solve(S.zext);
    S.solved = true;
    S.estim.assign((size_t)nv, 0);
    S.var.assign((size_t)nv, 0);
    S.varz.assign((size_t)nv, 0);
    S.scaleE.assign((size_t)nv, 0);
    S.scaleV.assign((size_t)nv, 0);
    for (int tv = 0; tv < nv; tv++)
    {
      LD m = (c.order < 0) ? (LD)c.means[(size_t)tv] : 0.L;
      LD e = m, se = fabsl(m), lb = 0, lbAbs = 0, vz = 0;
      for (int a = 0; a < nu; a++)
      {
        e += S.sol(a, tv) * S.zext(a, 0);
        se += fabsl(S.sol(a, tv) * S.zext(a, 0));
      }
      for (int r = 0; r < N; r++)
      {
        se += fabsl(S.B(r, tv) * S.zam(r, 0));
        lb += S.sol(r, tv) * S.B(r, tv);
        lbAbs += fabsl(S.sol(r, tv) * S.B(r, tv));
        vz += (r < nu ? 1 : -1) * S.sol(r, tv) * S.B(r, tv);
      }
      S.estim[(size_t)tv] = e;
      S.scaleE[(size_t)tv] = se;
      S.var[(size_t)tv] = S.C00(tv, tv) - lb;
      S.varz[(size_t)tv] = vz;
      S.scaleV[(size_t)tv] = fabsl(S.C00(tv, tv)) + lbAbs;
    }
  }
};

// Relative tolerance for a quantity derived from the solution of a system of condition kappa (DESIGN §3:
// 1e3 kappa eps), plus the effect of the round-off already present in the matrix entries: the library
// evaluates covariances from pre-projected coordinates (x/range before the difference), the oracle from
// plain coordinates, so the normalised distances differ by about eps * max|coordinate| / min(range); that
// perturbation of the data of the system is amplified by kappa like any other ("round-off proportional to
// the conditioning").
inline double etaIn(const KCase& c)
{
  double cmax = 0, lmin = 1e300;
  for (double v : c.data.c) cmax = std::max(cmax, std::fabs(v));
  for (double v : c.targ.c) cmax = std::max(cmax, std::fabs(v));
  for (size_t d = 0; d < c.gx0.size(); d++) cmax = std::max(cmax, std::fabs(c.gx0[d]) + c.gnx[d] * c.gdx[d] * 2.);
  for (auto& s : c.st)
    if (s.type != T_NUGGET)
      for (double v : s.len) lmin = std::min(lmin, v);
  if (lmin > 1e299) return 0.;
  double r = cmax / lmin;
  return (r > 1.) ? kEps * r : 0.;
}
inline double epsK(double kappa, double eta = 0.) { return std::max(1e-10, kappa * (1e3 * kEps + 10. * eta)); }
// absolute error level of one covariance entry of the system (evaluation differences between the two code
// paths), relative to the largest covariance: the entries of Sigma0 may be arbitrarily small (far targets)
// while their error stays proportional to the sill
inline double epsIn(double eta) { return 1e-12 + 10. * eta; }
// absolute allowance on an estimate / on lambda'b due to epsIn: |d lambda| <= ||A^-1|| sqrt(N) epsIn covScale
inline LD floorE(const Sys& S, double eta)
{
  LD z2 = 0;
  for (int a = 0; a < S.nu; a++) z2 += S.zext(a, 0) * S.zext(a, 0);
  return (LD)10 * (LD)epsIn(eta) * (LD)S.covScale * sqrtl((LD)S.N) * (LD)S.sminInv * sqrtl(z2);
}
inline LD floorV(const Sys& S, double eta, int tv)
{
  LD l1 = 0;
  for (int r = 0; r < S.N; r++) l1 += fabsl(S.sol(r, tv));
  return (LD)10 * (LD)epsIn(eta) * (LD)S.covScale * ((LD)1 + 2 * l1);
}

// ------------------------------------------------------------------ neighbourhood -------
struct NbRef
{
  std::vector<int> nb; // ascending sample ranks
  bool ambiguous = false;
  bool empty() const { return nb.empty(); }
};
// `exclude`: rank of a sample left out (cross-validation), or -1
inline NbRef refNeigh(const KCase& c, const double* x0, int exclude = -1)
{
  NbRef R;
  int n = c.n();
  std::vector<int> adm((size_t)n, 0);
  for (int i = 0; i < n; i++) adm[(size_t)i] = (c.active(i) && c.anyDef(i) && i != exclude) ? 1 : 0;
  if (!c.moving)
  {
    for (int i = 0; i < n; i++)
      if (adm[(size_t)i]) R.nb.push_back(i);
    return R;
  }
  if (c.moving == 2)
  {
    // bench: every admissible sample whose last coordinate lies within +-radius of the target's
    int ld = c.ndim - 1;
    for (int i = 0; i < n; i++)
    {
      if (!adm[(size_t)i]) continue;
      double d = std::fabs(c.data.at(i, ld) - x0[ld]);
      if (std::fabs(d - c.radius) <= 1e-9 * (d + c.radius)) R.ambiguous = true;
      if (d <= c.radius) R.nb.push_back(i);
    }
    return R;
  }
  vfgeo::NeighParams P;
  P.ndim = c.ndim;
  P.hasRadius = c.hasRadius != 0;
  P.radius = c.radius;
  P.metric = vfgeo::Aniso::make(c.ndim, c.ncoef, c.ncoef.empty() ? std::vector<double>() : c.nang);
  P.nmini = c.nmini;
  P.nmaxi = c.nmaxi;
  P.nsect = c.nsect;
  P.nsmax = c.nsmax;
  vfgeo::NeighRef r = vfgeo::refMovingNeigh(P, x0, c.data, adm);
  R.nb = r.selected;
  R.ambiguous = !r.ambiguous.empty();
  return R;
}

// ------------------------------------------------------------------ API calls -----------
struct KOut
{
  int err = 0;
  bool cols = true;                         // result columns found
  std::vector<double> estim, stdev, varz;   // [k*nvar+v]; varz empty when not asked
};

inline KOut runKriging(const KCase& c, World& w, Ctx& ctx, bool wantVarz)
{
  KOut o;
  int nt = c.ntarg();
  ctx.at("kriging:" + c.variant());
  VectorInt nd;
  for (int v : c.ndisc) nd.push_back(v);
  o.err = kriging(w.dbin.get(), w.dbout.get(), w.model.get(), w.neigh.get(), c.block ? EKrigOpt::BLOCK : EKrigOpt::POINT, true,
                  true, wantVarz, nd);
  if (o.err) return o;
  for (int v = 0; v < c.nvar; v++)
  {
    std::string base = "Kriging.z" + std::to_string(v + 1);
    int ie = w.dbout->getUID(base + ".estim"), is = w.dbout->getUID(base + ".stdev");
    int iz = wantVarz ? w.dbout->getUID(base + ".varz") : 0;
    if (ie < 0 || is < 0 || iz < 0) { o.cols = false; return o; }
  }
  o.estim.resize((size_t)(nt * c.nvar));
  o.stdev.resize((size_t)(nt * c.nvar));
  if (wantVarz) o.varz.resize((size_t)(nt * c.nvar));
  for (int v = 0; v < c.nvar; v++)
  {
    std::string base = "Kriging.z" + std::to_string(v + 1);
    VectorDouble e = w.dbout->getColumn(base + ".estim", false), s = w.dbout->getColumn(base + ".stdev", false), z;
    if (wantVarz) z = w.dbout->getColumn(base + ".varz", false);
    if ((int)e.size() != nt || (int)s.size() != nt || (wantVarz && (int)z.size() != nt)) { o.cols = false; return o; }
    for (int k = 0; k < nt; k++)
    {
      o.estim[(size_t)(k * c.nvar + v)] = e[k];
      o.stdev[(size_t)(k * c.nvar + v)] = s[k];
      if (wantVarz) o.varz[(size_t)(k * c.nvar + v)] = z[k];
    }
  }
  return o;
}

inline Krigtest_Res runKrigtest(const KCase& c, World& w, Ctx& ctx, int k)
{
  ctx.at("krigtest:" + c.variant());
  VectorInt nd;
  for (int v : c.ndisc) nd.push_back(v);
  return krigtest(w.dbin.get(), w.dbout.get(), w.model.get(), w.neigh.get(), k, c.block ? EKrigOpt::BLOCK : EKrigOpt::POINT, nd,
                  false, false);
}

// ------------------------------------------------------------------ labels --------------
inline void labelCase(const KCase& c, Ctx& ctx)
{
  ctx.label(std::string("family:") + c.family());
  ctx.label("ndim:" + std::to_string(c.ndim));
  ctx.label("nvar:" + std::to_string(c.nvar));
  ctx.label(c.moving == 2 ? "neigh:bench" : c.moving ? (c.nsect > 1 ? "neigh:moving+sectors" : "neigh:moving") : "neigh:unique");
  ctx.label(c.block ? (c.gridRotated() ? "target:block-rotated" : "target:block") : "target:point");
  ctx.label(c.heterotopic() ? "topo:heterotopic" : "topo:isotopic");
  if (!c.verr.empty()) ctx.label("verr");
  if (!c.sel.empty()) ctx.label("sel");
  if (c.order >= 0) ctx.label("order:" + std::to_string(c.order));
  if (!c.stationary()) ctx.label("model:intrinsic");
  if (c.rotatedAniso()) ctx.label("model:rotated-aniso");
  for (auto& s : c.st) ctx.label(std::string("st:") + typeName(s.type));
}
inline uint64_t signature(const KCase& c)
{
  vf::Hash h;
  int nb = c.n() < 3 ? c.n() : (c.n() < 8 ? 3 : (c.n() < 20 ? 4 : 5));
  h.add(c.ndim).add(c.nvar).add(nb).add(c.order).add(c.nfex).add(c.moving).add(c.nsect).add(c.block).add(c.heterotopic() ? 1 : 0);
  h.add(c.verr.empty() ? 0 : 1).add(c.sel.empty() ? 0 : 1).add(c.rotatedAniso() ? 1 : 0).add(c.gridRotated() ? 1 : 0);
  for (auto& s : c.st) h.add(s.type);
  return h.h;
}
inline bool nontrivial(const KCase& c, int maxNeigh)
{
  return maxNeigh >= 2 && (c.order >= 0 || c.heterotopic() || c.nvar > 1 || c.rotatedAniso() || c.moving || c.block);
}

} // namespace vfkrig
