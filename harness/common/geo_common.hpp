// Geometry helpers shared by the kriging-related harnesses (namespace vfgeo).  DESIGN.md §3.
//
// Everything here is written independently of the library under test (no GeometryHelper, no
// BiTargetCheck*, no SpacePoint): it is oracle code.
//
//  * Points / genPointSets  : point sets with pairwise distinct locations (lattice + jitter, §3
//                             "Point sets"), several sets (data, targets) sharing one lattice so
//                             that no two points of any set coincide.
//  * rotationAxes           : anisotropy axes u_1..u_ndim from angles in degrees, built by composing
//                             elementary right-handed rotations (2-D: theta ccw; 3-D: about z, then
//                             the new y, then the new x).  Row i of the returned matrix is u_i.
//  * anisoIncrement/Dist    : normalised increment w_i = (delta . u_i) / c_i and h = |w|.
//  * refMovingNeigh         : the executable definition of the moving neighbourhood (C06): radius,
//                             angular sectors, per-sector quota, nmaxi by cycling over the sectors,
//                             nmini.  It also reports which samples make the answer *ambiguous*
//                             (ties, points on the radius or on a sector limit) so that generators can
//                             remove them (construction with a margin, never rejection).
//  * segmentsCross          : robust 2-D segment crossing predicate with a margin (fault checker).
//  * bruteKnn               : sorted brute-force nearest neighbours (Euclidean).
#pragma once
#include "verif.hpp"

#include <algorithm>
#include <cmath>
#include <set>
#include <string>
#include <vector>

namespace vfgeo {

constexpr double kPi = 3.14159265358979323846264338327950288;

// ------------------------------------------------------------------ point sets ---------
// n points in dimension ndim, row-major (point i = c[i*ndim .. i*ndim+ndim-1]).
struct Points
{
  int ndim = 1;
  std::vector<double> c;
  int n() const { return ndim > 0 ? (int)c.size() / ndim : 0; }
  double at(int i, int d) const { return c[(size_t)i * (size_t)ndim + (size_t)d]; }
  const double* p(int i) const { return &c[(size_t)i * (size_t)ndim]; }
  void push(const double* x) { for (int d = 0; d < ndim; d++) c.push_back(x[d]); }
  // copy without the points whose flag is non-zero
  Points without(const std::vector<int>& drop) const
  {
    Points r;
    r.ndim = ndim;
    for (int i = 0; i < n(); i++)
      if (!drop[(size_t)i]) r.push(p(i));
    return r;
  }
  template<class A> void io(A& a) { a("ndim", ndim)("c", c); }
};

// Description of the lattice used to lay the points (kept in the case for diagnostics only).
struct Lattice
{
  int ndim = 1;
  int m = 1;          // cells per axis
  double L = 1.;      // box size
  double cell = 1.;   // cell size = L / m
  std::vector<double> origin;
};

// Several point sets (sizes[k] points each) with pairwise distinct locations across all sets.
//   box size L in {1, 1e2, 1e4}, origin within +-1e4 (both drawn here unless L > 0 is given);
//   a lattice with at least 4*N cells (N = total number of points); N distinct cells are drawn
//   (uniformly, or concentrated around a random centre when `clustered`); every point is put in
//   the central 60 % of its cell (jitter == false: exactly at the cell centre -> regular layout
//   with many equal distances, only for properties that accept ties).
// Minimum separation between any two points: 0.4 cell.
inline std::vector<Points> genPointSets(int ndim, const std::vector<int>& sizes, bool clustered, bool jitter = true,
                                        double L = -1., Lattice* latOut = nullptr)
{
  using namespace vf;
  int N = 0;
  for (int s : sizes) N += s;
  Lattice lat;
  lat.ndim = ndim;
  lat.L = (L > 0) ? L : G::pick<double>({1., 100., 1e4});
  int m = 1;
  {
    double want = 4. * std::max(N, 1);
    m = (int)std::ceil(std::pow(want, 1. / ndim) - 1e-9);
    if (m < 2) m = 2;
    while (std::pow((double)m, ndim) < want) m++;
  }
  lat.m = m;
  lat.cell = lat.L / m;
  for (int d = 0; d < ndim; d++) lat.origin.push_back(G::pick<double>({0., 0., -1e4, 1e4, 250.5, -3.25}));
  long T = 1;
  for (int d = 0; d < ndim; d++) T *= m;

  // distinct cells: Floyd's algorithm (N draws), then a random order
  std::vector<long> cells;
  if (!clustered)
  {
    std::set<long> chosen;
    for (long j = T - N; j < T; j++)
    {
      long t = (long)G::i(0, (int)j);
      if (chosen.count(t)) t = j;
      chosen.insert(t);
      cells.push_back(t);
    }
  }
  else
  {
    // concentrate around a centre: draw each cell as centre + small offset; on collision walk to
    // the next free cell (deterministic), so that the construction always succeeds
    std::set<long> chosen;
    std::vector<int> ctr((size_t)ndim);
    for (int d = 0; d < ndim; d++) ctr[(size_t)d] = G::i(0, m - 1);
    int spread = std::max(1, m / 4);
    for (int k = 0; k < N; k++)
    {
      long t = 0;
      for (int d = 0; d < ndim; d++)
      {
        int o = G::i(-spread, spread) + G::i(-spread, spread);
        int v = ((ctr[(size_t)d] + o) % m + m) % m;
        t = t * m + v;
      }
      while (chosen.count(t)) t = (t + 1) % T;
      chosen.insert(t);
      cells.push_back(t);
    }
  }
  std::vector<Points> out;
  size_t pos = 0;
  for (int s : sizes)
  {
    Points P;
    P.ndim = ndim;
    for (int k = 0; k < s; k++, pos++)
    {
      long t = cells[pos];
      std::vector<double> x((size_t)ndim);
      for (int d = ndim - 1; d >= 0; d--)
      {
        int v = (int)(t % m);
        t /= m;
        double u = jitter ? G::u(0., 1.) : 0.5;
        x[(size_t)d] = lat.origin[(size_t)d] + ((double)v + 0.2 + 0.6 * u) * lat.cell;
      }
      P.push(x.data());
    }
    out.push_back(P);
  }
  if (latOut) *latOut = lat;
  return out;
}

// ------------------------------------------------------------------ anisotropy ---------
// Axes of the anisotropy: row i (U[i*ndim + j], j = 0..ndim-1) is the unit vector u_i.
//   ndim == 2: angles[0] = theta (degrees, counter-clockwise): u1 = (cos, sin), u2 = (-sin, cos)
//   ndim == 3: angles = (alpha, beta, gamma): right-handed rotations about z, then about the new y,
//              then about the new x; u_i = i-th column of Rz(alpha) Ry(beta) Rx(gamma)
//   otherwise (or no angle): identity.  Missing angles count as 0.
inline std::vector<double> rotationAxes(int ndim, const std::vector<double>& anglesDeg)
{
  std::vector<double> U((size_t)(ndim * ndim), 0.);
  for (int i = 0; i < ndim; i++) U[(size_t)(i * ndim + i)] = 1.;
  auto ang = [&](int k) { return (k < (int)anglesDeg.size()) ? anglesDeg[(size_t)k] * kPi / 180. : 0.; };
  if (ndim == 2)
  {
    double c = std::cos(ang(0)), s = std::sin(ang(0));
    U = {c, s, -s, c};
  }
  else if (ndim == 3)
  {
    // M = Rz * Ry * Rx as 3x3 row-major, built by explicit products
    auto mul = [](const double A[9], const double B[9], double C[9]) {
      for (int i = 0; i < 3; i++)
        for (int j = 0; j < 3; j++)
        {
          double s = 0;
          for (int k = 0; k < 3; k++) s += A[i * 3 + k] * B[k * 3 + j];
          C[i * 3 + j] = s;
        }
    };
    double ca = std::cos(ang(0)), sa = std::sin(ang(0));
    double cb = std::cos(ang(1)), sb = std::sin(ang(1));
    double cg = std::cos(ang(2)), sg = std::sin(ang(2));
    double Rz[9] = {ca, -sa, 0, sa, ca, 0, 0, 0, 1};
    double Ry[9] = {cb, 0, sb, 0, 1, 0, -sb, 0, cb};
    double Rx[9] = {1, 0, 0, 0, cg, -sg, 0, sg, cg};
    double T[9], M[9];
    mul(Rz, Ry, T);
    mul(T, Rx, M);
    for (int i = 0; i < 3; i++)
      for (int j = 0; j < 3; j++) U[(size_t)(i * 3 + j)] = M[j * 3 + i]; // u_i = column i of M
  }
  return U;
}

// Metric of a neighbourhood / of a covariance: h = sqrt(sum_i ((delta . u_i) / c_i)^2).
struct Aniso
{
  int ndim = 1;
  std::vector<double> U;      // axes (rotationAxes)
  std::vector<double> coeff;  // c_i (all 1 when isotropic)
  static Aniso make(int ndim, const std::vector<double>& coeffs, const std::vector<double>& anglesDeg)
  {
    Aniso a;
    a.ndim = ndim;
    a.U = rotationAxes(ndim, anglesDeg);
    a.coeff.assign((size_t)ndim, 1.);
    for (int i = 0; i < ndim && i < (int)coeffs.size(); i++) a.coeff[(size_t)i] = coeffs[(size_t)i];
    return a;
  }
  // normalised increment w (size ndim) of delta; returns h
  double increment(const double* delta, std::vector<double>& w) const
  {
    w.assign((size_t)ndim, 0.);
    long double s2 = 0;
    for (int i = 0; i < ndim; i++)
    {
      long double s = 0;
      for (int j = 0; j < ndim; j++) s += (long double)delta[j] * (long double)U[(size_t)(i * ndim + j)];
      s /= (long double)coeff[(size_t)i];
      w[(size_t)i] = (double)s;
      s2 += s * s;
    }
    return (double)sqrtl(s2);
  }
  double dist(const double* a, const double* b) const
  {
    std::vector<double> d((size_t)ndim), w;
    for (int j = 0; j < ndim; j++) d[(size_t)j] = a[j] - b[j];
    return increment(d.data(), w);
  }
};

inline double euclid(int ndim, const double* a, const double* b)
{
  long double s = 0;
  for (int j = 0; j < ndim; j++) s += ((long double)a[j] - b[j]) * ((long double)a[j] - b[j]);
  return (double)sqrtl(s);
}

// ------------------------------------------------------------------ moving neighbourhood
struct NeighParams
{
  int ndim = 2;
  bool hasRadius = false;
  double radius = 0.;            // bound on the normalised distance h (used when hasRadius)
  Aniso metric;                  // axes and coefficients
  int nmini = 1;                 // fewer qualifying samples -> empty neighbourhood
  int nmaxi = 1000;              // <= 0: no overall limit
  int nsect = 1;                 // angular sectors (only when ndim > 1 and nsect > 1)
  int nsmax = 0;                 // per-sector quota (<= 0: none; only with sectors)
  bool sectors() const { return ndim > 1 && nsect > 1; }
};

struct NeighCand
{
  int idx = 0;        // rank of the sample
  double h = 0.;      // normalised distance to the target
  double angle = 0.;  // angle in [0, 2pi) of the normalised increment (target - sample), first two axes
  int sector = 0;
  bool kept = false;
};

struct NeighRef
{
  std::vector<int> selected;        // sorted ranks of the neighbourhood
  std::vector<NeighCand> cands;     // admissible samples inside the radius, by increasing h
  int nQualify = 0;                 // = cands.size()
  bool emptiedByNmini = false;
  bool quotaBinds = false;          // a per-sector quota removed a sample
  bool nmaxiBinds = false;          // the overall limit removed a sample
  std::vector<int> sectorCount;     // selected samples per sector
  double hmin = 0., hmax = 0.;      // over the selected samples (0 when empty)
  double hscale = 0.;               // largest h over admissible samples (scale of the margins)
  std::vector<int> ambiguous;       // samples whose removal makes the answer unambiguous (see below)
};

// The definition (property C06).  `admissible[i] != 0` <=> sample i is active, has a defined
// variable, is not excluded by cross-validation and passes the additional checkers (the caller
// decides those).  Sector of a sample: k = floor(nsect * theta / 2pi), theta = direction of the
// normalised increment (target - sample) in the plane of the first two anisotropy axes.
//
// Ambiguity (excluded by the property: ties and boundaries), relative margin `mrg`:
//   |h - radius| <= mrg * radius;  two admissible in-radius samples of the same sector with
//   |h_i - h_j| <= mrg * hscale;  direction within mrg (radians) of a sector limit, or undefined
//   (planar part of the increment <= mrg * hscale).  For a pair the farther sample is reported.
inline NeighRef refMovingNeigh(const NeighParams& P, const double* target, const Points& data,
                               const std::vector<int>& admissible, double mrg = 4e-6)
{
  NeighRef R;
  int n = data.n();
  std::vector<double> delta((size_t)P.ndim), w;
  std::vector<NeighCand> all;
  std::set<int> amb;
  for (int i = 0; i < n; i++)
  {
    if (!admissible[(size_t)i]) continue;
    for (int d = 0; d < P.ndim; d++) delta[(size_t)d] = target[d] - data.at(i, d);
    NeighCand c;
    c.idx = i;
    c.h = P.metric.increment(delta.data(), w);
    R.hscale = std::max(R.hscale, c.h);
    if (P.sectors())
    {
      double a = std::atan2(w[1], w[0]);
      if (a < 0) a += 2 * kPi;
      if (a >= 2 * kPi) a = 0;
      c.angle = a;
      c.sector = (int)std::floor(P.nsect * a / (2 * kPi));
      if (c.sector >= P.nsect) c.sector = P.nsect - 1;
    }
    all.push_back(c);
  }
  for (auto& c : all)
  {
    if (P.hasRadius)
    {
      if (std::fabs(c.h - P.radius) <= mrg * P.radius) amb.insert(c.idx);
      if (c.h > P.radius) continue;
    }
    if (P.sectors())
    {
      // planar part of the normalised increment
      for (int d = 0; d < P.ndim; d++) delta[(size_t)d] = target[d] - data.at(c.idx, d);
      P.metric.increment(delta.data(), w);
      if (std::hypot(w[0], w[1]) <= mrg * R.hscale) amb.insert(c.idx);
      double t = P.nsect * c.angle / (2 * kPi);
      double fr = t - std::floor(t);
      double dang = std::min(fr, 1. - fr) * 2 * kPi / P.nsect; // angular distance to the nearest limit
      if (dang <= mrg) amb.insert(c.idx);
    }
    R.cands.push_back(c);
  }
  std::sort(R.cands.begin(), R.cands.end(), [](const NeighCand& a, const NeighCand& b) {
    if (a.h != b.h) return a.h < b.h;
    return a.idx < b.idx;
  });
  R.nQualify = (int)R.cands.size();
  // ties inside a sector
  {
    std::vector<double> lastH((size_t)std::max(P.nsect, 1), -1.);
    for (auto& c : R.cands)
    {
      int s = P.sectors() ? c.sector : 0;
      if (lastH[(size_t)s] >= 0 && c.h - lastH[(size_t)s] <= mrg * R.hscale) amb.insert(c.idx);
      lastH[(size_t)s] = c.h;
    }
  }
  R.ambiguous.assign(amb.begin(), amb.end());
  R.sectorCount.assign((size_t)std::max(P.nsect, 1), 0);
  if (R.nQualify < P.nmini)
  {
    R.emptiedByNmini = R.nQualify > 0;
    return R;
  }
  // per sector, closest first, up to the quota
  int ns = std::max(P.nsect, 1);
  std::vector<std::vector<int>> bySect((size_t)ns); // positions in cands
  for (int k = 0; k < (int)R.cands.size(); k++)
  {
    int s = P.sectors() ? R.cands[(size_t)k].sector : 0;
    if (P.sectors() && P.nsmax > 0 && (int)bySect[(size_t)s].size() >= P.nsmax)
    {
      R.quotaBinds = true;
      continue;
    }
    bySect[(size_t)s].push_back(k);
  }
  int total = 0;
  for (auto& v : bySect) total += (int)v.size();
  std::vector<int> take((size_t)ns);
  for (int s = 0; s < ns; s++) take[(size_t)s] = (int)bySect[(size_t)s].size();
  if (P.nmaxi > 0 && total > P.nmaxi)
  {
    R.nmaxiBinds = true;
    std::fill(take.begin(), take.end(), 0);
    int cnt = 0;
    for (int s = 0; cnt < P.nmaxi; s = (s + 1) % ns)
      if (take[(size_t)s] < (int)bySect[(size_t)s].size())
      {
        take[(size_t)s]++;
        cnt++;
      }
  }
  bool first = true;
  for (int s = 0; s < ns; s++)
    for (int q = 0; q < take[(size_t)s]; q++)
    {
      NeighCand& c = R.cands[(size_t)bySect[(size_t)s][(size_t)q]];
      c.kept = true;
      R.selected.push_back(c.idx);
      R.sectorCount[(size_t)s]++;
      if (first || c.h < R.hmin) R.hmin = c.h;
      if (first || c.h > R.hmax) R.hmax = c.h;
      first = false;
    }
  std::sort(R.selected.begin(), R.selected.end());
  return R;
}

// ------------------------------------------------------------------ segments -----------
// +1: segments [P,Q] and [A,B] cross properly, every end point being farther than `tol` from the
//     line carrying the other segment;  -1: the segments are farther than `tol` apart;  0: ambiguous.
inline double pointSegDist(double px, double py, double ax, double ay, double bx, double by)
{
  double vx = bx - ax, vy = by - ay;
  double l2 = vx * vx + vy * vy;
  double t = (l2 > 0) ? ((px - ax) * vx + (py - ay) * vy) / l2 : 0.;
  t = std::max(0., std::min(1., t));
  return std::hypot(px - (ax + t * vx), py - (ay + t * vy));
}
inline int segmentsCross(double px, double py, double qx, double qy, double ax, double ay, double bx, double by,
                         double tol)
{
  auto cross = [](double ux, double uy, double vx, double vy) { return ux * vy - uy * vx; };
  double lab = std::hypot(bx - ax, by - ay), lpq = std::hypot(qx - px, qy - py);
  double d1 = cross(bx - ax, by - ay, px - ax, py - ay);
  double d2 = cross(bx - ax, by - ay, qx - ax, qy - ay);
  double d3 = cross(qx - px, qy - py, ax - px, ay - py);
  double d4 = cross(qx - px, qy - py, bx - px, by - py);
  bool strict = (d1 * d2 < 0) && (d3 * d4 < 0);
  if (strict)
  {
    if (std::fabs(d1) > tol * lab && std::fabs(d2) > tol * lab && std::fabs(d3) > tol * lpq && std::fabs(d4) > tol * lpq)
      return +1;
    return 0;
  }
  double dmin = std::min(std::min(pointSegDist(px, py, ax, ay, bx, by), pointSegDist(qx, qy, ax, ay, bx, by)),
                         std::min(pointSegDist(ax, ay, px, py, qx, qy), pointSegDist(bx, by, px, py, qx, qy)));
  return (dmin > tol) ? -1 : 0;
}

// ------------------------------------------------------------------ brute-force k-NN ---
struct KnnRef
{
  std::vector<int> idx;     // all points by increasing Euclidean distance (index breaks exact ties)
  std::vector<double> dist; // matching distances
};
inline KnnRef bruteKnn(const Points& data, const double* q)
{
  KnnRef r;
  int n = data.n();
  std::vector<std::pair<double, int>> v;
  for (int i = 0; i < n; i++) v.push_back({euclid(data.ndim, data.p(i), q), i});
  std::sort(v.begin(), v.end());
  for (auto& e : v)
  {
    r.dist.push_back(e.first);
    r.idx.push_back(e.second);
  }
  return r;
}

} // namespace vfgeo
