// Common scaffolding of all rapidcheck harnesses (see DESIGN.md §2.2).
//
//  * Case types describe themselves once (template<class A> void io(A&)) which yields the
//    line-oriented replay text (toText) and its parser (fromText).
//  * Sub-properties are registered with VERIF_SUB(name, CaseType, genFn, runFn).
//      genFn : () -> CaseType          (draws every random choice through rapidcheck: *gen)
//      runFn : (const CaseType&, Ctx&) (applies the oracle; ctx.fail(key,msg) on violation,
//                                       ctx.label()/ctx.nontrivial()/ctx.inconclusive())
//  * main():   cNN --sub <name> --out <prefix> [--exclude k1,k2]     search (RC_PARAMS from env)
//              cNN --replay <file> [--out <prefix>]                   one stored case, no rapidcheck
//              cNN --list                                             names of sub-properties
//    Files written: <prefix>.stats.json (counters), <prefix>.current (write-ahead case),
//                   <prefix>.fail (shrunk failing case + key + message).
#pragma once
#include <rapidcheck.h>

#include <cinttypes>
#include <cmath>
#include <cstdio>
#include <cstdlib>
#include <cstring>
#include <fstream>
#include <functional>
#include <iostream>
#include <map>
#include <set>
#include <sstream>
#include <string>
#include <vector>
#include <unistd.h>
#include <fcntl.h>
#include <fnmatch.h>
#include <poll.h>
#include <signal.h>
#include <sys/resource.h>
#include <sys/wait.h>
#include <ctime>

#include "geoslib_io.h"

extern "C" void __sanitizer_set_death_callback(void (*)(void));
// malloc()/operator delete pairs are pervasive in the csparse glue (cs structs are malloc'ed by
// csparse and deleted by gstlearn); that is benign on glibc and outside every listed property,
// and it would stop all checks at their first sparse matrix.  Leaks: many library paths leak on
// error by design of the old C code; leak checking is not part of any listed property.
extern "C" __attribute__((used, visibility("default"))) const char* __asan_default_options()
{
  return "alloc_dealloc_mismatch=0:detect_leaks=0:abort_on_error=0:exitcode=86:allocator_may_return_null=1:"
         "max_allocation_size_mb=2048:symbolize=1";
}
extern "C" __attribute__((used, visibility("default"))) const char* __ubsan_default_options() { return "print_stacktrace=1:halt_on_error=1:exitcode=86"; }

namespace vf {

// ---------------------------------------------------------------- text archive ---------
struct TextOut
{
  std::ostringstream os;
  static constexpr bool reading = false;
  void put(const char* k, const int& v) { os << k << " " << v << "\n"; }
  void put(const char* k, const long& v) { os << k << " " << v << "\n"; }
  void put(const char* k, const bool& v) { os << k << " " << (v ? 1 : 0) << "\n"; }
  void put(const char* k, const double& v)
  {
    char b[64];
    snprintf(b, sizeof b, "%.17g", v);
    os << k << " " << b << "\n";
  }
  void put(const char* k, const std::string& v)
  {
    os << k << " " << v.size() << " ";
    for (unsigned char c : v)
    {
      char b[8];
      if (c == '\\' || c == '\n' || c == '\r' || c < 32 || c > 126)
      {
        snprintf(b, sizeof b, "\\%02x", c);
        os << b;
      }
      else
        os << c;
    }
    os << "\n";
  }
  template<class T> void put(const char* k, const std::vector<T>& v)
  {
    os << k << " [" << v.size() << "\n";
    for (const auto& e : v) put("-", e);
    os << "]\n";
  }
  template<class T> auto put(const char* k, const T& v) -> decltype(const_cast<T&>(v).io(*this), void())
  {
    os << k << " {\n";
    const_cast<T&>(v).io(*this);
    os << "}\n";
  }
  template<class T> TextOut& operator()(const char* k, T& v)
  {
    put(k, v);
    return *this;
  }
};

struct TextIn
{
  std::istringstream is;
  bool ok = true;
  static constexpr bool reading = true;
  explicit TextIn(const std::string& s) : is(s) {}
  bool key(const char* k)
  {
    std::string w;
    if (!(is >> w))
    {
      // end of the text: fields appended to a case type after a replay file was stored keep their default
      // value (new fields must therefore be added at the END of the top-level io() list)
      return false;
    }
    if (w != k)
    {
      if (ok) fprintf(stderr, "replay parse error: expected key '%s' got '%s'\n", k, w.c_str());
      ok = false;
      return false;
    }
    return true;
  }
  void get(const char* k, int& v) { if (key(k)) ok = ok && bool(is >> v); }
  void get(const char* k, long& v) { if (key(k)) ok = ok && bool(is >> v); }
  void get(const char* k, bool& v) { int i = 0; if (key(k)) ok = ok && bool(is >> i); v = i != 0; }
  void get(const char* k, double& v)
  {
    std::string w;
    if (key(k) && (is >> w)) v = strtod(w.c_str(), nullptr); else ok = false;
  }
  void get(const char* k, std::string& v)
  {
    size_t n = 0;
    v.clear();
    if (!key(k) || !(is >> n)) { ok = false; return; }
    is.get(); // the blank
    while (v.size() < n && is.good())
    {
      int c = is.get();
      if (c == '\\')
      {
        char h[3] = {(char)is.get(), (char)is.get(), 0};
        v.push_back((char)strtol(h, nullptr, 16));
      }
      else
        v.push_back((char)c);
    }
  }
  template<class T> void get(const char* k, std::vector<T>& v)
  {
    v.clear();
    std::string w;
    if (!key(k) || !(is >> w) || w.size() < 2 || w[0] != '[') { ok = false; return; }
    size_t n = strtoul(w.c_str() + 1, nullptr, 10);
    v.resize(n);
    for (size_t i = 0; i < n && ok; i++) get("-", v[i]);
    if (!(is >> w) || w != "]") ok = false;
  }
  template<class T> auto get(const char* k, T& v) -> decltype(v.io(*this), void())
  {
    std::string w;
    if (!key(k) || !(is >> w) || w != "{") { ok = false; return; }
    v.io(*this);
    if (!(is >> w) || w != "}") ok = false;
  }
  template<class T> TextIn& operator()(const char* k, T& v)
  {
    if (ok) get(k, v);
    return *this;
  }
};
// vector<bool> is not a container of bool&: cases use vector<int> for flags.

template<class C> std::string toText(const C& c)
{
  TextOut o;
  const_cast<C&>(c).io(o);
  return o.os.str();
}
template<class C> bool fromText(const std::string& s, C& c)
{
  TextIn in(s);
  c.io(in);
  return in.ok;
}

// ---------------------------------------------------------------- generators -----------
// Every random choice goes through these (rapidcheck owns the randomness and the shrinking).
namespace G {
constexpr int kSize = 100;
// integer in [lo,hi], distribution independent of the rapidcheck size
inline int i(int lo, int hi)
{
  if (hi <= lo) return lo;
  return *rc::gen::resize(kSize, rc::gen::inRange<int>(lo, hi + 1));
}
// integer in [lo,hi] growing with the rapidcheck size (small cases first)
inline int sz(int lo, int hi)
{
  if (hi <= lo) return lo;
  return *rc::gen::inRange<int>(lo, hi + 1);
}
inline bool b() { return i(0, 1) == 1; }
// true with probability ~ p (percent)
inline bool pct(int p) { return i(0, 99) < p; }
// double in [lo,hi] on a 2^-20 grid (shrinks towards lo)
inline double u(double lo, double hi)
{
  int m = *rc::gen::resize(kSize, rc::gen::inRange<int>(0, (1 << 20) + 1));
  return lo + (hi - lo) * (double)m / (double)(1 << 20);
}
// "round" double: k/den with k in [lo*den, hi*den]
inline double r(int lo, int hi, int den) { return (double)i(lo * den, hi * den) / (double)den; }
// log-uniform double in [lo,hi]
inline double lu(double lo, double hi) { return std::exp(u(std::log(lo), std::log(hi))); }
template<class T> inline T pick(std::initializer_list<T> l)
{
  std::vector<T> v(l);
  return v[(size_t)i(0, (int)v.size() - 1)];
}
template<class T> inline const T& pickv(const std::vector<T>& v) { return v[(size_t)i(0, (int)v.size() - 1)]; }
// seed acceptable to law_set_random_seed (ignores <=0; default generator modulus 20000159)
inline int seed() { return i(1, 20000158); }
// a permutation of 0..n-1
inline std::vector<int> perm(int n)
{
  std::vector<int> p((size_t)n);
  for (int k = 0; k < n; k++) p[(size_t)k] = k;
  for (int k = n - 1; k > 0; k--)
  {
    int j = i(0, k);
    std::swap(p[(size_t)k], p[(size_t)j]);
  }
  return p;
}
} // namespace G

// ---------------------------------------------------------------- hashing --------------
struct Hash
{
  uint64_t h = 1469598103934665603ull;
  Hash& add(uint64_t v)
  {
    for (int k = 0; k < 8; k++) { h ^= (v >> (8 * k)) & 0xff; h *= 1099511628211ull; }
    return *this;
  }
  Hash& add(int v) { return add((uint64_t)(int64_t)v); }
  Hash& add(const std::string& s) { for (unsigned char c : s) { h ^= c; h *= 1099511628211ull; } return add((uint64_t)s.size()); }
  // quantised double (3 significant digits)
  Hash& addq(double v)
  {
    char b[32];
    snprintf(b, sizeof b, "%.2e", v);
    return add(std::string(b));
  }
};
inline uint64_t hashText(const std::string& s) { return Hash().add(s).h; }

// ---------------------------------------------------------------- context / stats ------
struct Failure
{
  std::string key; // stable kind of failure (matched against known findings)
  std::string msg;
};

struct Ctx
{
  std::vector<std::string> labels;
  bool nt = false;
  bool inconc = false;
  bool excluded = false;
  uint64_t sig = 0; // structural signature (0 => hash of the case text)
  std::vector<Failure> fails;
  void label(const std::string& l) { labels.push_back(l); }
  // call site marker used to key exceptions thrown by the library ("at:<site>")
  void at(const std::string& site) { labels.push_back("at:" + site); }
  void nontrivial(bool f = true) { nt = nt || f; }
  void inconclusive(const std::string& why) { inconc = true; labels.push_back("inconclusive:" + why); }
  void fail(const std::string& key, const std::string& msg) { fails.push_back({key, msg}); }
  bool failed() const { return !fails.empty(); }
};

struct Stats
{
  std::string sub;
  long evaluations = 0, nontrivial = 0, inconclusive = 0, excluded = 0, failing_runs = 0;
  std::map<std::string, long> classes;
  std::set<uint64_t> ntsigs;
  std::vector<std::string> samples; // first few + reservoir
  long seenForSample = 0;
  std::string outPrefix;
  std::set<std::string> exclude;
  std::string lastFailText, lastFailKey, lastFailMsg;
  bool crashed = false;
  bool shrinking = false;
};
inline Stats& stats() { static Stats s; return s; }

inline std::string jsonEsc(const std::string& s)
{
  std::string o;
  for (unsigned char c : s)
  {
    if (c == '"' || c == '\\') { o.push_back('\\'); o.push_back((char)c); }
    else if (c == '\n') o += "\\n";
    else if (c < 32 || c > 126) { char b[8]; snprintf(b, sizeof b, "\\u%04x", c); o += b; }
    else o.push_back((char)c);
  }
  return o;
}

inline void writeStats()
{
  Stats& s = stats();
  if (s.outPrefix.empty()) return;
  std::string tmp = s.outPrefix + ".stats.json.tmp";
  FILE* f = fopen(tmp.c_str(), "w");
  if (!f) return;
  fprintf(f, "{\"sub\":\"%s\",\"evaluations\":%ld,\"nontrivial\":%ld,\"inconclusive\":%ld,\"excluded\":%ld,"
             "\"failing_runs\":%ld,\"crashed\":%s,\n",
          jsonEsc(s.sub).c_str(), s.evaluations, s.nontrivial, s.inconclusive, s.excluded, s.failing_runs,
          s.crashed ? "true" : "false");
  fprintf(f, "\"classes\":{");
  bool first = true;
  for (auto& kv : s.classes)
  {
    fprintf(f, "%s\"%s\":%ld", first ? "" : ",", jsonEsc(kv.first).c_str(), kv.second);
    first = false;
  }
  fprintf(f, "},\n\"ntsigs\":[");
  first = true;
  for (auto v : s.ntsigs)
  {
    fprintf(f, "%s\"%016" PRIx64 "\"", first ? "" : ",", v);
    first = false;
  }
  fprintf(f, "],\n\"samples\":[");
  first = true;
  for (auto& t : s.samples)
  {
    fprintf(f, "%s\"%s\"", first ? "" : ",", jsonEsc(t).c_str());
    first = false;
  }
  fprintf(f, "],\n\"fail_key\":\"%s\",\"fail_msg\":\"%s\"}\n", jsonEsc(s.lastFailKey).c_str(),
          jsonEsc(s.lastFailMsg).c_str());
  fclose(f);
  rename(tmp.c_str(), (s.outPrefix + ".stats.json").c_str());
}

inline void writeFile(const std::string& path, const std::string& text)
{
  int fd = open(path.c_str(), O_WRONLY | O_CREAT | O_TRUNC, 0644);
  if (fd < 0) return;
  size_t off = 0;
  while (off < text.size())
  {
    ssize_t w = write(fd, text.data() + off, text.size() - off);
    if (w <= 0) break;
    off += (size_t)w;
  }
  close(fd);
}
inline bool readFile(const std::string& path, std::string& text)
{
  std::ifstream f(path, std::ios::binary);
  if (!f) return false;
  std::stringstream ss;
  ss << f.rdbuf();
  text = ss.str();
  return true;
}

inline void deathCallback()
{
  stats().crashed = true;
  writeStats();
}

// harness diagnostics (the library's stdout is silenced)
inline int& diagFd() { static int fd = 2; return fd; }
inline void diag(const std::string& s)
{
  std::string t = s + "\n";
  ssize_t w = write(diagFd(), t.data(), t.size());
  (void)w;
}

struct LibExit : std::exception
{
  const char* what() const noexcept override { return "library called exit (messageAbort)"; }
};
inline void nomsg(const char*) {}
inline void exitThrows() { throw LibExit(); }

inline void silenceLibrary()
{
  fflush(stdout);
  diagFd() = dup(1);
  int nul = open("/dev/null", O_WRONLY);
  if (nul >= 0) { dup2(nul, 1); close(nul); }
  redefine_message(nomsg);
  redefine_error(nomsg);
  redefine_exit(exitThrows);
}

// ---------------------------------------------------------------- sub-properties -------
struct Sub
{
  std::string name;
  std::function<bool()> search;                         // runs rc::check
  std::function<int(const std::string&)> replay;        // 0 pass, 1 fail, 2 parse error
};
inline std::vector<Sub>& subs() { static std::vector<Sub> v; return v; }

// a failure key matches a known-finding key as a shell-style pattern ('*' matches any run of characters)
inline bool isExcluded(const std::string& key)
{
  for (auto& p : stats().exclude)
    if (fnmatch(p.c_str(), key.c_str(), 0) == 0) return true;
  return false;
}

// Run one case through the oracle, with accounting. Returns the context.
template<class C, class RunF> Ctx runCase(const C& c, RunF run, const std::string& text)
{
  Stats& s = stats();
  if (!s.outPrefix.empty()) writeFile(s.outPrefix + ".current", "sub " + s.sub + "\n" + text);
  Ctx ctx;
  try
  {
    run(c, ctx);
  }
  catch (const LibExit&)
  {
    ctx.fail("lib-exit", "the library called its exit function (messageAbort)");
  }
  catch (const rc::detail::CaseResult&)
  {
    throw;
  }
  catch (const std::exception& e)
  {
    std::string w = e.what();
    std::string key = "exception";
    if (w.find("Eigen assertion") != std::string::npos) key = "eigen-assert";
    // the failing call site is the last label of the form "at:<site>" when the harness set one
    for (auto it = ctx.labels.rbegin(); it != ctx.labels.rend(); ++it)
      if (it->rfind("at:", 0) == 0) { key += ":" + it->substr(3); break; }
    ctx.fail(key, std::string("uncaught exception: ") + w);
  }
  // failures that belong to a recorded known finding do not stop the search: the case is counted
  // as excluded (DESIGN.md 2.5) and whatever else it would have checked is skipped
  if (ctx.failed() && isExcluded(ctx.fails[0].key))
  {
    ctx.excluded = true;
    ctx.labels.push_back("excluded-known:" + ctx.fails[0].key);
    ctx.fails.clear();
  }
  return ctx;
}

template<class C, class RunF> void account(const C&, const Ctx& ctx, const std::string& text)
{
  Stats& s = stats();
  s.evaluations++;
  for (auto& l : ctx.labels) if (l.rfind("at:", 0) != 0) s.classes[l]++;
  if (ctx.excluded) { s.excluded++; return; }
  if (ctx.inconc) s.inconclusive++;
  if (ctx.nt && !ctx.inconc)
  {
    s.nontrivial++;
    s.ntsigs.insert(ctx.sig ? ctx.sig : hashText(text));
  }
  // samples: first 3, then reservoir of 5 among non-trivial ones
  if (s.samples.size() < 3) s.samples.push_back(text);
  else if (ctx.nt)
  {
    s.seenForSample++;
    if (s.samples.size() < 8) s.samples.push_back(text);
    else
    {
      // deterministic reservoir driven by the case hash (no RNG of our own)
      uint64_t h = hashText(text);
      if ((long)(h % (uint64_t)s.seenForSample) < 5) s.samples[3 + (size_t)(h % 5)] = text;
    }
  }
  if (s.evaluations < 64 || (s.evaluations & 255) == 0) writeStats(); // (workers stopped by the wall-clock cap keep what they explored)
}

template<class C, class GenF, class RunF> void registerSub(const std::string& name, GenF gen, RunF run)
{
  Sub sub;
  sub.name = name;
  sub.search = [=]() {
    bool ok = rc::check(name, [=]() {
      C c = gen();
      std::string text = toText(c);
      Ctx ctx = runCase(c, run, text);
      if (!stats().shrinking) account<C, RunF>(c, ctx, text);
      if (ctx.failed())
      {
        Stats& s = stats();
        s.shrinking = true; // everything after the first failure is shrinking
        s.failing_runs++;
        s.lastFailText = text;
        s.lastFailKey = ctx.fails[0].key;
        s.lastFailMsg = ctx.fails[0].msg;
        RC_FAIL(ctx.fails[0].key + ": " + ctx.fails[0].msg);
      }
    });
    return ok;
  };
  sub.replay = [=](const std::string& text) {
    C c;
    if (!fromText(text, c)) return 2;
    Ctx ctx = runCase(c, run, toText(c));
    Stats& s = stats();
    s.evaluations++;
    if (ctx.failed())
    {
      s.lastFailKey = ctx.fails[0].key;
      s.lastFailMsg = ctx.fails[0].msg;
      s.lastFailText = toText(c);
      diag("REPLAY-FAIL key=" + ctx.fails[0].key + " msg=" + ctx.fails[0].msg);
      return 1;
    }
    diag(std::string("REPLAY-PASS") + (ctx.inconc ? " (inconclusive)" : ""));
    return 0;
  };
  subs().push_back(sub);
}

struct Registrar
{
  template<class F> explicit Registrar(F f) { f(); }
};

#define VERIF_SUB(NAME, CASE, GEN, RUN) \
  static vf::Registrar verif_reg_##NAME([]() { vf::registerSub<CASE>(#NAME, GEN, RUN); })

inline int harnessMain(int argc, char** argv)
{
  std::string sub, out, replay, exclude;
  bool list = false;
  for (int a = 1; a < argc; a++)
  {
    std::string s = argv[a];
    auto next = [&]() { return (a + 1 < argc) ? std::string(argv[++a]) : std::string(); };
    if (s == "--sub") sub = next();
    else if (s == "--out") out = next();
    else if (s == "--replay") replay = next();
    else if (s == "--exclude") exclude = next();
    else if (s == "--list") list = true;
  }
  if (list)
  {
    for (auto& s : subs()) printf("%s\n", s.name.c_str());
    return 0;
  }
  Stats& st = stats();
  st.outPrefix = out;
  {
    std::stringstream ss(exclude);
    std::string k;
    while (std::getline(ss, k, ',')) if (!k.empty()) st.exclude.insert(k);
  }
  silenceLibrary();
  __sanitizer_set_death_callback(deathCallback);

  if (!replay.empty())
  {
    std::string text;
    if (!readFile(replay, text)) { diag("cannot read " + replay); return 2; }
    // first line: "sub <name>"
    std::string first = text.substr(0, text.find('\n'));
    std::string body = text.substr(text.find('\n') + 1);
    // skip optional comment lines "# ..."
    while (!first.empty() && first[0] == '#')
    {
      first = body.substr(0, body.find('\n'));
      body = body.substr(body.find('\n') + 1);
    }
    if (first.rfind("sub ", 0) != 0) { diag("replay file does not start with 'sub <name>'"); return 2; }
    std::string name = first.substr(4);
    // strip trailing "key ..."/"msg ..." trailer lines written in .fail files
    size_t tr = body.find("\n#trailer\n");
    if (tr != std::string::npos) body = body.substr(0, tr + 1);
    st.sub = name;
    for (auto& s : subs())
      if (s.name == name)
      {
        int rcode = s.replay(body);
        writeStats();
        if (rcode == 1 && !out.empty())
          writeFile(out + ".fail", "sub " + name + "\n" + st.lastFailText + "#trailer\nkey " + st.lastFailKey + "\nmsg " + st.lastFailMsg + "\n");
        return rcode;
      }
    diag("unknown sub-property " + name);
    return 2;
  }

  for (auto& s : subs())
    if (s.name == sub)
    {
      st.sub = sub;
      bool ok = s.search();
      writeStats();
      if (!ok)
      {
        if (!out.empty())
          writeFile(out + ".fail", "sub " + sub + "\n" + st.lastFailText + "#trailer\nkey " + st.lastFailKey + "\nmsg " + st.lastFailMsg + "\n");
        diag("SEARCH-FAIL sub=" + sub + " key=" + st.lastFailKey + " msg=" + st.lastFailMsg);
        return 1;
      }
      return 0;
    }
  diag("unknown sub-property '" + sub + "' (use --list)");
  return 2;
}


inline std::string fmt(const char* f, ...);
// ---------------------------------------------------------------- forked execution -----
// Runs the oracle of one case in a forked child under a CPU limit and a wall-clock limit, and brings the
// context (labels, flags, failures) back through a pipe.  For calls that may not terminate or may kill the
// process (recorded findings of that kind must not stop the search): the parent survives and keys the outcome
//   <keyPrefix>:no-termination   the child exceeded cpuSeconds of CPU time (or wallSeconds of wall clock)
//   <keyPrefix>:crash            the child died (sanitizer report, signal)
struct CtxWire
{
  std::vector<std::string> labels, fkeys, fmsgs;
  int nt = 0, inconc = 0;
  std::string sig;
  template<class A> void io(A& a) { a("labels", labels)("fkeys", fkeys)("fmsgs", fmsgs)("nt", nt)("inconc", inconc)("sig", sig); }
};
template<class C, class RunF> void forkedRun(const C& c, Ctx& ctx, RunF run, const std::string& keyPrefix, int cpuSeconds, int wallSeconds)
{
  int fd[2];
  if (pipe(fd) != 0) { run(c, ctx); return; }
  fflush(nullptr);
  pid_t pid = fork();
  if (pid == 0)
  {
    close(fd[0]);
    struct rlimit rl;
    rl.rlim_cur = (rlim_t)cpuSeconds;
    rl.rlim_max = (rlim_t)cpuSeconds + 5;
    setrlimit(RLIMIT_CPU, &rl);
    stats().outPrefix.clear(); // the child writes no stats / current files
    Ctx cc;
    try { run(c, cc); }
    catch (const LibExit&) { cc.fail("lib-exit", "the library called its exit function (messageAbort)"); }
    catch (const std::exception& e)
    {
      std::string w = e.what();
      std::string key = (w.find("Eigen assertion") != std::string::npos) ? "eigen-assert" : "exception";
      for (auto it = cc.labels.rbegin(); it != cc.labels.rend(); ++it)
        if (it->rfind("at:", 0) == 0) { key += ":" + it->substr(3); break; }
      cc.fail(key, std::string("uncaught exception: ") + w);
    }
    catch (...) { cc.fail("exception:unknown", "unknown exception"); }
    CtxWire wre;
    wre.labels = cc.labels;
    for (auto& f : cc.fails) { wre.fkeys.push_back(f.key); wre.fmsgs.push_back(f.msg); }
    wre.nt = cc.nt ? 1 : 0;
    wre.inconc = cc.inconc ? 1 : 0;
    wre.sig = std::to_string(cc.sig);
    std::string t = toText(wre);
    size_t off = 0;
    while (off < t.size())
    {
      ssize_t wr = write(fd[1], t.data() + off, t.size() - off);
      if (wr <= 0) break;
      off += (size_t)wr;
    }
    close(fd[1]);
    _exit(0);
  }
  close(fd[1]);
  std::string got;
  bool wallOut = false;
  {
    time_t t0 = time(nullptr); // wall clock only bounds a hung child; it never decides a property verdict by itself
    char buf[4096];
    for (;;)
    {
      struct pollfd pf;
      pf.fd = fd[0];
      pf.events = POLLIN;
      int pr = poll(&pf, 1, 1000);
      if (pr > 0)
      {
        ssize_t rd = read(fd[0], buf, sizeof buf);
        if (rd <= 0) break;
        got.append(buf, (size_t)rd);
      }
      else if (time(nullptr) - t0 > wallSeconds) { wallOut = true; kill(pid, SIGKILL); break; }
    }
  }
  close(fd[0]);
  int st = 0;
  waitpid(pid, &st, 0);
  CtxWire wre;
  if (!got.empty() && fromText(got, wre) && WIFEXITED(st) && WEXITSTATUS(st) == 0)
  {
    for (auto& l : wre.labels) ctx.labels.push_back(l);
    for (size_t i = 0; i < wre.fkeys.size(); i++) ctx.fail(wre.fkeys[i], wre.fmsgs[i]);
    ctx.nt = ctx.nt || wre.nt;
    ctx.inconc = ctx.inconc || wre.inconc;
    ctx.sig = strtoull(wre.sig.c_str(), nullptr, 10);
    return;
  }
  if (wallOut) { ctx.inconclusive("child-hung-wallclock"); return; }
  if (WIFSIGNALED(st) && (WTERMSIG(st) == SIGXCPU || WTERMSIG(st) == SIGKILL))
  {
    ctx.fail(keyPrefix + ":no-termination", fmt("still running after %d s of CPU time", cpuSeconds));
    return;
  }
  ctx.fail(keyPrefix + ":crash", fmt("the child process died (wait status 0x%x)", st));
}

// ---------------------------------------------------------------- numeric helpers ------
inline bool close(double a, double b, double rel, double abs)
{
  if (std::isnan(a) || std::isnan(b)) return std::isnan(a) && std::isnan(b);
  if (std::isinf(a) || std::isinf(b)) return a == b;
  return std::fabs(a - b) <= abs + rel * std::max(std::fabs(a), std::fabs(b));
}
inline std::string fmt(const char* f, ...)
{
  char buf[1024];
  va_list ap;
  va_start(ap, f);
  vsnprintf(buf, sizeof buf, f, ap);
  va_end(ap);
  return buf;
}

} // namespace vf

#define VERIF_MAIN() int main(int argc, char** argv) { return vf::harnessMain(argc, argv); }
