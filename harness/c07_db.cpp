// C07 — a Db stays a consistent table under any sequence of edits (DESIGN.md §5 C07).
//
// Model-based (stateful) testing.  A history is plain data (std::vector<Op>); every reference to
// existing state (column, uid, sample, role rank) is a raw integer resolved at interpretation
// time modulo the number of live candidates, so every generated and every shrunk history applies.
// Oracle: a plain table written here (columns = {uid, name, values} + per-role ordered uid lists);
// after EVERY step the library is observed through all its designation routes (name, column
// index, UID, role/rank) and compared with the table (bit-equal, NA = TEST).
//
// Sub-properties: db_seq (Db), grid_seq (DbGrid), db_gaps (role ranks beyond the count are allowed: once a
// gap exists only memory safety is checked and the table follows the library), db_hazard (db_seq plus
// arguments that the unrepaired library does not range-check: negative role rank, sample rank beyond the
// count, array given although no sample is active: must be rejected without effect).
//
// Conventions taken from the code and named as assumptions in the report:
//  * name arguments are patterns (expandList, '.' matches any character): the harness only uses names of the
//    form [A-Za-z_]+[0-9]?(\.[0-9]+)* ; multiple additions (library names radix-k) use radices of their own
//    so that a pattern matches exactly itself (5 % of the cases set ambig=1 and end after such an addition);
//  * an unknown name inside a *list* of names is skipped (pattern without match);
//  * setLocator*(.., locatorIndex >= 0) replaces the holder of that rank, locatorIndex < 0 appends;
//    indices beyond the current count create the gaps the API tolerates: only generated in 'db_gaps';
//  * "unique" locators (sel, w, code, ...) are kept to at most one column by construction;
//  * name de-duplication is a predicate: unique and requested-name followed by (.k)* suffixes;
//  * a failure whose key is excluded (known finding) does not end the history: the table is re-read from
//    the library and, if that table is a consistent one, the remaining steps are still checked.
#include "verif.hpp"

#include "Db/Db.hpp"
#include "Db/DbGrid.hpp"
#include "Enum/ELoc.hpp"
#include "Enum/ELoadBy.hpp"
#include "Enum/EOperator.hpp"
#include "Basic/Limits.hpp"
#include "Basic/VectorNumT.hpp"
#include "Basic/Utilities.hpp"
#include "Basic/Law.hpp"
#include "geoslib_define.h"

#include <memory>
#include <algorithm>
#include <sstream>

using namespace vf;
namespace {

static const int NLOC   = 29;
static const double NA  = TEST;
static const int MAXCOL = 12;
static const int MAXECH = 14;

static bool uniqueLoc(int t)
{
  static const int u[] = {8, 9, 10, 11, 13, 14, 15, 16, 17, 19, 25};
  for (int x : u)
    if (x == t) return true;
  return false;
}
static const ELoc& LOC(int t) { return (t < 0) ? ELoc::UNKNOWN : ELoc::fromValue(t); }
static const int SEL = 10;
static std::string lk(const ELoc& e) { return std::string(e.getKey()); }

// ------------------------------------------------------------------ case ---------------
struct Op
{
  int code = 0, bad = 0, a = 0, b = 0, c = 0, loc = -1, li = 0, flag = 0;
  std::string name;
  std::vector<double> vals;
  std::vector<int> idx;
  template<class A> void io(A& ar)
  {
    ar("code", code)("bad", bad)("a", a)("b", b)("c", c)("loc", loc)("li", li)("flag", flag)("name", name)("vals", vals)("idx", idx);
  }
};
struct DbCase
{
  int grid = 0, nech = 1, nx = 1, ny = 1, rank = 1, coords = 1, bySample = 0, gaps = 0, hazard = 0, ambig = 0;
  std::vector<std::string> names;
  std::vector<int> locs; // role type of each initial variable (-1 none)
  std::vector<double> tab;
  std::vector<Op> ops;
  template<class A> void io(A& a)
  {
    a("grid", grid)("nech", nech)("nx", nx)("ny", ny)("rank", rank)("coords", coords)("bySample", bySample)("gaps", gaps)(
      "hazard", hazard)("ambig", ambig)("names", names)("locs", locs)("tab", tab)("ops", ops);
  }
};

enum
{
  ADD_CONST = 0, ADD_TAB, ADD_RANDOM, SETCOLUMN, GEN_RANK, DUP_UID, COPY_UID,
  DEL_NAME, DEL_UID, DEL_COL, DEL_NAMES, DEL_LOC, DEL_UIDS, DEL_COLS, DEL_UIDRANGE,
  REN_NAME, REN_LIST, REN_UID, REN_COL, REN_LOC,
  SETCOL_UID, SETCOL_COL, SETCOLS_COL, SETVALUE, SETARRAY, SETVAL_COL, SETLOCVAR, SETROW, SETVALS_NAMES,
  LOC_NAME, LOC_UID, LOC_COL, LOCS_NAMES, LOCS_UIDRANGE, LOCS_UIDS, LOCS_COLS, LOC_CLEAR, LOC_SWITCH,
  SEL_TAB, SEL_RANKS, SEL_LIMIT, SEL_RANDOM,
  SMP_ADD, SMP_DEL, SMP_DELS,
  OBJ_CLONE, OBJ_COPY, OBJ_RELOAD,
  HZ_UPDLOC, // hazard sub only
  NOPS
};
static const char* opName(int c)
{
  static const char* n[] = {
    "addColumnsByConstant", "addColumns", "addColumnsRandom", "setColumn", "generateRank", "duplicateColumnByUID", "copyByUID",
    "deleteColumn", "deleteColumnByUID", "deleteColumnByColIdx", "deleteColumns", "deleteColumnsByLocator",
    "deleteColumnsByUID", "deleteColumnsByColIdx", "deleteColumnsByUIDRange",
    "setName", "setNameList", "setNameByUID", "setNameByColIdx", "setNameByLocator",
    "setColumnByUID", "setColumnByColIdx", "setColumnsByColIdx", "setValue", "setArray", "setValueByColIdx",
    "setLocVariable", "setArrayBySample", "setValuesByNames",
    "setLocator", "setLocatorByUID", "setLocatorByColIdx", "setLocators", "setLocatorsByUIDRange", "setLocatorsByUID",
    "setLocatorsByColIdx", "clearLocators", "switchLocator",
    "addSelection", "addSelectionByRanks", "addSelectionByLimit", "addSelectionRandom",
    "addSamples", "deleteSample", "deleteSamples",
    "clone", "copy", "reload", "updLocVariable"};
  return (c >= 0 && c < NOPS) ? n[c] : "?";
}

// ------------------------------------------------------------------ generator ----------
static const char* kBase[] = {"a", "b", "c", "d", "v", "w", "zed", "Sel", "rank", "x1", "x2", "New", "A", "a.1", "b.1", "New.1", "a.1.1", "x1.1"};
static std::string genName() { return kBase[G::i(0, (int)(sizeof(kBase) / sizeof(kBase[0])) - 1)]; }
static double genVal()
{
  int k = G::i(0, 19);
  if (k == 0) return NA;
  if (k <= 4) return (double)G::i(0, 1);
  return (double)G::i(-40, 40) / 4.;
}
static int genLoc()
{
  // X Z V F W C SEL mostly, the others from time to time, -1 = no role
  int k = G::i(0, 19);
  if (k < 3) return -1;
  if (k < 7) return 1;  // Z
  if (k < 9) return 0;  // X
  if (k < 11) return 3; // F
  if (k < 12) return SEL; // proper selections come from addSelection*
  if (k < 14) return 4;   // G
  if (k < 15) return 8;   // W
  if (k < 16) return 9;   // C
  return G::i(0, NLOC - 1);
}
static Op genOp(bool gaps, bool hazard)
{
  // weights: every family is represented in a history of ~30 steps
  static const int w[NOPS] = {
    5, 5, 2, 4, 1, 2, 2,          // additions / copies
    3, 4, 4, 2, 2, 2, 3, 2,       // deletions
    3, 2, 3, 3, 2,                // renamings
    3, 3, 2, 3, 3, 3, 3, 2, 2,    // values
    4, 5, 4, 3, 3, 3, 4, 2, 2,    // locators
    3, 2, 2, 1,                   // selections
    3, 3, 2,                      // samples
    2, 1, 2,                      // object
    0};
  static int total = 0;
  if (total == 0)
    for (int k = 0; k < NOPS; k++) total += w[k];
  Op o;
  if (hazard && G::pct(25))
  {
    o.code = G::pick<int>({SETLOCVAR, SEL_RANKS, HZ_UPDLOC, ADD_TAB});
    o.bad  = 3;
  }
  else
  {
    int t = G::i(0, total - 1);
    for (int k = 0; k < NOPS; k++)
    {
      if (t < w[k]) { o.code = k; break; }
      t -= w[k];
    }
    o.bad = G::pct(12) ? G::i(1, 2) : 0;
  }
  o.a    = G::i(0, 99);
  o.b    = G::i(0, 99);
  o.c    = G::i(0, 99);
  o.loc  = genLoc();
  o.li   = gaps ? G::i(-1, 6) : G::pick<int>({-1, -1, 0, 0, 1, 2, 3});
  o.flag = G::i(0, 15);
  o.name = genName();
  int nv = G::i(1, 8);
  for (int k = 0; k < nv; k++) o.vals.push_back(genVal());
  int ni = G::i(1, 4);
  for (int k = 0; k < ni; k++) o.idx.push_back(G::i(0, 99));
  return o;
}
static DbCase genCase(int grid, bool gaps, bool hazard)
{
  DbCase c;
  c.grid   = grid;
  c.gaps   = gaps;
  c.hazard = hazard;
  c.ambig  = G::i(0, 99) >= 95; // shrinks towards 0
  if (grid)
  {
    c.nx   = G::i(1, 4);
    c.ny   = G::i(1, 3);
    c.nech = c.nx * c.ny;
    c.coords = G::pct(80);
  }
  else
    c.nech = G::sz(1, 8);
  c.rank     = G::pct(70);
  c.bySample = G::b();
  int nvar   = G::i(0, 4);
  for (int k = 0; k < nvar; k++)
  {
    c.names.push_back(genName());
    c.locs.push_back(G::pick<int>({-1, -1, 0, 1, 1, 3, 2}));
  }
  for (int k = 0; k < nvar * c.nech; k++) c.tab.push_back(genVal());
  int nops = G::sz(1, 60);
  for (int k = 0; k < nops; k++) c.ops.push_back(genOp(gaps, hazard));
  return c;
}
static DbCase genDb() { return genCase(0, false, false); }
static DbCase genGrid() { return genCase(1, false, false); }
static DbCase genGaps() { return genCase(G::pct(30), true, false); }
static DbCase genHazard() { return genCase(G::pct(30), false, true); }

// ------------------------------------------------------------------ model --------------
struct MCol
{
  int uid = 0;
  std::string name;
  std::vector<double> v;
  bool pending = false; // name to be adopted (de-duplication is a predicate)
  bool inexact = false; // random values: not exactly representable in a neutral file
};
struct Tbl
{
  bool grid = false;
  int nech = 0, nuid = 0;
  std::vector<MCol> cols;
  std::vector<std::vector<int>> roles = std::vector<std::vector<int>>(NLOC);
  std::vector<int> dead;
  bool relaxOthers = false;

  int ncol() const { return (int)cols.size(); }
  int colOfUid(int uid) const
  {
    for (int i = 0; i < ncol(); i++)
      if (cols[(size_t)i].uid == uid) return i;
    return -1;
  }
  int colOfName(const std::string& s) const
  {
    for (int i = 0; i < ncol(); i++)
      if (cols[(size_t)i].name == s) return i;
    return -1;
  }
  bool inRole(int uid, int t) const { return std::find(roles[(size_t)t].begin(), roles[(size_t)t].end(), uid) != roles[(size_t)t].end(); }
  void dropRoles(int uid)
  {
    for (auto& l : roles)
    {
      auto it = std::find(l.begin(), l.end(), uid);
      if (it != l.end()) l.erase(it);
    }
  }
  // returns true when a gap (rank beyond the count) has been created
  bool setRole(int uid, int t, int idx)
  {
    dropRoles(uid);
    if (t < 0) return false;
    auto& l = roles[(size_t)t];
    if (idx < 0) idx = (int)l.size();
    bool gap = idx > (int)l.size();
    if (idx >= (int)l.size()) l.resize((size_t)idx + 1, 0);
    l[(size_t)idx] = uid;
    return gap;
  }
  bool setRoles(const std::vector<int>& uids, int t, int idx, bool clean)
  {
    if (clean && t >= 0) roles[(size_t)t].clear();
    bool gap  = false;
    int start = (t >= 0 && idx < 0) ? -1 : idx;
    for (size_t i = 0; i < uids.size(); i++) gap = setRole(uids[i], t, (start < 0) ? -1 : start + (int)i) || gap;
    return gap;
  }
  bool roleOf(int uid, int& t, int& r) const
  {
    for (int k = 0; k < NLOC; k++)
      for (size_t j = 0; j < roles[(size_t)k].size(); j++)
        if (roles[(size_t)k][j] == uid) { t = k; r = (int)j; return true; }
    t = -1; r = -1;
    return false;
  }
  void delCol(int icol)
  {
    int uid = cols[(size_t)icol].uid;
    dropRoles(uid);
    dead.push_back(uid);
    cols.erase(cols.begin() + icol);
  }
  int selCol() const
  {
    if (roles[SEL].empty()) return -1;
    return colOfUid(roles[SEL][0]);
  }
  // 0 no selection, 1 binary, 2 binary + NA, 3 other values
  int selKind() const
  {
    int s = selCol();
    if (s < 0) return 0;
    int kind = 1;
    for (double x : cols[(size_t)s].v)
    {
      if (x == 0. || x == 1.) continue;
      if (x == NA) { if (kind < 2) kind = 2; }
      else kind = 3;
    }
    return kind;
  }
  // samples written/read when useSel is requested (only used when selKind() <= 1)
  std::vector<int> mask(bool useSel) const
  {
    std::vector<int> mk((size_t)nech, 1);
    int s = selCol();
    if (useSel && s >= 0)
      for (int i = 0; i < nech; i++) mk[(size_t)i] = cols[(size_t)s].v[(size_t)i] == 1.;
    return mk;
  }
  int addCol(const std::string& base, const std::vector<double>& v)
  {
    MCol c;
    c.uid     = nuid++;
    c.name    = base;
    c.v       = v;
    c.pending = true;
    cols.push_back(c);
    return c.uid;
  }
  // new columns (names radix or radix.k), values, role list as setLocatorsByUID(nadd, first, t, idx)
  bool addCols(int nadd, const std::string& radix, const std::vector<std::vector<double>>& v, int t, int idx, int& first)
  {
    first = nuid;
    std::vector<int> uids;
    for (int i = 0; i < nadd; i++)
    {
      std::string nm = (nadd == 1) ? radix : radix + "-" + std::to_string(i + 1); // generateMultipleNames
      uids.push_back(addCol(nm, v[(size_t)i]));
    }
    if (t < 0) return false;
    return setRoles(uids, t, idx, false);
  }
  bool invariants() const
  {
    std::set<std::string> s;
    for (auto& c : cols) s.insert(c.name);
    if ((int)s.size() != ncol()) return false;
    std::set<int> seen;
    for (auto& l : roles)
      for (int u : l)
      {
        if (colOfUid(u) < 0) return false;
        if (!seen.insert(u).second) return false;
      }
    for (int t = 0; t < NLOC; t++)
      if (uniqueLoc(t) && roles[(size_t)t].size() > 1) return false;
    return true;
  }
};

static bool derivedName(const std::string& s, const std::string& base)
{
  if (s.size() < base.size() || s.compare(0, base.size(), base) != 0) return false;
  size_t p = base.size();
  while (p < s.size())
  {
    if (s[p] != '.') return false;
    p++;
    size_t q = p;
    while (q < s.size() && isdigit((unsigned char)s[q])) q++;
    if (q == p) return false;
    p = q;
  }
  return true;
}

// ------------------------------------------------------------------ run state ----------
struct R
{
  Tbl m;
  std::unique_ptr<Db> db;
  Ctx* ctx      = nullptr;
  bool gapsOk   = false;
  bool ambig    = false; // radix of multiple additions used as given (names X-k may meet X.k)
  bool tainted  = false; // a gap exists: memory safety only from now on
  bool stop     = false; // a failure that is not a known finding: the case ends
  bool giveUp   = false; // state no longer comparable after a known finding
  bool endAfterStep = false;
  bool seenNonBinary = false;
  std::string opn;
  int step = -1;
  std::vector<Failure> deferred;
  bool sawDelete = false, nt = false;

  // returns false always (convenience)
  bool fail(const std::string& what, const std::string& msg)
  {
    std::string key = opn + ":" + what;
    // variants that name a root-cause class of their own come first, so that one prefix covers all entry points
    for (const char* cls : {"#next-self", "#stale", "#with-stale"})
    {
      size_t p = opn.find(cls);
      if (p != std::string::npos && opn.size() == p + strlen(cls)) key = std::string(cls + 1) + ":" + opn.substr(0, p) + ":" + what;
    }
    if (what.rfind("@", 0) == 0) key = what.substr(1); // observer defects carry their own key
    Failure f{key, fmt("step %d (%s): ", step, opn.c_str()) + msg};
    if (isExcluded(key))
      deferred.push_back(f);
    else
    {
      ctx->fails.push_back(f);
      stop = true;
    }
    return false;
  }
};

static void adopt(Tbl& m, const Db& db)
{
  m.nech = db.getSampleNumber(false);
  m.nuid = db.getUIDMaxNumber();
  int nc = db.getColumnNumber();
  std::vector<MCol> old = m.cols;
  m.cols.clear();
  m.dead.clear();
  VectorString nm = db.getAllNames();
  for (int i = 0; i < nc; i++)
  {
    MCol c;
    c.uid  = db.getUIDByColIdx(i);
    c.name = (i < (int)nm.size()) ? nm[i] : std::string();
    VectorDouble v = db.getColumnByColIdx(i, false, false);
    c.v.assign(v.begin(), v.end());
    c.v.resize((size_t)m.nech, NA);
    for (auto& oc : old)
      if (oc.uid == c.uid) c.inexact = oc.inexact;
    m.cols.push_back(c);
  }
  for (int u = 0; u < m.nuid; u++)
    if (m.colOfUid(u) < 0) m.dead.push_back(u);
  for (int t = 0; t < NLOC; t++)
  {
    int n = db.getLocatorNumber(LOC(t));
    m.roles[(size_t)t].clear();
    for (int k = 0; k < n; k++) m.roles[(size_t)t].push_back(db.getUIDByLocator(LOC(t), k));
  }
  m.relaxOthers = false;
}

static bool sameVec(const VectorDouble& a, const std::vector<double>& b)
{
  if (a.size() != b.size()) return false;
  for (size_t i = 0; i < b.size(); i++)
    if (!(a[i] == b[i])) return false;
  return true;
}
static std::string showVec(const VectorDouble& a)
{
  std::string s = "[";
  for (size_t i = 0; i < a.size() && i < 8; i++) s += fmt("%g ", a[i]);
  return s + (a.size() > 8 ? "...]" : "]");
}
static std::string showVec(const std::vector<double>& a) { return showVec(VectorDouble(a.begin(), a.end())); }

// memory-safety only: walk through every observer, compare nothing
static void observeOnly(R& r)
{
  Db& db = *r.db;
  r.ctx->at(r.opn + ":observe");
  int nc = db.getColumnNumber();
  VectorString nm = db.getAllNames();
  volatile double sink = 0;
  for (int i = 0; i < nc; i++)
  {
    sink += (double)db.getColumnByColIdx(i, true, true).size();
    int uid = db.getUIDByColIdx(i);
    sink += (double)db.getColumnByUID(uid).size();
    if (i < (int)nm.size()) sink += (double)db.getColumn(nm[i]).size();
    ELoc lt;
    int li;
    (void)db.getLocatorByColIdx(i, &lt, &li);
  }
  for (int t = 0; t < NLOC; t++)
  {
    int n = db.getLocatorNumber(LOC(t));
    for (int k = 0; k < n; k++)
    {
      sink += db.getUIDByLocator(LOC(t), k);
      sink += db.getColIdxByLocator(LOC(t), k);
      sink += (double)db.getColumnByLocator(LOC(t), k).size();
      sink += (double)db.getNameByLocator(LOC(t), k).size();
    }
    sink += (double)db.getNamesByLocator(LOC(t)).size();
  }
  sink += db.getSampleNumber(true);
  (void)db.getAllUIDs();
  (void)sink;
}

// The oracle: compare every designation route of the library with the table.
static bool checkState(R& r)
{
  Db& db   = *r.db;
  Tbl& m = r.m;
  if (r.tainted)
  {
    // memory safety only; the table follows the library (gap slots included) so that the next
    // operation still receives arguments that are valid for the library's state
    observeOnly(r);
    adopt(m, db);
    return true;
  }
  r.ctx->at(r.opn + ":observe");
  // --- counts
  if (db.getColumnNumber() != m.ncol()) return r.fail("ncol", fmt("getColumnNumber %d, table %d", db.getColumnNumber(), m.ncol()));
  if (db.getSampleNumber(false) != m.nech) return r.fail("nech", fmt("getSampleNumber %d, table %d", db.getSampleNumber(false), m.nech));
  if (db.getUIDMaxNumber() != m.nuid) return r.fail("nuid", fmt("getUIDMaxNumber %d, table %d", db.getUIDMaxNumber(), m.nuid));
  if ((long)db.getArrays().size() != (long)m.ncol() * m.nech && (long)m.ncol() * m.nech > 0)
    return r.fail("array-size", fmt("internal array %ld, expected %ld", (long)db.getArrays().size(), (long)m.ncol() * m.nech));
  // --- names
  VectorString nm = db.getAllNames();
  if ((int)nm.size() != m.ncol()) return r.fail("names", fmt("getAllNames has %d entries for %d columns", (int)nm.size(), m.ncol()));
  for (int i = 0; i < m.ncol(); i++)
  {
    MCol& c = m.cols[(size_t)i];
    if (c.pending || m.relaxOthers)
    {
      if (!derivedName(nm[i], c.name))
        return r.fail("names", fmt("column %d is named '%s', requested '%s'", i, nm[i].c_str(), c.name.c_str()));
      if (!c.pending && nm[i] != c.name) r.ctx->label("obs:untouched-column-renamed");
      c.name    = nm[i];
      c.pending = false;
    }
    else if (nm[i] != c.name)
      return r.fail("names", fmt("column %d is named '%s', expected '%s'", i, nm[i].c_str(), c.name.c_str()));
  }
  m.relaxOthers = false;
  {
    std::set<std::string> s;
    for (auto& c : m.cols)
      if (!s.insert(c.name).second) return r.fail("names-unique", fmt("two columns are named '%s'", c.name.c_str()));
  }
  // a name is a pattern for the library ('.' matches any character): a name that matches another column as
  // well designates nothing any more.  Only possible in cases generated with ambig=1 (library-made X.1 and X-1).
  for (int i = 0; i < m.ncol(); i++)
    for (int j = 0; j < m.ncol(); j++)
    {
      const std::string &pa = m.cols[(size_t)i].name, &nb = m.cols[(size_t)j].name;
      if (i == j || pa.size() != nb.size()) continue;
      bool match = true;
      for (size_t k = 0; k < pa.size() && match; k++) match = pa[k] == '.' || pa[k] == nb[k];
      if (match)
      {
        r.fail("@name-pattern:ambiguous", fmt("the name '%s' given by the library also matches column '%s': getUID('%s')=%d", pa.c_str(), nb.c_str(), pa.c_str(), db.getUID(pa)));
        r.giveUp = true;
        return false;
      }
    }
  // --- identifiers
  {
    VectorInt all = db.getAllUIDs();
    std::vector<int> exp;
    for (auto& c : m.cols) exp.push_back(c.uid);
    std::sort(exp.begin(), exp.end());
    if (all.size() != exp.size() || !std::equal(exp.begin(), exp.end(), all.begin())) return r.fail("uid-map", "getAllUIDs differs from the live identifiers");
  }
  for (int i = 0; i < m.ncol(); i++)
  {
    const MCol& c = m.cols[(size_t)i];
    if (db.getUIDByColIdx(i) != c.uid) return r.fail("uid-map", fmt("getUIDByColIdx(%d)=%d, table %d", i, db.getUIDByColIdx(i), c.uid));
    if (db.getColIdxByUID(c.uid) != i) return r.fail("uid-map", fmt("getColIdxByUID(%d)=%d, table %d", c.uid, db.getColIdxByUID(c.uid), i));
    if (db.getColIdx(c.name) != i) return r.fail("uid-map", fmt("getColIdx('%s')=%d, table %d", c.name.c_str(), db.getColIdx(c.name), i));
    if (db.getUID(c.name) != c.uid) return r.fail("uid-map", fmt("getUID('%s')=%d, table %d", c.name.c_str(), db.getUID(c.name), c.uid));
    if (db.getNameByColIdx(i) != c.name) return r.fail("uid-map", fmt("getNameByColIdx(%d)='%s'", i, db.getNameByColIdx(i).c_str()));
    if (db.getNameByUID(c.uid) != c.name) return r.fail("uid-map", fmt("getNameByUID(%d)='%s'", c.uid, db.getNameByUID(c.uid).c_str()));
  }
  // --- values through the three direct routes
  for (int i = 0; i < m.ncol(); i++)
  {
    const MCol& c = m.cols[(size_t)i];
    VectorDouble v1 = db.getColumnByColIdx(i, false, false);
    if (!sameVec(v1, c.v)) return r.fail("values:colidx", fmt("column %d '%s': %s, table %s", i, c.name.c_str(), showVec(v1).c_str(), showVec(c.v).c_str()));
    VectorDouble v2 = db.getColumnByUID(c.uid, false, false);
    if (!sameVec(v2, c.v)) return r.fail("values:uid", fmt("uid %d '%s': %s, table %s", c.uid, c.name.c_str(), showVec(v2).c_str(), showVec(c.v).c_str()));
    VectorDouble v3 = db.getColumn(c.name, false, false);
    if (!sameVec(v3, c.v)) return r.fail("values:name", fmt("name '%s': %s, table %s", c.name.c_str(), showVec(v3).c_str(), showVec(c.v).c_str()));
    for (int e = 0; e < m.nech; e++)
    {
      double x = c.v[(size_t)e];
      if (!(db.getArray(e, c.uid) == x)) return r.fail("values:cell", fmt("getArray(%d,%d)=%g, table %g", e, c.uid, db.getArray(e, c.uid), x));
      if (!(db.getValueByColIdx(e, i) == x)) return r.fail("values:cell", fmt("getValueByColIdx(%d,%d)=%g, table %g", e, i, db.getValueByColIdx(e, i), x));
      // by-name access compiles a regular expression per call: one rotating sample per step
      if (e == (r.step + 1 + i) % m.nech && !(db.getValue(c.name, e) == x)) return r.fail("values:cell", fmt("getValue('%s',%d)=%g, table %g", c.name.c_str(), e, db.getValue(c.name, e), x));
    }
  }
  // --- roles
  for (int t = 0; t < NLOC; t++)
    for (int k = 0, n = db.getLocatorNumber(LOC(t)); k < n; k++)
      if (db.getColIdxByUID(db.getUIDByLocator(LOC(t), k)) < 0)
        return r.fail("roles:dead-uid", fmt("role %s rank %d points to identifier %d which has no column", lk(LOC(t)).c_str(), k, db.getUIDByLocator(LOC(t), k)));
  for (int t = 0; t < NLOC; t++)
  {
    const auto& l = m.roles[(size_t)t];
    int n         = db.getLocatorNumber(LOC(t));
    if (n != (int)l.size())
      return r.fail("roles:count", fmt("%d columns hold role %s, table %d", n, lk(LOC(t)).c_str(), (int)l.size()));
    if (db.getLocNumber(LOC(t)) != n || db.hasLocator(LOC(t)) != (n > 0)) return r.fail("roles:count", "getLocNumber/hasLocator disagree with getLocatorNumber");
    VectorString nl = db.getNamesByLocator(LOC(t));
    VectorInt ul    = db.getUIDsByLocator(LOC(t));
    VectorInt cl    = db.getColIdxsByLocator(LOC(t));
    if ((int)nl.size() != n || (int)ul.size() != n || (int)cl.size() != n) return r.fail("roles:count", "list getters by locator have another length");
    for (int k = 0; k < n; k++)
    {
      int uid = db.getUIDByLocator(LOC(t), k);
      int col = db.getColIdxByLocator(LOC(t), k);
      if (col < 0 || db.getColIdxByUID(uid) < 0)
        return r.fail("roles:dead-uid", fmt("role %s rank %d points to identifier %d which has no column", lk(LOC(t)).c_str(), k, uid));
      if (uid != l[(size_t)k])
        return r.fail("roles:uid", fmt("role %s rank %d is held by uid %d ('%s'), table uid %d ('%s')", lk(LOC(t)).c_str(), k, uid,
                                       db.getNameByUID(uid).c_str(), l[(size_t)k], m.cols[(size_t)m.colOfUid(l[(size_t)k])].name.c_str()));
      int mc = m.colOfUid(uid);
      if (col != mc || ul[k] != uid || cl[k] != mc || nl[k] != m.cols[(size_t)mc].name || db.getNameByLocator(LOC(t), k) != m.cols[(size_t)mc].name)
        return r.fail("roles:route", fmt("role %s rank %d: column index / name / uid getters disagree", lk(LOC(t)).c_str(), k));
      VectorDouble v = db.getColumnByLocator(LOC(t), k, false, false);
      if (!sameVec(v, m.cols[(size_t)mc].v)) return r.fail("values:locator", fmt("role %s rank %d: %s, table %s", lk(LOC(t)).c_str(), k, showVec(v).c_str(), showVec(m.cols[(size_t)mc].v).c_str()));
      if (m.nech > 0 && !(db.getLocVariable(LOC(t), 0, k) == m.cols[(size_t)mc].v[0])) return r.fail("values:locator", "getLocVariable differs");
    }
  }
  for (int i = 0; i < m.ncol(); i++)
  {
    const MCol& c = m.cols[(size_t)i];
    int mt, mr;
    bool mh = m.roleOf(c.uid, mt, mr);
    ELoc lt;
    int li   = -7;
    bool has = db.getLocatorByColIdx(i, &lt, &li);
    if (has != mh || (mh && (lt.getValue() != mt || li != mr)))
      return r.fail("roles:bycol", fmt("getLocatorByColIdx(%d) = (%s,%d), table (%s,%d)", i, lk(lt).c_str(), li, lk(LOC(mt)).c_str(), mr));
    ELoc lt2, lt3;
    int li2 = -7, li3 = -7;
    bool h2 = db.getLocatorByUID(c.uid, &lt2, &li2);
    bool h3 = db.getLocator(c.name, &lt3, &li3);
    if (h2 != mh || h3 != mh || (mh && (lt2.getValue() != mt || li2 != mr || lt3.getValue() != mt || li3 != mr)))
      return r.fail("roles:bycol", fmt("getLocatorByUID/getLocator of column %d disagree with (%s,%d)", i, lk(LOC(mt)).c_str(), mr));
    if (mh && !db.hasLocatorDefined(c.name, LOC(mt), mr)) return r.fail("roles:bycol", "hasLocatorDefined denies the role");
  }
  // --- stale identifiers address nothing
  {
    std::vector<int> probe;
    for (size_t k = 0; k < m.dead.size(); k++)
      if (k + 6 >= m.dead.size()) probe.push_back(m.dead[k]);
    probe.push_back(m.nuid);
    probe.push_back(-1);
    for (int d : probe)
    {
      if (db.getColIdxByUID(d) != -1) return r.fail("dead-uid", fmt("getColIdxByUID(%d)=%d for an identifier without column", d, db.getColIdxByUID(d)));
      if (!db.getColumnByUID(d).empty()) return r.fail("dead-uid", fmt("getColumnByUID(%d) returns values", d));
      if (!db.getNameByUID(d).empty()) return r.fail("dead-uid", fmt("getNameByUID(%d) returns '%s'", d, db.getNameByUID(d).c_str()));
      if (m.nech > 0 && !(db.getArray(0, d) == NA)) return r.fail("dead-uid", fmt("getArray(0,%d) returns a value", d));
      if (db.isUIDDefined(d)) r.fail("@isUIDDefined:dead-true", fmt("step %d: isUIDDefined(%d) is true for an identifier without column", r.step, d));
    }
    for (auto& c : m.cols)
      if (!db.isUIDDefined(c.uid))
      {
        r.fail("@isUIDDefined:live-false", fmt("isUIDDefined(%d) is false although column %d ('%s') carries this identifier", c.uid, m.colOfUid(c.uid), c.name.c_str()));
        break;
      }
    if (r.stop) return false;
  }
  // --- active samples
  {
    int kind = m.selKind();
    int s    = m.selCol();
    if (kind <= 2)
    {
      int nact = 0, nna = 0;
      for (int e = 0; e < m.nech; e++)
      {
        double x = (s >= 0) ? m.cols[(size_t)s].v[(size_t)e] : 1.;
        if (x == NA) nna++;
        else if (x != 0.) nact++;
      }
      int byIs = 0;
      for (int e = 0; e < m.nech; e++) byIs += db.isActive(e) ? 1 : 0;
      if (byIs != nact) return r.fail("active", fmt("%d samples are isActive(), the selection column marks %d", byIs, nact));
      int n1 = db.getSampleNumber(true);
      if (nna == 0)
      {
        if (n1 != nact) return r.fail("active", fmt("getSampleNumber(true)=%d, the selection column marks %d", n1, nact));
        if (m.ncol() > 0)
        {
          const MCol& c  = m.cols[(size_t)(r.step < 0 ? 0 : r.step % m.ncol())];
          VectorDouble v = db.getColumn(c.name, true, true);
          std::vector<double> e1;
          auto mk = m.mask(true);
          for (int e = 0; e < m.nech; e++)
            if (mk[(size_t)e]) e1.push_back(c.v[(size_t)e]);
          if (!sameVec(v, e1)) return r.fail("active", fmt("getColumn('%s',useSel) = %s, expected %s", c.name.c_str(), showVec(v).c_str(), showVec(e1).c_str()));
        }
      }
      else if (n1 != nact)
      {
        r.fail("@active-count:na-sel", fmt("getSampleNumber(true)=%d but %d samples are isActive() (selection column holds %d NA)", n1, byIs, nna));
        if (r.stop) return false;
      }
    }
    else if (!r.seenNonBinary)
    {
      r.seenNonBinary = true;
      r.ctx->label("sel:nonbinary");
    }
  }
  if (m.grid && !db.isConsistent()) return r.fail("grid-consistent", "DbGrid::isConsistent() is false");
  return true;
}

// ------------------------------------------------------------------ interpreter --------
struct Interp
{
  R& r;
  const Op& o;
  Tbl& m;
  Db& db;
  Interp(R& rr, const Op& oo) : r(rr), o(oo), m(rr.m), db(*rr.db) {}

  double V(int j) const { return o.vals.empty() ? 0. : o.vals[(size_t)j % o.vals.size()]; }
  VectorDouble tab(int n, int off = 0) const
  {
    VectorDouble t((size_t)n);
    for (int j = 0; j < n; j++) t[(size_t)j] = V(off + j);
    return t;
  }
  int col(int k) const { return m.ncol() > 0 ? k % m.ncol() : -1; }
  int ech(int k) const { return m.nech > 0 ? k % m.nech : -1; }
  int badEch(int k) const { return (k % 3 == 0) ? -1 : m.nech + k % 3 - 1; }
  int badCol(int k) const { return (k % 3 == 0) ? -1 : m.ncol() + k % 3 - 1; }
  // a deleted identifier when there is one (tag #stale), else an out-of-range one (tag #oor)
  int badUid(int k, std::string& tag) const
  {
    if (!m.dead.empty() && k % 4 != 3)
    {
      tag = "#stale";
      return m.dead[(size_t)k % m.dead.size()];
    }
    tag = "#oor";
    return (k % 2) ? -1 : m.nuid + k % 3;
  }
  std::vector<int> distinctCols(int maxn) const
  {
    std::vector<int> v;
    if (m.ncol() == 0) return v;
    for (int x : o.idx)
    {
      int c = x % m.ncol();
      if (std::find(v.begin(), v.end(), c) == v.end()) v.push_back(c);
      if ((int)v.size() >= maxn) break;
    }
    return v;
  }
  std::vector<int> distinctEchs(int maxn) const
  {
    std::vector<int> v;
    if (m.nech == 0) return v;
    for (int x : o.idx)
    {
      int c = x % m.nech;
      if (std::find(v.begin(), v.end(), c) == v.end()) v.push_back(c);
      if ((int)v.size() >= maxn) break;
    }
    return v;
  }
  // radix of a multiple addition: the library names the columns radix-k, and a name is a pattern in which '.'
  // matches '-': X-1 next to X.1 (de-duplication suffix) makes the latter ambiguous.  Unless the case asks for
  // it, multiple additions use radices that no other operation uses.
  std::string radix(int nadd) const
  {
    if (nadd > 1 && r.ambig)
    {
      // names X-k now exist: patterns with '.' supplied later would no longer designate themselves only,
      // the history ends after this step (the step itself is checked, ambiguity included)
      r.endAfterStep = true;
      return o.name;
    }
    if (nadd <= 1) return o.name;
    std::string s = "M";
    for (char ch : o.name)
      if (isalpha((unsigned char)ch)) s.push_back(ch);
    return s;
  }
  bool useSelOK() const { return m.selKind() <= 1; }
  int nact(bool useSel) const
  {
    auto mk = m.mask(useSel);
    int n   = 0;
    for (int x : mk) n += x;
    return n;
  }
  // role rank acceptable without creating a gap (main sub-properties) ; uid = column being assigned (-1: new)
  int fixIdx(int t, int li, int uid) const
  {
    if (t < 0) return 0;
    if (uniqueLoc(t)) return 0;
    if (r.gapsOk) return li;
    if (li < 0) return -1;
    int cnt = (int)m.roles[(size_t)t].size();
    if (uid >= 0 && m.inRole(uid, t)) cnt--;
    return std::min(li, cnt);
  }
  void noteGap(bool gap)
  {
    if (gap)
    {
      r.tainted = true;
      r.ctx->label("class:gap");
    }
  }
  // multi-column role assignment: (uids, t, li, clean) adjusted so that the main sub-properties never create a gap
  void fixMulti(std::vector<int>& uids, int t, int& li, bool& clean) const
  {
    if (t < 0) { li = 0; return; }
    if (uniqueLoc(t))
    {
      if (uids.size() > 1) uids.resize(1);
      li    = 0;
      clean = true;
      return;
    }
    if (r.gapsOk) return;
    Tbl tmp = m;
    if (li >= 0) li = std::min(li, (int)m.roles[(size_t)t].size());
    if (tmp.setRoles(uids, t, li, clean))
    {
      clean = true;
      li    = 0;
    }
  }
  bool anyInRole(const std::vector<int>& uids, int t) const
  {
    if (t < 0) return false;
    for (int u : uids)
      if (m.inRole(u, t)) return true;
    return false;
  }
  void retCheck(long got, long exp, const char* what)
  {
    if (got != exp) r.fail("retval", fmt("%s returned %ld, expected %ld", what, got, exp));
  }
  void addressed() { if (r.sawDelete) r.nt = true; }

  // write 'tab' into column ic the way setColumnByUID does (masked samples untouched)
  void writeCol(int ic, const VectorDouble& t, int off, bool useSel)
  {
    auto mk = m.mask(useSel);
    int j   = off;
    for (int e = 0; e < m.nech; e++)
      if (mk[(size_t)e]) m.cols[(size_t)ic].v[(size_t)e] = t[(size_t)j++];
  }
  // setColumnByColIdx: masked samples are either left or set to NA (undocumented): adopt after checking
  bool writeColByIdx(int ic, const VectorDouble& t, int off, bool useSel)
  {
    auto mk = m.mask(useSel);
    int j   = off;
    for (int e = 0; e < m.nech; e++)
    {
      double& cell = m.cols[(size_t)ic].v[(size_t)e];
      if (mk[(size_t)e])
        cell = t[(size_t)j++];
      else
      {
        double got = db.getValueByColIdx(e, ic);
        if (!(got == cell) && !(got == NA)) return r.fail("values:masked", fmt("masked sample %d of column %d became %g (was %g)", e, ic, got, cell));
        cell = got;
      }
    }
    return true;
  }

  void run();
};

void Interp::run()
{
  const int code = o.code;
  std::string tag;
  r.opn = opName(code);
  r.ctx->at(r.opn);
  auto setTag = [&](const std::string& t) {
    r.opn = std::string(opName(code)) + t;
    r.ctx->at(r.opn);
  };
  auto skip = [&]() { r.ctx->label("skipped"); };

  switch (code)
  {
    // ================================================================ additions
    case ADD_CONST:
    {
      int t    = o.loc;
      int nadd = 1 + o.a % 3;
      if (t >= 0 && uniqueLoc(t)) nadd = 1;
      if (m.ncol() + nadd > MAXCOL) return skip();
      int li = fixIdx(t, o.li, -1);
      if (o.bad)
      {
        setTag("#nadd<=0");
        int ret = db.addColumnsByConstant(-(o.b % 2), V(0), o.name, LOC(t), li);
        retCheck(ret, -1, "addColumnsByConstant(nadd<=0)");
        return;
      }
      std::string rad = radix(nadd);
      int ret         = db.addColumnsByConstant(nadd, V(0), rad, LOC(t), li);
      std::vector<std::vector<double>> v((size_t)nadd, std::vector<double>((size_t)m.nech, V(0)));
      int first;
      noteGap(m.addCols(nadd, rad, v, t, li, first));
      retCheck(ret, first, "addColumnsByConstant");
      return;
    }
    case ADD_TAB:
    {
      int t    = o.loc;
      int nvar = 1 + o.a % 3;
      if (t >= 0 && uniqueLoc(t)) nvar = 1;
      if (m.ncol() + nvar > MAXCOL) return skip();
      int li      = fixIdx(t, o.li, -1);
      bool useSel = (o.flag & 1) && useSelOK();
      int na      = nact(useSel);
      double vini = (o.flag & 2) ? NA : 0.;
      if (o.bad == 3)
      { // hazard: non-empty array although no sample is active
        if (!(useSelOK() && m.selCol() >= 0 && nact(true) == 0)) return skip();
        setTag("#no-active");
        int nc = db.getColumnNumber();
        (void)db.addColumns(tab(2), o.name, LOC(t), li, true, vini, 1);
        if (db.getColumnNumber() != nc) r.fail("effect", "a column was added from an array that matches no active sample");
        return;
      }
      if (na == 0)
      {
        setTag("#empty");
        int ret = db.addColumns(VectorDouble(), o.name, LOC(t), li, useSel, vini, nvar);
        retCheck(ret, 0, "addColumns(empty)");
        return;
      }
      if (o.bad)
      {
        if (na < 2) return skip();
        setTag("#size");
        int ret = db.addColumns(tab(nvar * na + 1 + o.b % (na - 1)), o.name, LOC(t), li, useSel, vini, nvar);
        retCheck(ret, 1, "addColumns(wrong size)");
        return;
      }
      VectorDouble tb = tab(nvar * na);
      std::string rad = radix(nvar);
      if (getenv("C07_DEBUG"))
      {
        int sc = m.selCol();
        diag(fmt("model sel col %d name %s value %g ; library: nsel %d name %s value %g getSelection %g", sc, sc >= 0 ? m.cols[(size_t)sc].name.c_str() : "-", sc >= 0 ? m.cols[(size_t)sc].v[0] : -1.,
                 db.getLocatorNumber(ELoc::SEL), db.getLocatorNumber(ELoc::SEL) > 0 ? db.getNameByLocator(ELoc::SEL, 0).c_str() : "-", db.getLocatorNumber(ELoc::SEL) > 0 ? db.getFromLocator(ELoc::SEL, 0, 0) : -1., (double)db.getSelection(0)));
      }
      if (getenv("C07_DEBUG")) diag(fmt("ADD_TAB useSel %d model active %d library active %d nech %d/%d ncol %d", (int)useSel, na, db.getSampleNumber(useSel), m.nech, db.getSampleNumber(false), db.getColumnNumber()));
      int ret         = db.addColumns(tb, rad, LOC(t), li, useSel, vini, nvar);
      std::vector<std::vector<double>> v((size_t)nvar, std::vector<double>((size_t)m.nech, vini));
      int first;
      noteGap(m.addCols(nvar, rad, v, t, li, first));
      for (int k = 0; k < nvar; k++) writeCol(m.colOfUid(first + k), tb, k * na, useSel);
      retCheck(ret, first, "addColumns");
      return;
    }
    case ADD_RANDOM:
    {
      int t    = o.loc;
      int nadd = 1 + o.a % 2;
      if (t >= 0 && uniqueLoc(t)) nadd = 1;
      if (m.ncol() + nadd > MAXCOL) return skip();
      int li   = fixIdx(t, o.li, -1);
      int seed = 1 + (o.b * 977 + o.c) % 20000000;
      std::string rad = radix(nadd);
      int ret  = db.addColumnsRandom(nadd, rad, LOC(t), li, seed);
      std::vector<std::vector<double>> v((size_t)nadd, std::vector<double>((size_t)m.nech, 0.));
      int first;
      noteGap(m.addCols(nadd, rad, v, t, li, first));
      retCheck(ret, first, "addColumnsRandom");
      for (int k = 0; k < nadd; k++)
      {
        VectorDouble g = db.getColumnByUID(first + k, false, false);
        MCol& c        = m.cols[(size_t)m.colOfUid(first + k)];
        c.inexact      = true;
        if ((int)g.size() == m.nech) c.v.assign(g.begin(), g.end());
        for (double x : c.v)
          if (!std::isfinite(x) || std::fabs(x) > 100.) r.fail("values:random", fmt("random column holds %g", x));
      }
      return;
    }
    case SETCOLUMN:
    {
      int t       = o.loc;
      bool useSel = (o.flag & 1) && useSelOK();
      int na      = nact(useSel);
      std::string name = (o.flag & 4) ? o.name : (m.ncol() > 0 ? m.cols[(size_t)col(o.a)].name : o.name);
      int ic      = m.colOfName(name);
      if (ic < 0 && m.ncol() + 1 > MAXCOL) return skip();
      int li = fixIdx(t, o.li, -1);
      if (na == 0) return skip();
      VectorDouble tb = tab(na);
      setTag(ic < 0 ? "#new" : "#existing");
      db.setColumn(tb, name, LOC(t), li, useSel);
      if (ic >= 0)
        writeCol(ic, tb, 0, useSel);
      else
      {
        std::vector<std::vector<double>> v(1, std::vector<double>((size_t)m.nech, 0.));
        int first;
        noteGap(m.addCols(1, name, v, t, li, first));
        writeCol(m.colOfUid(first), tb, 0, useSel);
      }
      return;
    }
    case GEN_RANK:
    {
      if (m.ncol() + 1 > MAXCOL || m.nech == 0) return skip();
      db.generateRank(o.name);
      std::vector<std::vector<double>> v(1, std::vector<double>((size_t)m.nech));
      for (int e = 0; e < m.nech; e++) v[0][(size_t)e] = e + 1;
      int first;
      m.addCols(1, o.name, v, -1, 0, first);
      return;
    }
    case DUP_UID:
    case COPY_UID:
    {
      if (m.ncol() == 0) return skip();
      int ci = col(o.a), co = col(o.b);
      int ui = m.cols[(size_t)ci].uid, uo = m.cols[(size_t)co].uid;
      if (o.bad)
      {
        int bu = badUid(o.c, tag);
        if (o.bad == 1) { ui = bu; tag += "-in"; }
        else { uo = bu; tag += "-out"; }
        setTag(tag);
      }
      addressed();
      if (code == DUP_UID) db.duplicateColumnByUID(ui, uo);
      else db.copyByUID(ui, uo);
      if (!o.bad)
      {
        m.cols[(size_t)co].v       = m.cols[(size_t)ci].v;
        m.cols[(size_t)co].inexact = m.cols[(size_t)ci].inexact;
      }
      return;
    }
    // ================================================================ deletions
    case DEL_NAME:
    {
      if (m.ncol() == 0) return skip();
      if (o.bad) { setTag("#unknown"); db.deleteColumn("nope"); return; }
      int ic = col(o.a);
      db.deleteColumn(m.cols[(size_t)ic].name);
      m.delCol(ic);
      r.sawDelete = true;
      return;
    }
    case DEL_UID:
    {
      if (m.ncol() == 0) return skip();
      if (o.bad) { int u = badUid(o.a, tag); setTag(tag); db.deleteColumnByUID(u); return; }
      int ic = col(o.a);
      addressed();
      db.deleteColumnByUID(m.cols[(size_t)ic].uid);
      m.delCol(ic);
      r.sawDelete = true;
      return;
    }
    case DEL_COL:
    {
      if (m.ncol() == 0) return skip();
      if (o.bad) { setTag("#oor"); db.deleteColumnByColIdx(badCol(o.a)); return; }
      int ic = col(o.a);
      addressed();
      db.deleteColumnByColIdx(ic);
      m.delCol(ic);
      r.sawDelete = true;
      return;
    }
    case DEL_NAMES:
    {
      std::vector<int> cs = distinctCols(3);
      if (cs.empty()) return skip();
      VectorString names;
      for (int c : cs) names.push_back(m.cols[(size_t)c].name);
      if (o.bad) { setTag("#with-unknown"); names.push_back("nope"); }
      db.deleteColumns(names);
      std::sort(cs.begin(), cs.end());
      for (size_t k = cs.size(); k-- > 0;) m.delCol(cs[k]);
      r.sawDelete = true;
      return;
    }
    case DEL_LOC:
    {
      int t = (o.loc < 0) ? 1 : o.loc;
      addressed();
      db.deleteColumnsByLocator(LOC(t));
      std::vector<int> us = m.roles[(size_t)t];
      for (size_t k = us.size(); k-- > 0;)
      {
        int ic = m.colOfUid(us[k]);
        if (ic >= 0) { m.delCol(ic); r.sawDelete = true; }
      }
      return;
    }
    case DEL_UIDS:
    {
      std::vector<int> cs = distinctCols(3);
      if (cs.empty()) return skip();
      VectorInt us;
      for (int c : cs) us.push_back(m.cols[(size_t)c].uid);
      if (o.bad)
      {
        int u = badUid(o.a, tag);
        setTag("#with-" + tag.substr(1));
        us.insert((size_t)o.b % (us.size() + 1), u);
      }
      addressed();
      db.deleteColumnsByUID(us);
      std::sort(cs.begin(), cs.end());
      for (size_t k = cs.size(); k-- > 0;) m.delCol(cs[k]);
      r.sawDelete = true;
      return;
    }
    case DEL_COLS:
    {
      std::vector<int> cs = distinctCols(3);
      if (cs.empty()) return skip();
      VectorInt ics(cs.begin(), cs.end());
      if (o.bad) { setTag("#with-oor"); ics.push_back(badCol(o.a)); }
      addressed();
      db.deleteColumnsByColIdx(ics);
      std::sort(cs.begin(), cs.end());
      for (size_t k = cs.size(); k-- > 0;) m.delCol(cs[k]);
      r.sawDelete = true;
      return;
    }
    case DEL_UIDRANGE:
    {
      if (m.ncol() == 0) return skip();
      int n  = 1 + o.b % 3;
      int u0 = m.cols[(size_t)col(o.a)].uid;
      if (o.bad) { setTag("#first<=0"); u0 = -(o.c % 2); }
      addressed();
      db.deleteColumnsByUIDRange(u0, n);
      if (u0 > 0) // the library ignores ranges starting at identifier 0 (taken as documented behaviour)
        for (int u = u0 + n - 1; u >= u0; u--)
        {
          int ic = m.colOfUid(u);
          if (ic >= 0) { m.delCol(ic); r.sawDelete = true; }
        }
      return;
    }
    // ================================================================ renamings
    case REN_NAME:
    {
      if (m.ncol() == 0) return skip();
      if (o.bad) { setTag("#unknown"); db.setName(String("nope"), o.name); return; }
      int ic = col(o.a);
      db.setName(m.cols[(size_t)ic].name, o.name);
      m.cols[(size_t)ic].name    = o.name;
      m.cols[(size_t)ic].pending = true;
      return;
    }
    case REN_LIST:
    {
      std::vector<int> cs = distinctCols(3);
      if (cs.empty()) return skip();
      VectorString names;
      for (int c : cs) names.push_back(m.cols[(size_t)c].name);
      if (o.bad) { setTag("#with-unknown"); names.push_front(String("nope")); }
      db.setName(names, o.name);
      for (size_t k = 0; k < cs.size(); k++)
      {
        MCol& c   = m.cols[(size_t)cs[k]];
        c.name    = o.name + "." + std::to_string((int)k + 1 + (o.bad ? 1 : 0));
        c.pending = true;
      }
      m.relaxOthers = true;
      return;
    }
    case REN_UID:
    {
      if (m.ncol() == 0) return skip();
      if (o.bad) { int u = badUid(o.a, tag); setTag(tag); db.setNameByUID(u, o.name); return; }
      int ic = col(o.a);
      addressed();
      db.setNameByUID(m.cols[(size_t)ic].uid, o.name);
      m.cols[(size_t)ic].name    = o.name;
      m.cols[(size_t)ic].pending = true;
      return;
    }
    case REN_COL:
    {
      if (m.ncol() == 0) return skip();
      if (o.bad) { setTag("#oor"); db.setNameByColIdx(badCol(o.a), o.name); return; }
      int ic = col(o.a);
      addressed();
      db.setNameByColIdx(ic, o.name);
      m.cols[(size_t)ic].name    = o.name;
      m.cols[(size_t)ic].pending = true;
      return;
    }
    case REN_LOC:
    {
      int t = (o.loc < 0) ? 1 : o.loc;
      addressed();
      db.setNameByLocator(LOC(t), o.name);
      for (size_t k = 0; k < m.roles[(size_t)t].size(); k++)
      {
        int ic = m.colOfUid(m.roles[(size_t)t][k]);
        if (ic < 0) continue;
        m.cols[(size_t)ic].name    = o.name + "." + std::to_string((int)k + 1);
        m.cols[(size_t)ic].pending = true;
      }
      if (!m.roles[(size_t)t].empty()) m.relaxOthers = true;
      return;
    }
    // ================================================================ values
    case SETCOL_UID:
    {
      if (m.ncol() == 0) return skip();
      bool useSel = (o.flag & 1) && useSelOK();
      int na      = nact(useSel);
      if (o.bad) { int u = badUid(o.a, tag); setTag(tag); db.setColumnByUID(tab(m.nech), u, false); return; }
      int ic = col(o.a);
      addressed();
      VectorDouble tb = tab(na);
      db.setColumnByUID(tb, m.cols[(size_t)ic].uid, useSel);
      writeCol(ic, tb, 0, useSel);
      return;
    }
    case SETCOL_COL:
    {
      if (m.ncol() == 0) return skip();
      bool useSel = (o.flag & 1) && useSelOK();
      int na      = nact(useSel);
      if (o.bad) { setTag("#oor"); db.setColumnByColIdx(tab(m.nech), badCol(o.a), false); return; }
      int ic = col(o.a);
      addressed();
      VectorDouble tb = tab(na);
      db.setColumnByColIdx(tb, ic, useSel);
      writeColByIdx(ic, tb, 0, useSel);
      return;
    }
    case SETCOLS_COL:
    {
      std::vector<int> cs = distinctCols(3);
      if (cs.empty()) return skip();
      bool useSel = (o.flag & 1) && useSelOK();
      // a column holding the selection is not rewritten through the selection (the mask would change meanwhile)
      if (useSel && std::find(cs.begin(), cs.end(), m.selCol()) != cs.end()) useSel = false;
      int na = nact(useSel);
      VectorInt ics(cs.begin(), cs.end());
      if (o.bad) { setTag("#size"); db.setColumnsByColIdx(tab((int)cs.size() * na + 1), ics, useSel); return; }
      addressed();
      VectorDouble tb = tab((int)cs.size() * na);
      db.setColumnsByColIdx(tb, ics, useSel);
      for (size_t k = 0; k < cs.size(); k++)
        if (!writeColByIdx(cs[k], tb, (int)k * na, useSel)) return;
      return;
    }
    case SETVALUE:
    {
      if (m.ncol() == 0 || m.nech == 0) return skip();
      int ic = col(o.a), e = ech(o.b);
      std::string name = m.cols[(size_t)ic].name;
      if (o.bad == 1) { setTag("#unknown"); name = "nope"; }
      if (o.bad == 2) { setTag("#oor-sample"); e = badEch(o.c); }
      db.setValue(name, e, V(0));
      if (!o.bad) m.cols[(size_t)ic].v[(size_t)e] = V(0);
      return;
    }
    case SETARRAY:
    {
      if (m.ncol() == 0 || m.nech == 0) return skip();
      int ic = col(o.a), e = ech(o.b);
      int u  = m.cols[(size_t)ic].uid;
      if (o.bad == 1) { u = badUid(o.c, tag); setTag(tag); }
      if (o.bad == 2) { setTag("#oor-sample"); e = badEch(o.c); }
      addressed();
      db.setArray(e, u, V(0));
      if (!o.bad) m.cols[(size_t)ic].v[(size_t)e] = V(0);
      return;
    }
    case SETVAL_COL:
    {
      if (m.ncol() == 0 || m.nech == 0) return skip();
      int ic = col(o.a), e = ech(o.b);
      int jc = ic;
      if (o.bad == 1) { setTag("#oor"); jc = badCol(o.c); }
      if (o.bad == 2) { setTag("#oor-sample"); e = badEch(o.c); }
      addressed();
      db.setValueByColIdx(e, jc, V(0));
      if (!o.bad) m.cols[(size_t)ic].v[(size_t)e] = V(0);
      return;
    }
    case SETLOCVAR:
    case HZ_UPDLOC:
    {
      if (m.nech == 0) return skip();
      // the k-th role type that holds columns, if any
      std::vector<int> ts;
      for (int t = 0; t < NLOC; t++)
        if (!m.roles[(size_t)t].empty()) ts.push_back(t);
      int t   = ts.empty() ? ((o.loc < 0) ? 1 : o.loc) : ts[(size_t)o.a % ts.size()];
      int cnt = (int)m.roles[(size_t)t].size();
      int e   = ech(o.c);
      if (code == HZ_UPDLOC)
      { // hazard: rank beyond the count
        setTag("#oor-item");
        db.updLocVariable(LOC(t), e, cnt + o.b % 2, EOperator::ADD, 1.);
        return;
      }
      if (o.bad == 3)
      { // hazard: negative rank
        setTag("#negative-item");
        db.setLocVariable(LOC(t), e, -1 - o.b % 2, V(0));
        return;
      }
      if (o.bad == 1 || cnt == 0) { setTag("#oor-item"); db.setLocVariable(LOC(t), e, cnt + o.b % 2, V(0)); return; }
      if (o.bad == 2) { setTag("#oor-sample"); db.setLocVariable(LOC(t), badEch(o.c), o.b % cnt, V(0)); return; }
      int k  = o.b % cnt;
      int ic = m.colOfUid(m.roles[(size_t)t][(size_t)k]);
      addressed();
      db.setLocVariable(LOC(t), e, k, V(0));
      if (ic >= 0) m.cols[(size_t)ic].v[(size_t)e] = V(0);
      return;
    }
    case SETROW:
    {
      if (m.ncol() == 0 || m.nech == 0) return skip();
      int e = ech(o.a);
      if (o.bad == 1) { setTag("#size"); db.setArrayBySample(e, tab(m.ncol() + 1)); return; }
      if (o.bad == 2) { setTag("#oor-sample"); db.setArrayBySample(badEch(o.c), tab(m.ncol())); return; }
      VectorDouble tb = tab(m.ncol());
      db.setArrayBySample(e, tb);
      // values are taken in the order of getAllUIDs (increasing identifier)
      std::vector<int> order;
      for (int i = 0; i < m.ncol(); i++) order.push_back(i);
      std::sort(order.begin(), order.end(), [&](int x, int y) { return m.cols[(size_t)x].uid < m.cols[(size_t)y].uid; });
      for (int k = 0; k < m.ncol(); k++) m.cols[(size_t)order[(size_t)k]].v[(size_t)e] = tb[(size_t)k];
      return;
    }
    case SETVALS_NAMES:
    {
      std::vector<int> cs = distinctCols(3);
      std::vector<int> es = distinctEchs(3);
      if (cs.empty() || es.empty()) return skip();
      VectorString names;
      for (int c : cs) names.push_back(m.cols[(size_t)c].name);
      VectorInt iechs(es.begin(), es.end());
      bool bySample = o.flag & 2;
      int n         = (int)(cs.size() * es.size());
      if (o.bad) { setTag("#size"); db.setValuesByNames(iechs, names, tab(n + 1), bySample); return; }
      VectorDouble tb = tab(n);
      db.setValuesByNames(iechs, names, tb, bySample);
      int lec = 0;
      if (bySample)
      {
        for (int e : es)
          for (int c : cs) m.cols[(size_t)c].v[(size_t)e] = tb[(size_t)lec++];
      }
      else
        for (int c : cs)
          for (int e : es) m.cols[(size_t)c].v[(size_t)e] = tb[(size_t)lec++];
      return;
    }
    // ================================================================ roles
    case LOC_NAME:
    case LOC_UID:
    case LOC_COL:
    {
      if (m.ncol() == 0) return skip();
      int t      = o.loc;
      int ic     = col(o.a);
      int uid    = m.cols[(size_t)ic].uid;
      bool clean = (o.flag & 8) && t >= 0;
      int li     = fixIdx(t, o.li, clean ? -1 : uid);
      if (clean && !r.gapsOk && li > 0) li = 0;
      if (t >= 0 && uniqueLoc(t)) clean = true;
      if (o.bad)
      {
        if (code == LOC_NAME) { setTag("#unknown"); db.setLocator("nope", LOC(t), li < 0 ? -1 : 0, clean); }
        else if (code == LOC_UID) { int u = badUid(o.b, tag); setTag(tag); db.setLocatorByUID(u, LOC(t), fixIdx(t, o.li, -1), false); }
        else { setTag("#oor"); db.setLocatorByColIdx(badCol(o.b), LOC(t), li < 0 ? -1 : 0, clean); }
        return;
      }
      if (t >= 0 && li < 0 && !clean && m.inRole(uid, t)) setTag("#next-self");
      if (code != LOC_NAME) addressed();
      if (code == LOC_NAME) db.setLocator(m.cols[(size_t)ic].name, LOC(t), li, clean);
      else if (code == LOC_UID) db.setLocatorByUID(uid, LOC(t), li, clean);
      else db.setLocatorByColIdx(ic, LOC(t), li, clean);
      noteGap(m.setRoles({uid}, t, li, clean));
      return;
    }
    case LOCS_NAMES:
    case LOCS_UIDS:
    case LOCS_COLS:
    {
      std::vector<int> cs = distinctCols(3);
      if (cs.empty()) return skip();
      int t = o.loc;
      std::vector<int> us;
      for (int c : cs) us.push_back(m.cols[(size_t)c].uid);
      bool clean = (o.flag & 8) && t >= 0;
      int li     = o.li;
      fixMulti(us, t, li, clean);
      cs.resize(us.size());
      bool ns = t >= 0 && li < 0 && !clean && anyInRole(us, t);
      if (ns) setTag("#next-self");
      if (code == LOCS_NAMES)
      {
        VectorString names;
        for (int c : cs) names.push_back(m.cols[(size_t)c].name);
        if (o.bad) { if (!ns) setTag("#with-unknown"); names.push_back("nope"); }
        db.setLocators(names, LOC(t), li, clean);
      }
      else if (code == LOCS_UIDS)
      {
        VectorInt v(us.begin(), us.end());
        if (o.bad && !clean)
        {
          int u = badUid(o.b, tag);
          if (!ns) setTag("#with-" + tag.substr(1));
          v.push_back(u);
        }
        addressed();
        db.setLocatorsByUID(v, LOC(t), li, clean);
      }
      else
      {
        VectorInt v(cs.begin(), cs.end());
        if (o.bad && !clean) { if (!ns) setTag("#with-oor"); v.push_back(badCol(o.b)); }
        addressed();
        db.setLocatorsByColIdx(v, LOC(t), li, clean);
      }
      noteGap(m.setRoles(us, t, li, clean));
      return;
    }
    case LOCS_UIDRANGE:
    {
      if (m.ncol() == 0) return skip();
      int t      = o.loc;
      bool clean = (o.flag & 8) && t >= 0;
      if (o.bad)
      {
        int u = badUid(o.b, tag);
        setTag(tag);
        db.setLocatorsByUID(1, u, LOC(t), fixIdx(t, o.li, -1), false);
        return;
      }
      int u0 = m.cols[(size_t)col(o.a)].uid;
      std::vector<int> us;
      for (int k = 0; k < 1 + o.b % 3; k++)
      {
        if (m.colOfUid(u0 + k) < 0) break; // only live identifiers in the range
        us.push_back(u0 + k);
      }
      int li = o.li;
      fixMulti(us, t, li, clean);
      if (t >= 0 && li < 0 && !clean && anyInRole(us, t)) setTag("#next-self");
      addressed();
      db.setLocatorsByUID((int)us.size(), u0, LOC(t), li, clean);
      noteGap(m.setRoles(us, t, li, clean));
      return;
    }
    case LOC_CLEAR:
    {
      int t = (o.loc < 0) ? 1 : o.loc;
      db.clearLocators(LOC(t));
      m.roles[(size_t)t].clear();
      return;
    }
    case LOC_SWITCH:
    {
      int tin = (o.loc < 0) ? 1 : o.loc;
      int tout = (o.a % 4 == 0) ? o.b % NLOC : std::vector<int>{0, 1, 2, 3}[(size_t)o.b % 4];
      if (tin == tout) return skip();
      auto& lin  = m.roles[(size_t)tin];
      auto& lout = m.roles[(size_t)tout];
      if (uniqueLoc(tout) && lin.size() + lout.size() > 1) return skip();
      // (gaps sub) an empty slot moved into a single-rank role such as the selection has no defined meaning (the library then sees a
      // selection without column): not generated
      if (uniqueLoc(tout))
        for (int u : lin) if (u < 0 || m.colOfUid(u) < 0) return skip();
      addressed();
      db.switchLocator(LOC(tin), LOC(tout));
      lout.insert(lout.end(), lin.begin(), lin.end());
      lin.clear();
      return;
    }
    // ================================================================ selections
    case SEL_TAB:
    case SEL_RANKS:
    case SEL_LIMIT:
    case SEL_RANDOM:
    {
      if (m.ncol() + 1 > MAXCOL || m.nech == 0) return skip();
      static const char* comb[] = {"set", "not", "or", "and", "xor"};
      int kc                    = o.b % 5;
      int sold                  = m.selCol();
      if (kc >= 2 && (sold < 0 || m.selKind() != 1)) kc = 0;
      if (code == SEL_LIMIT || code == SEL_RANDOM) kc = 0;
      std::vector<double> sel((size_t)m.nech, 0.);
      int ret = -2;
      if (code == SEL_TAB)
      {
        bool empty = (o.flag & 4);
        if (o.bad == 1 || o.bad == 2)
        {
          setTag("#size");
          ret = db.addSelection(tab(m.nech + 1), o.name, comb[kc]);
          retCheck(ret, -1, "addSelection(wrong size)");
          return;
        }
        VectorDouble tb = empty ? VectorDouble() : tab(m.nech);
        ret             = db.addSelection(tb, o.name, comb[kc]);
        for (int e = 0; e < m.nech; e++) sel[(size_t)e] = empty ? 1. : (tb[(size_t)e] != 0. ? 1. : 0.);
      }
      else if (code == SEL_RANKS)
      {
        std::vector<int> es = distinctEchs(4);
        VectorInt ranks(es.begin(), es.end());
        if (o.bad == 3)
        { // hazard: a rank beyond the number of samples
          setTag("#oor-rank");
          ranks.push_back(m.nech + o.c % 2);
          int nc = db.getColumnNumber();
          (void)db.addSelectionByRanks(ranks, o.name, "set");
          if (db.getColumnNumber() != nc)
          { // accepted: the valid ranks must be honoured
            for (int e : es) sel[(size_t)e] = 1.;
            int first;
            m.addCols(1, o.name, {sel}, SEL, 0, first);
          }
          return;
        }
        ret = db.addSelectionByRanks(ranks, o.name, comb[kc]);
        for (int e : es) sel[(size_t)e] = 1.;
      }
      else if (code == SEL_LIMIT)
      {
        if (m.ncol() == 0) return skip();
        int ic           = col(o.a);
        std::string name = m.cols[(size_t)ic].name;
        if (o.bad == 1 || o.bad == 2) { setTag("#unknown"); name = "nope"; }
        ret = db.addSelectionByLimit(name, Limits(), o.name, "set");
        for (int e = 0; e < m.nech; e++) sel[(size_t)e] = (o.bad || m.cols[(size_t)ic].v[(size_t)e] == NA) ? 0. : 1.;
      }
      else
      {
        double prop = (double)(o.a % 5) / 4.;
        ret         = db.addSelectionRandom(prop, 1 + (o.c * 131 + o.b) % 20000000, o.name, "set");
        VectorDouble g = db.getColumnByUID(m.nuid, false, false);
        for (int e = 0; e < m.nech && e < (int)g.size(); e++) sel[(size_t)e] = g[(size_t)e];
        for (double x : sel)
          if (x != 0. && x != 1.) r.fail("values:random", fmt("random selection holds %g", x));
      }
      // combination with the previous selection
      if (kc == 1)
        for (auto& x : sel) x = 1. - x;
      else if (kc >= 2)
        for (int e = 0; e < m.nech; e++)
        {
          bool a = sel[(size_t)e] != 0., b = m.cols[(size_t)sold].v[(size_t)e] != 0.;
          sel[(size_t)e] = (kc == 2) ? (a || b) : (kc == 3) ? (a && b) : (a != b);
        }
      int first;
      m.addCols(1, o.name, {sel}, SEL, 0, first);
      retCheck(ret, first, "addSelection*");
      return;
    }
    // ================================================================ samples
    case SMP_ADD:
    {
      int nadd    = 1 + o.a % 3;
      double vini = (o.flag & 1) ? NA : V(0);
      if (m.nech + nadd > MAXECH) return skip();
      if (m.grid)
      {
        setTag("#grid");
        retCheck(db.addSamples(nadd, vini), -1, "addSamples on a grid");
        return;
      }
      if (o.bad) { setTag("#nadd<=0"); retCheck(db.addSamples(-(o.b % 2), vini), -1, "addSamples(nadd<=0)"); return; }
      int ret = (o.flag & 2) ? db.addSamples(nadd) : db.addSamples(nadd, vini);
      if (o.flag & 2) vini = NA;
      retCheck(ret, m.nech, "addSamples");
      for (auto& c : m.cols) c.v.resize((size_t)(m.nech + nadd), vini);
      m.nech += nadd;
      return;
    }
    case SMP_DEL:
    {
      if (m.grid) { setTag("#grid"); if (db.deleteSample(ech(o.a)) == 0) r.fail("retval", "deleteSample on a grid reports success"); return; }
      if (o.bad) { setTag("#oor"); if (db.deleteSample(badEch(o.a)) == 0) r.fail("retval", "deleteSample(out of range) reports success"); return; }
      if (m.nech < 2) return skip();
      int e = ech(o.a);
      retCheck(db.deleteSample(e), 0, "deleteSample");
      for (auto& c : m.cols) c.v.erase(c.v.begin() + e);
      m.nech--;
      return;
    }
    case SMP_DELS:
    {
      std::vector<int> es = distinctEchs(3);
      if (m.grid)
      {
        setTag("#grid");
        if (es.empty()) return skip();
        if (db.deleteSamples(VectorInt(es.begin(), es.end())) == 0) r.fail("retval", "deleteSamples on a grid reports success");
        return;
      }
      if ((int)es.size() >= m.nech) es.resize((size_t)std::max(0, m.nech - 1));
      if (es.empty()) return skip();
      VectorInt v(es.begin(), es.end());
      if (o.bad)
      { // the largest index is examined first: nothing is deleted
        setTag("#with-oor");
        v.push_back(m.nech + o.c % 2);
        if (db.deleteSamples(v) == 0) r.fail("retval", "deleteSamples(out of range) reports success");
        return;
      }
      retCheck(db.deleteSamples(v), 0, "deleteSamples");
      std::sort(es.begin(), es.end());
      for (size_t k = es.size(); k-- > 0;)
        for (auto& c : m.cols) c.v.erase(c.v.begin() + es[k]);
      m.nech -= (int)es.size();
      return;
    }
    // ================================================================ whole object
    case OBJ_CLONE:
    {
      std::unique_ptr<Db> n(r.db->clone());
      r.db = std::move(n);
      return;
    }
    case OBJ_COPY:
    {
      std::unique_ptr<Db> n;
      if (m.grid)
      {
        auto* src = dynamic_cast<DbGrid*>(r.db.get());
        if (o.flag & 1) n.reset(new DbGrid(*src));
        else { auto* g = new DbGrid(); n.reset(g); *g = *src; }
      }
      else
      {
        if (o.flag & 1) n.reset(new Db(*r.db));
        else { auto* g = Db::createFromOnePoint(VectorDouble({1., 2.})); n.reset(g); *g = *r.db; }
      }
      r.db = std::move(n);
      return;
    }
    case OBJ_RELOAD:
    {
      if (m.ncol() == 0 || m.nech == 0 || r.tainted) return skip();
      std::stringstream ss;
      if (!r.db->serialize(ss, false)) { r.fail("serialize", "serialize() reports failure"); return; }
      std::unique_ptr<Db> n(m.grid ? (Db*)new DbGrid() : new Db());
      if (!n->deserialize(ss, false)) { r.fail("deserialize", "deserialize() of the text just written reports failure"); return; }
      r.db = std::move(n);
      // identifiers are renumbered by column index
      std::vector<int> map((size_t)m.nuid, -1);
      for (int i = 0; i < m.ncol(); i++) map[(size_t)m.cols[(size_t)i].uid] = i;
      for (auto& l : m.roles)
        for (auto& u : l) u = map[(size_t)u];
      for (int i = 0; i < m.ncol(); i++) m.cols[(size_t)i].uid = i;
      m.nuid = m.ncol();
      m.dead.clear();
      for (int i = 0; i < m.ncol(); i++)
      {
        MCol& c = m.cols[(size_t)i];
        if (!c.inexact) continue;
        VectorDouble g = r.db->getColumnByColIdx(i, false, false);
        if ((int)g.size() != m.nech) continue;
        for (int e = 0; e < m.nech; e++)
        {
          if (!vf::close(g[(size_t)e], c.v[(size_t)e], 1e-13, 0.)) { r.fail("values:reload", fmt("random value %.17g reloaded as %.17g", c.v[(size_t)e], g[(size_t)e])); return; }
          c.v[(size_t)e] = g[(size_t)e];
        }
      }
      return;
    }
    default: return skip();
  }
}

// ------------------------------------------------------------------ run ----------------
static void runDb(const DbCase& c, Ctx& ctx)
{
  R r;
  r.ctx    = &ctx;
  r.gapsOk = c.gaps != 0;
  r.ambig  = c.ambig != 0;
  r.m.grid = c.grid != 0;
  ctx.label(c.grid ? "kind:DbGrid" : "kind:Db");
  law_set_random_seed(132141);

  // ---- construction
  int nvar = (int)c.names.size();
  VectorString names(c.names.begin(), c.names.end());
  VectorString locs;
  {
    static const char* sref[] = {"x", "z", "v", "f"};
    int cnt[4]                = {0, 0, 0, 0};
    if (c.grid && c.coords) cnt[0] = 2; // the grid coordinates hold x1, x2
    for (int k = 0; k < nvar; k++)
    {
      int t = c.locs[(size_t)k];
      if (t < 0 || t > 3) locs.push_back("NA");
      else locs.push_back(std::string(sref[t]) + std::to_string(++cnt[t]));
    }
  }
  VectorDouble tab(c.tab.begin(), c.tab.end());
  const ELoadBy& order = c.bySample ? ELoadBy::SAMPLE : ELoadBy::COLUMN;
  r.opn                = c.grid ? "DbGrid::create" : "Db::createFromSamples";
  ctx.at(r.opn);
  if (c.grid)
    r.db.reset(DbGrid::create(VectorInt({c.nx, c.ny}), VectorDouble({1., 2.}), VectorDouble({10., 20.}), VectorDouble({0., 0.}), order, tab, names, locs, c.rank != 0, c.coords != 0));
  else
    r.db.reset(Db::createFromSamples(c.nech, order, tab, names, locs, c.rank != 0));
  if (!r.db) { ctx.fail(r.opn + ":null", "the factory returned no object"); return; }
  adopt(r.m, *r.db);
  {
    // what is known about the initial table: the loaded variables are the last nvar columns
    Tbl& m = r.m;
    int nc0  = nvar + (c.rank ? 1 : 0) + ((c.grid && c.coords) ? 2 : 0);
    if (m.ncol() != nc0 || m.nech != c.nech) { ctx.fail(r.opn + ":ncol", fmt("%d columns x %d samples, expected %d x %d", m.ncol(), m.nech, nc0, c.nech)); return; }
    for (int k = 0; k < nvar; k++)
    {
      const MCol& col = m.cols[(size_t)(nc0 - nvar + k)];
      if (!derivedName(col.name, c.names[(size_t)k])) { ctx.fail(r.opn + ":names", fmt("variable %d is named '%s', requested '%s'", k, col.name.c_str(), c.names[(size_t)k].c_str())); return; }
      for (int e = 0; e < c.nech; e++)
      {
        double x = c.bySample ? c.tab[(size_t)(k + nvar * e)] : c.tab[(size_t)(k * c.nech + e)];
        if (!(col.v[(size_t)e] == x)) { ctx.fail(r.opn + ":values", fmt("variable %d sample %d holds %g, given %g", k, e, col.v[(size_t)e], x)); return; }
      }
      int t, rk;
      bool has = m.roleOf(col.uid, t, rk);
      int want = c.locs[(size_t)k];
      if ((want >= 0) != has || (has && t != want)) { ctx.fail(r.opn + ":roles", fmt("variable %d has role %d, requested %d", k, has ? t : -1, want)); return; }
    }
    if (c.rank)
      for (int e = 0; e < c.nech; e++)
        if (!(m.cols[0].v[(size_t)e] == e + 1)) { ctx.fail(r.opn + ":values", "the rank column is not 1..n"); return; }
    if (!m.invariants()) { ctx.fail(r.opn + ":invariants", "the initial table has duplicate names or inconsistent roles"); return; }
  }
  if (!checkState(r) && r.stop) return;

  // ---- history
  Hash h;
  h.add(c.grid).add(c.gaps);
  for (size_t s = 0; s < c.ops.size() && !r.stop && !r.giveUp; s++)
  {
    const Op& o = c.ops[s];
    r.step      = (int)s;
    size_t nd   = r.deferred.size();
    Interp it(r, o);
    it.run();
    ctx.label(std::string("op:") + opName(o.code));
    if (getenv("C07_DEBUG")) diag(fmt("step %d %s: library SEL entries %d, model sel col %d, ncol %d/%d", (int)s, r.opn.c_str(), r.db->getLocatorNumber(ELoc::SEL), r.m.selCol(), r.db->getColumnNumber(), r.m.ncol()));
    if (r.opn.find('#') != std::string::npos) ctx.label("variant:" + r.opn);
    h.add(o.code).add(o.bad);
    if (r.stop) break;
    checkState(r);
    if (r.stop) break;
    if (r.endAfterStep) r.giveUp = true;
    if (r.deferred.size() > nd)
    {
      // a known finding: take the library's table as the new reference when it is a consistent one
      adopt(r.m, *r.db);
      if (!r.m.invariants()) r.giveUp = true;
    }
  }
  if (!ctx.failed() && !r.deferred.empty()) ctx.fails.push_back(r.deferred[0]);
  ctx.nontrivial(r.nt);
  if (r.tainted) ctx.label("class:tainted");
  ctx.sig = h.h;
}

VERIF_SUB(db_seq, DbCase, genDb, runDb);
VERIF_SUB(grid_seq, DbCase, genGrid, runDb);
VERIF_SUB(db_gaps, DbCase, genGaps, runDb);
VERIF_SUB(db_hazard, DbCase, genHazard, runDb);
} // namespace
VERIF_MAIN()
