// C13 — simulations are reproducible from their seed and honour their conditioning.  DESIGN.md §5 C13.
//
// Sub-properties
//   tb_repro   simtub / simbayes (non-conditional, conditional, unique + moving neighbourhood): the same call on
//              fresh copies of the same inputs, twice in one process, gives bit-identical output columns;
//              another seed, and two simulation ranks of one call, differ somewhere.
//   tb_cond    conditional simtub: the value at a target coinciding with a datum equals the datum
//              (kappa-scaled tolerance), grid and point targets, with and without nugget.
//   fft        simfft: reproducible, seed sensitive, nbsimu realisations delivered and pairwise different.
//   spde       simulateSPDE (the seed is the one given to law_set_random_seed before the call: the function
//              has no seed argument): reproducible, seed sensitive.  No exactness claim (DESIGN §5 C13 L).
//   spectral   simuSpectral: reproducible, seed sensitive.
//   trunc      law_gaussian_between_bounds(a,b) in [a,b] (|a|,|b| <= 30, NA sides, equal bounds), and the
//              sequence of draws is a function of the seed.
//   gibbs      gibbs_sampler: reproducible, seed sensitive, every simulation inside each sample's [L,U].
//   pgs        simpgs: reproducible, seed sensitive; conditional: simulated facies at data nodes = observed
//              facies; with flag_gaus the gaussians at data nodes lie inside the thresholds of the observed
//              facies (thresholds recomputed here from the proportions, independent of Rule.cpp).
#include "verif.hpp"
#include "geo_common.hpp"

#include "Db/Db.hpp"
#include "Db/DbGrid.hpp"
#include "Model/Model.hpp"
#include "Covariances/CovContext.hpp"
#include "Neigh/NeighUnique.hpp"
#include "Neigh/NeighMoving.hpp"
#include "Simulation/CalcSimuTurningBands.hpp"
#include "Simulation/CalcSimuFFT.hpp"
#include "Simulation/SimuFFTParam.hpp"
#include "Simulation/SimuSpectral.hpp"
#include "API/SPDE.hpp"
#include "API/SPDEParam.hpp"
#include "Mesh/MeshETurbo.hpp"
#include "LithoRule/Rule.hpp"
#include "LithoRule/RuleProp.hpp"
#include "Matrix/MatrixSquareSymmetric.hpp"
#include "Space/ASpaceObject.hpp"
#include "Basic/Law.hpp"
#include "Basic/OptDbg.hpp"
#include "Basic/OptCst.hpp"
#include "Basic/NamingConvention.hpp"
#include "Enum/ECov.hpp"
#include "Enum/ELoc.hpp"
#include "Enum/ESpaceType.hpp"
#include "geoslib_f.h"
#include "geoslib_define.h"

#include <Eigen/Dense>
#include <memory>
#include <algorithm>
#include <numeric>
#include <cstring>

using namespace vf;

// ------------------------------------------------------------------ small helpers ------
static bool isNA(double v) { return v > 1e29; } // TEST = 1.234e30; generated values stay below 1e29
static VectorDouble toVD(const std::vector<double>& v) { return VectorDouble(v.begin(), v.end()); }
static VectorInt toVI(const std::vector<int>& v) { return VectorInt(v.begin(), v.end()); }
static bool sameBits(double a, double b)
{
  uint64_t x, y;
  std::memcpy(&x, &a, 8);
  std::memcpy(&y, &b, 8);
  return x == y;
}
typedef std::vector<std::vector<double>> Cols;

// global state every case starts from (one process runs thousands of cases)
static void resetGlobals(int ndim)
{
  defineDefaultSpace(ESpaceType::RN, (unsigned)ndim);
  law_set_old_style(true);
  law_set_random_seed(13579);
  OptDbg::reset();
  set_rule_mode(1);
  set_test_discrete(false);
}

// columns of `db` from column index `from` on
static Cols newColumns(const Db* db, int from)
{
  Cols c;
  for (int ic = from; ic < db->getColumnNumber(); ic++)
  {
    VectorDouble v = db->getColumnByColIdx(ic, false, false);
    c.emplace_back(v.begin(), v.end());
  }
  return c;
}
// first difference between two column sets ("" when bit-identical)
static std::string diffCols(const Cols& a, const Cols& b)
{
  if (a.size() != b.size()) return fmt("%d columns vs %d", (int)a.size(), (int)b.size());
  for (size_t c = 0; c < a.size(); c++)
  {
    if (a[c].size() != b[c].size()) return fmt("column %d: %d rows vs %d", (int)c, (int)a[c].size(), (int)b[c].size());
    for (size_t i = 0; i < a[c].size(); i++)
      if (!sameBits(a[c][i], b[c][i]))
        return fmt("column %d row %d: %.17g vs %.17g", (int)c, (int)i, a[c][i], b[c][i]);
  }
  return "";
}
static bool colsDifferAt(const std::vector<double>& a, const std::vector<double>& b, const std::vector<int>& rows)
{
  for (int r : rows)
    if (!sameBits(a[(size_t)r], b[(size_t)r])) return true;
  return false;
}
static bool anyNaN(const Cols& c)
{
  for (auto& v : c)
    for (double x : v)
      if (std::isnan(x)) return true;
  return false;
}

// ------------------------------------------------------------------ models -------------
enum { S_NUGGET = 0, S_EXPO, S_SPHE, S_CUBIC, S_GAUSS, S_SINCARD, S_BESSELJ, S_MATERN, S_STABLE, S_NTYPES };
static ECov ecovOf(int t)
{
  switch (t)
  {
    case S_NUGGET: return ECov::NUGGET;
    case S_EXPO: return ECov::EXPONENTIAL;
    case S_SPHE: return ECov::SPHERICAL;
    case S_CUBIC: return ECov::CUBIC;
    case S_GAUSS: return ECov::GAUSSIAN;
    case S_SINCARD: return ECov::SINCARD;
    case S_BESSELJ: return ECov::BESSELJ;
    case S_MATERN: return ECov::MATERN;
    default: return ECov::STABLE;
  }
}
static const char* snameOf(int t)
{
  static const char* n[] = {"nugget", "expo", "sphe", "cubic", "gauss", "sincard", "besselj", "matern", "stable"};
  return n[t];
}
struct Struc
{
  int type = S_EXPO;
  double range = 1., param = 1.;
  std::vector<double> ratio;  // per axis (range_i = range * ratio_i)
  std::vector<double> angles; // ndim values (degrees) or empty
  std::vector<double> sills;  // nvar*nvar (symmetric, positive definite)
  template<class A> void io(A& a) { a("type", type)("range", range)("param", param)("ratio", ratio)("angles", angles)("sills", sills); }
};
// sill matrix A A' + eps I on a coarse grid of values
static std::vector<double> genSills(int nvar, double scale)
{
  if (nvar == 1) return {scale * G::r(1, 12, 4)};
  std::vector<double> a((size_t)nvar * nvar), s((size_t)nvar * nvar, 0.);
  for (auto& x : a) x = G::r(-4, 4, 4);
  for (int i = 0; i < nvar; i++)
    for (int j = 0; j < nvar; j++)
    {
      double v = (i == j) ? 0.25 : 0.;
      for (int k = 0; k < nvar; k++) v += a[(size_t)i * nvar + k] * a[(size_t)j * nvar + k];
      s[(size_t)i * nvar + j] = scale * v;
    }
  return s;
}
// a structure among `allowed`, ranges relative to the field size L
static Struc genStruc(int ndim, int nvar, double L, const std::vector<int>& allowed, bool aniso, double rlo = 0.05, double rhi = 2.)
{
  Struc s;
  s.type = G::pickv(allowed);
  s.range = L * G::lu(rlo, rhi);
  s.param = 1.;
  if (s.type == S_BESSELJ) s.param = G::r(4, 8, 4);                 // nu in [1,2]: valid up to 3-D (nu >= d/2-1)
  if (s.type == S_MATERN) s.param = G::pick<double>({0.5, 1., 1.5, 2.5});
  if (s.type == S_STABLE) s.param = G::pick<double>({1., 1.5, 2.});
  s.ratio.assign((size_t)ndim, 1.);
  if (aniso && ndim > 1 && s.type != S_NUGGET)
  {
    for (int d = 1; d < ndim; d++) s.ratio[(size_t)d] = G::pick<double>({1., 0.5, 0.25, 2.});
    s.angles.assign((size_t)ndim, 0.);
    s.angles[0] = G::r(0, 179, 1);
    if (ndim == 3) { s.angles[1] = G::r(-40, 40, 1); s.angles[2] = G::r(-40, 40, 1); }
  }
  s.sills = genSills(nvar, 1.);
  return s;
}
static std::unique_ptr<Model> buildModel(int ndim, int nvar, const std::vector<Struc>& st, const std::vector<double>& means, int drift)
{
  CovContext ctxt(nvar, ndim);
  std::unique_ptr<Model> m(Model::create(ctxt));
  for (auto& s : st)
  {
    if (s.type == S_NUGGET)
      m->addCovFromParam(ECov::NUGGET, 0., 0., 1., VectorDouble(), toVD(s.sills));
    else
    {
      VectorDouble ranges((size_t)ndim);
      for (int d = 0; d < ndim; d++) ranges[(size_t)d] = s.range * s.ratio[(size_t)d];
      m->addCovFromParam(ecovOf(s.type), 0., 0., s.param, ranges, toVD(s.sills), toVD(s.angles), true);
    }
  }
  if (!means.empty()) m->setMeans(toVD(means));
  if (drift >= 0) m->setDriftIRF(drift);
  return m;
}
static uint64_t hashStrucs(const std::vector<Struc>& st)
{
  Hash h;
  for (auto& s : st) h.add(s.type).addq(s.param).add((int)s.angles.size());
  return h.h;
}

// ------------------------------------------------------------------ targets ------------
struct Targets
{
  int ndim = 2, grid = 1;
  std::vector<int> nx;
  std::vector<double> dx, x0;
  double angle = 0.; // rotation of the grid (2-D/3-D: about z), degrees
  std::vector<double> pts; // point targets, row-major
  template<class A> void io(A& a) { a("ndim", ndim)("grid", grid)("nx", nx)("dx", dx)("x0", x0)("angle", angle)("pts", pts); }
  int n() const
  {
    if (!grid) return (int)pts.size() / ndim;
    int t = 1;
    for (int v : nx) t *= v;
    return t;
  }
  double extent() const // rough field size
  {
    double e = 0;
    if (grid)
      for (int d = 0; d < ndim; d++) e = std::max(e, dx[(size_t)d] * std::max(1, nx[(size_t)d] - 1));
    else
      for (int d = 0; d < ndim; d++)
      {
        double lo = 1e300, hi = -1e300;
        for (int i = 0; i < n(); i++) { lo = std::min(lo, pts[(size_t)i * ndim + d]); hi = std::max(hi, pts[(size_t)i * ndim + d]); }
        e = std::max(e, hi - lo);
      }
    return e > 0 ? e : 1.;
  }
};
// maxTot: maximum number of targets; forceGrid: -1 free, 0 points, 1 grid
static Targets genTargets(int ndim, int maxTot, int forceGrid, bool allowRot)
{
  Targets t;
  t.ndim = ndim;
  t.grid = forceGrid < 0 ? (G::pct(60) ? 1 : 0) : forceGrid;
  if (t.grid)
  {
    int per = (int)std::floor(std::pow((double)maxTot, 1. / ndim) + 1e-9);
    double L = G::pick<double>({1., 100., 1e4});
    for (int d = 0; d < ndim; d++)
    {
      t.nx.push_back(G::sz(ndim == 1 ? 2 : 1, std::max(2, per)));
      t.dx.push_back(L * G::pick<double>({0.01, 0.02, 0.05, 0.1}) * (d == 0 ? 1. : G::pick<double>({1., 1., 0.5, 2.})));
      t.x0.push_back(G::pick<double>({0., 0., -1e4, 1e4, 250.5, -3.25}));
    }
    bool multi = false;
    for (int v : t.nx) multi = multi || v > 1;
    if (!multi) t.nx[0] = 2;
    if (allowRot && ndim >= 2 && G::pct(25)) t.angle = G::r(1, 89, 1);
  }
  else
  {
    int n = G::sz(2, maxTot);
    auto P = vfgeo::genPointSets(ndim, {n}, G::pct(30));
    t.pts = P[0].c;
  }
  return t;
}
static std::unique_ptr<Db> buildTargets(const Targets& t)
{
  if (t.grid)
  {
    VectorDouble angles;
    if (t.angle != 0.) { angles = VectorDouble((size_t)t.ndim, 0.); angles[0] = t.angle; }
    return std::unique_ptr<Db>(DbGrid::create(toVI(t.nx), toVD(t.dx), toVD(t.x0), angles));
  }
  std::unique_ptr<Db> db(Db::create());
  int n = t.n();
  for (int d = 0; d < t.ndim; d++)
  {
    VectorDouble c((size_t)n);
    for (int i = 0; i < n; i++) c[(size_t)i] = t.pts[(size_t)i * t.ndim + d];
    db->addColumns(c, "x" + std::to_string(d + 1), ELoc::X, d);
  }
  return db;
}
// data base located on the targets place[k] (coordinates copied from the target Db: coincidence by construction)
static std::unique_ptr<Db> buildDataOn(const Db* targ, int ndim, const std::vector<int>& place)
{
  std::unique_ptr<Db> db(Db::create());
  for (int d = 0; d < ndim; d++)
  {
    VectorDouble c(place.size());
    for (size_t k = 0; k < place.size(); k++) c[k] = targ->getCoordinate(place[k], d);
    db->addColumns(c, "x" + std::to_string(d + 1), ELoc::X, d);
  }
  return db;
}
// k distinct target indices; mode 0: random subset in random order, 1: the first k targets in order (datum k on
// target k), 2: k targets among those of index >= k (needs n >= 2k, else falls back to 0)
static std::vector<int> genPlacement(int n, int k, int mode)
{
  std::vector<int> out;
  if (mode == 1)
  {
    for (int i = 0; i < k; i++) out.push_back(i);
    return out;
  }
  int lo = (mode == 2 && n >= 2 * k) ? k : 0;
  std::vector<int> p = G::perm(n - lo);
  for (int i = 0; i < k; i++) out.push_back(lo + p[(size_t)i]);
  return out;
}

// =================================================================== turning bands =====
struct TbCase
{
  Targets T;
  int nvar = 1;
  std::vector<Struc> strucs;
  std::vector<double> means;
  int drift = -1; // -1: simple kriging (known means), 0: ordinary, 1: linear drift
  int cond = 0, placeMode = 0;
  std::vector<int> place;  // target index of each datum
  std::vector<double> z;   // ndata * nvar, variable-major (TEST = undefined)
  int moving = 0, nmaxi = 10;
  double radius = 0.; // 0: none
  int nbsimu = 1, nbtuba = 10, seed = 1, seed2 = 2, bayes = 0;
  std::vector<double> dmean, dvar; // simbayes prior (per drift term)
  template<class A> void io(A& a)
  {
    a("T", T)("nvar", nvar)("strucs", strucs)("means", means)("drift", drift)("cond", cond)("placeMode", placeMode)("place", place)("z", z);
    a("moving", moving)("nmaxi", nmaxi)("radius", radius)("nbsimu", nbsimu)("nbtuba", nbtuba)("seed", seed)("seed2", seed2);
    a("bayes", bayes)("dmean", dmean)("dvar", dvar);
  }
};
static const std::vector<int> kTbTypes = {S_NUGGET, S_EXPO, S_SPHE, S_CUBIC, S_GAUSS, S_SINCARD, S_BESSELJ, S_MATERN, S_STABLE};

static TbCase genTb(bool condOnly)
{
  TbCase c;
  int ndim = G::pick<int>({1, 2, 2, 2, 3});
  c.T = genTargets(ndim, ndim == 3 ? 343 : 400, -1, true);
  int nt = c.T.n();
  double L = c.T.extent();
  c.nvar = condOnly ? G::pick<int>({1, 1, 1, 2, 3}) : (G::pct(25) ? 2 : 1); // conditional co-simulations: the data of every variable are honoured
  int ns = G::i(1, 3);
  bool wantNugget = G::pct(condOnly ? 50 : 30);
  for (int k = 0; k < ns; k++)
  {
    std::vector<int> allowed(kTbTypes.begin() + 1, kTbTypes.end());
    c.strucs.push_back(genStruc(ndim, c.nvar, L, allowed, G::pct(40)));
  }
  if (wantNugget)
  {
    Struc s;
    s.type = S_NUGGET;
    s.ratio.assign((size_t)ndim, 1.);
    s.sills = genSills(c.nvar, 0.3);
    if (G::pct(15)) c.strucs.clear(); // pure nugget
    c.strucs.insert(c.strucs.begin() + G::i(0, (int)c.strucs.size()), s);
  }
  for (int v = 0; v < c.nvar; v++) c.means.push_back(G::pct(50) ? 0. : G::r(-5, 5, 2));
  c.cond = condOnly ? 1 : (G::pct(60) ? 1 : 0);
  if (nt < 2) c.cond = condOnly ? 1 : 0;
  c.nbsimu = G::i(1, 4);
  c.nbtuba = G::pct(15) ? G::i(1, 3) : G::sz(1, 200);
  c.seed = G::seed();
  c.seed2 = G::seed(); if (c.seed2 == c.seed) c.seed2 = c.seed % 20000158 + 1;
  if (c.cond)
  {
    int nd = G::sz(1, std::min(condOnly ? 25 : 20, std::max(1, nt - 1)));
    if (condOnly && G::pct(5)) nd = nt > 30 ? 30 : nt; // every target is a datum
    c.placeMode = c.T.grid ? 0 : G::pick<int>({0, 1, 2, 2});
    c.place = genPlacement(nt, nd, c.placeMode);
    for (int v = 0; v < c.nvar; v++)
      for (int k = 0; k < nd; k++) c.z.push_back(G::pct(8) ? TEST : c.means[(size_t)v] + G::r(-30, 30, 8));
    // at least one defined datum per variable
    for (int v = 0; v < c.nvar; v++) if (isNA(c.z[(size_t)v * nd])) c.z[(size_t)v * nd] = 1.25;
    c.drift = G::pct(30) ? 0 : -1;
    c.moving = G::pct(40) ? 1 : 0;
    c.nmaxi = G::i(1, std::max(1, std::min(nd, 12)));
    c.radius = G::pct(30) ? L * G::pick<double>({0.3, 1., 4.}) : 0.;
    if (!condOnly && G::pct(25))
    {
      c.bayes = 1;
      // undefined data values make KrigingSystem::_bayesPreCalculations read past its neighbourhood vector (see report)
      for (int v = 0; v < c.nvar; v++)
        for (int k = 0; k < nd; k++) if (isNA(c.z[(size_t)v * nd + k])) c.z[(size_t)v * nd + k] = c.means[(size_t)v] + 0.5 * k;
      c.drift = G::pct(70) ? 0 : 1;
      int nf = (c.drift == 0) ? 1 : 1 + ndim;
      nf *= c.nvar;
      for (int k = 0; k < nf; k++) { c.dmean.push_back(G::r(-4, 4, 2)); c.dvar.push_back(G::r(1, 8, 4)); }
    }
  }
  return c;
}
static TbCase genTbRepro() { return genTb(false); }
static TbCase genTbCond() { return genTb(true); }

struct TbWorld
{
  std::unique_ptr<Db> dbout, dbin;
  std::unique_ptr<Model> model;
  std::unique_ptr<ANeigh> neigh;
  int ncol0 = 0;
};
static TbWorld buildTb(const TbCase& c)
{
  TbWorld w;
  int ndim = c.T.ndim;
  w.dbout = buildTargets(c.T);
  w.ncol0 = w.dbout->getColumnNumber();
  w.model = buildModel(ndim, c.nvar, c.strucs, c.means, c.drift);
  if (c.cond)
  {
    w.dbin = buildDataOn(w.dbout.get(), ndim, c.place);
    int nd = (int)c.place.size();
    for (int v = 0; v < c.nvar; v++)
    {
      VectorDouble zz(c.z.begin() + (size_t)v * nd, c.z.begin() + (size_t)(v + 1) * nd);
      w.dbin->addColumns(zz, "z" + std::to_string(v + 1), ELoc::Z, v);
    }
    if (c.moving)
      w.neigh.reset(NeighMoving::create(false, c.nmaxi, c.radius > 0 ? c.radius : TEST));
    else
      w.neigh.reset(NeighUnique::create());
  }
  return w;
}
// one call; returns the error code and the output columns
static int callTb(const TbCase& c, int seed, Cols& out, int* dbinCols = nullptr)
{
  TbWorld w = buildTb(c);
  int err;
  if (c.bayes)
  {
    int nf = (int)c.dmean.size();
    MatrixSquareSymmetric dcov(nf);
    for (int i = 0; i < nf; i++) dcov.setValue(i, i, c.dvar[(size_t)i]);
    err = simbayes(w.dbin.get(), w.dbout.get(), w.model.get(), w.neigh.get(), c.nbsimu, seed, toVD(c.dmean), dcov, c.nbtuba);
  }
  else
    err = simtub(w.dbin.get(), w.dbout.get(), w.model.get(), w.neigh.get(), c.nbsimu, seed, c.nbtuba);
  out = newColumns(w.dbout.get(), w.ncol0);
  if (dbinCols && w.dbin) *dbinCols = w.dbin->getColumnNumber();
  return err;
}
static std::vector<int> freeTargets(const TbCase& c)
{
  std::vector<int> isDatum((size_t)c.T.n(), 0);
  for (int p : c.place) isDatum[(size_t)p] = 1;
  std::vector<int> rows;
  for (int i = 0; i < c.T.n(); i++) if (!isDatum[(size_t)i]) rows.push_back(i);
  return rows;
}
static void labelTb(const TbCase& c, Ctx& ctx)
{
  ctx.label(c.bayes ? "api:simbayes" : "api:simtub");
  ctx.label(c.cond ? (c.moving ? "cond:moving" : "cond:unique") : "noncond");
  ctx.label(c.T.grid ? "target:grid" : "target:points");
  ctx.label(fmt("ndim:%d", c.T.ndim));
  ctx.label(fmt("nvar:%d", c.nvar));
  for (auto& s : c.strucs) ctx.label(std::string("struct:") + snameOf(s.type));
  ctx.label(c.nbsimu > 1 ? "nbsimu:>1" : "nbsimu:1");
}

static void runTbRepro(const TbCase& c, Ctx& ctx)
{
  resetGlobals(c.T.ndim);
  labelTb(c, ctx);
  const std::string api = c.bayes ? "simbayes" : "simtub";
  Cols a, b, o;
  ctx.at(api + ":first");
  int e1 = callTb(c, c.seed, a);
  // the second call starts from whatever global state the first one left: only the seed argument is the same
  ctx.at(api + ":second");
  int e2 = callTb(c, c.seed, b);
  if (e1 != e2) { ctx.fail("repro:" + api + ":status", fmt("error codes %d then %d for the same call", e1, e2)); return; }
  if (e1 != 0)
  {
    // an error return is the documented way to refuse an input (e.g. simbayes with fewer data than drift terms):
    // it only has to be reproducible
    ctx.label("rejected:" + api);
    return;
  }
  if ((int)a.size() != c.nbsimu * c.nvar)
  { ctx.fail("columns:" + api, fmt("%d output columns for nbsimu=%d nvar=%d", (int)a.size(), c.nbsimu, c.nvar)); return; }
  std::string d = diffCols(a, b);
  if (!d.empty()) { ctx.fail("repro:" + api + (c.cond ? ":cond" : ":noncond"), "same call twice differs: " + d); return; }
  if (anyNaN(a)) { ctx.fail("nan:" + api, "NaN in the simulated values"); return; }
  // sensitivity: another seed / another rank differ at some target that is not a datum
  // (targets whose kriging system could not be built - empty moving neighbourhood with a drift - are undefined (TEST)
  //  for every seed; point targets of index < ndata are left out because of the recorded defect of
  //  _updateData2ToTarget, which tb_cond reports: they receive the value of the datum of the same index)
  ctx.at(api + ":seed2");
  int e3 = callTb(c, c.seed2, o);
  if (e3 != 0) { ctx.fail("error:" + api, fmt("the call returned error %d with the second seed", e3)); return; }
  std::vector<int> rows;
  for (int r : freeTargets(c))
  {
    if (!c.T.grid && c.cond && r < (int)c.place.size()) continue;
    bool def = true;
    for (auto& col : a) def = def && !isNA(col[(size_t)r]);
    for (auto& col : o) def = def && !isNA(col[(size_t)r]);
    if (def) rows.push_back(r);
  }
  if (rows.empty()) { ctx.label("no-free-target"); return; }
  for (size_t k = 0; k < a.size(); k++)
    if (!colsDifferAt(a[k], o[k], rows))
    { ctx.fail("seed-insensitive:" + api, fmt("column %d identical for seeds %d and %d", (int)k, c.seed, c.seed2)); return; }
  for (int v = 0; v < c.nvar; v++)
    for (int i = 0; i < c.nbsimu; i++)
      for (int j = i + 1; j < c.nbsimu; j++)
        // output columns are ordered simulation-major inside each variable block or the reverse; any two
        // distinct columns must differ, whatever the layout
        if (!colsDifferAt(a[(size_t)(v * c.nbsimu + i)], a[(size_t)(v * c.nbsimu + j)], rows))
        { ctx.fail("rank-insensitive:" + api, fmt("output columns %d and %d are identical", v * c.nbsimu + i, v * c.nbsimu + j)); return; }
  ctx.nontrivial(true);
  ctx.sig = Hash().add(c.T.ndim).add(c.T.grid).add(c.nvar).add(c.cond).add(c.moving).add(c.bayes).add(c.nbsimu).add(c.nbtuba).add(c.drift)
              .add((int)c.place.size()).add(hashStrucs(c.strucs)).h;
}
VERIF_SUB(tb_repro, TbCase, genTbRepro, runTbRepro);

// condition number of the covariance matrix between the defined data (gate of the exactness check)
static double kappaOfData(const TbCase& c, const TbWorld& w, double* scale)
{
  std::vector<int> place;
  int nd = (int)c.place.size();
  std::vector<int> kept;
  for (int k = 0; k < nd; k++)
  {
    bool any = false;
    for (int v = 0; v < c.nvar; v++) any = any || !isNA(c.z[(size_t)v * nd + (size_t)k]);
    if (any) { place.push_back(c.place[(size_t)k]); kept.push_back(k); }
  }
  std::unique_ptr<Db> d = buildDataOn(w.dbout.get(), c.T.ndim, place);
  for (int v = 0; v < c.nvar; v++)
  {
    VectorDouble col(place.size(), 0.);
    for (size_t q = 0; q < kept.size(); q++) if (isNA(c.z[(size_t)v * nd + (size_t)kept[q]])) col[q] = TEST;
    d->addColumns(col, "z" + std::to_string(v + 1), ELoc::Z, v);
  }
  MatrixSquareSymmetric C = w.model->evalCovMatrixSymmetric(d.get());
  int n = C.getNRows();
  Eigen::MatrixXd M(n, n);
  for (int i = 0; i < n; i++)
    for (int j = 0; j < n; j++) M(i, j) = C.getValue(i, j);
  Eigen::SelfAdjointEigenSolver<Eigen::MatrixXd> es(M, Eigen::EigenvaluesOnly);
  double lmin = es.eigenvalues().minCoeff(), lmax = es.eigenvalues().maxCoeff();
  *scale = std::sqrt(std::max(lmax, 0.));
  if (!(lmin > 0)) return INFINITY;
  return lmax / lmin;
}

static void runTbCond(const TbCase& c, Ctx& ctx)
{
  resetGlobals(c.T.ndim);
  labelTb(c, ctx);
  bool nugget = false;
  for (auto& s : c.strucs) nugget = nugget || s.type == S_NUGGET;
  ctx.label(nugget ? "nugget:yes" : "nugget:no");
  ctx.label(fmt("place:%d", c.placeMode));
  int nd = (int)c.place.size();
  double kappa, cscale;
  {
    TbWorld w = buildTb(c);
    ctx.at("evalCovMatrixSymmetric");
    kappa = kappaOfData(c, w, &cscale);
  }
  Cols a;
  ctx.at("simtub");
  int dbinCols = 0;
  int err = callTb(c, c.seed, a, &dbinCols);
  if (err != 0) { ctx.fail("error:simtub", fmt("conditional simtub returned error %d on a valid input", err)); return; }
  if ((int)a.size() != c.nbsimu * c.nvar) { ctx.fail("columns:simtub", fmt("%d output columns for nbsimu=%d and %d variable(s)", (int)a.size(), c.nbsimu, c.nvar)); return; }
  if (dbinCols != c.T.ndim + c.nvar) { ctx.fail("dbin-columns:simtub", fmt("the data base keeps %d columns (expected %d)", dbinCols, c.T.ndim + c.nvar)); return; }
  if (c.nvar > 1) ctx.label(fmt("cosimulation:nvar%d:nbsimu%s", c.nvar, c.nbsimu == c.nvar ? "=nvar" : "!=nvar"));
  if (!(kappa <= 1e10)) { ctx.inconclusive("ill-conditioned"); return; }
  double zmax = 0;
  for (double v : c.z) if (!isNA(v)) zmax = std::max(zmax, std::fabs(v));
  double mmax = 0;
  for (double m : c.means) mmax = std::max(mmax, std::fabs(m));
  double scale = zmax + mmax + 10. * cscale + 1.;
  double tol = 1e4 * kappa * 2.220446049250313e-16 * scale;
  bool checked = false;
  // outputs are ordered by variable, then by simulation (the documented item rank: isimu + nbsimu * ivar)
  for (int iv = 0; iv < c.nvar; iv++)
    for (int k = 0; k < nd; k++)
    {
      double z = c.z[(size_t)iv * nd + (size_t)k];
      if (isNA(z)) continue;
      int t = c.place[(size_t)k];
      for (int s = 0; s < c.nbsimu; s++)
      {
        double v = a[(size_t)(s + c.nbsimu * iv)][(size_t)t];
        checked = true;
        if (std::fabs(v - z) <= tol) continue;
        std::string key;
        if (c.T.grid) key = (nd == 1) ? "cond:grid:single-datum" : "cond:grid";
        else if (t < nd && t != k && sameBits(v, c.z[(size_t)iv * nd + (size_t)t])) key = "cond:points:overwritten";
        else if (t != k && nugget) key = "cond:points:nugget";
        else key = "cond:points";
        if (c.nvar > 1) key += ":multivariate";
        ctx.fail(key, fmt("variable %d simulation %d at target %d = %.17g, datum %d located there = %.17g (tol %.3g, kappa %.3g)", iv + 1, s + 1, t, v,
                          k, z, tol, kappa));
        return;
      }
    }
  ctx.nontrivial(checked);
  ctx.sig = Hash().add(c.T.ndim).add(c.T.grid).add(c.moving).add(c.nbsimu).add(c.nbtuba).add(c.drift).add(nd).add(c.placeMode)
              .add(hashStrucs(c.strucs)).h;
}
VERIF_SUB(tb_cond, TbCase, genTbCond, runTbCond);

// =================================================================== simfft ============
struct FftCase
{
  Targets T;
  std::vector<Struc> strucs;
  int nbsimu = 1, seed = 1, seed2 = 2, aliasing = 1;
  double percent = 0.1;
  template<class A> void io(A& a) { a("T", T)("strucs", strucs)("nbsimu", nbsimu)("seed", seed)("seed2", seed2)("aliasing", aliasing)("percent", percent); }
};
static FftCase genFft()
{
  FftCase c;
  int ndim = G::pick<int>({1, 2, 2, 2, 2, 2, 3});
  c.T = genTargets(ndim, ndim == 3 ? 216 : 400, 1, true);
  for (auto& v : c.T.nx) v = std::max(v, 2); // simfft does not return on a grid with a single node along one axis (see report)
  double dxmin = 1e300;
  for (double d : c.T.dx) dxmin = std::min(dxmin, d);
  int ns = G::i(1, 2);
  for (int k = 0; k < ns; k++)
  {
    Struc s = genStruc(ndim, 1, 1., {S_EXPO, S_SPHE, S_CUBIC, S_GAUSS, S_MATERN}, false);
    s.range = dxmin * G::lu(0.5, ndim == 3 ? 3. : 12.); // keeps the dilated grid small (3-D: a few 10^4 nodes)
    c.strucs.push_back(s);
  }
  if (G::pct(20))
  {
    Struc s;
    s.type = S_NUGGET;
    s.ratio.assign((size_t)ndim, 1.);
    s.sills = {G::r(1, 4, 8)};
    c.strucs.push_back(s);
  }
  c.nbsimu = G::pct(55) ? 1 : G::i(2, 4);
  c.seed = G::seed();
  c.seed2 = G::seed(); if (c.seed2 == c.seed) c.seed2 = c.seed % 20000158 + 1;
  c.aliasing = G::pct(70) ? 1 : 0;
  c.percent = G::pick<double>({0.1, 1., 5.});
  return c;
}
static int callFft(const FftCase& c, int seed, Cols& out)
{
  std::unique_ptr<Db> db = buildTargets(c.T);
  int ncol0 = db->getColumnNumber();
  std::unique_ptr<Model> model = buildModel(c.T.ndim, 1, c.strucs, {}, -1);
  SimuFFTParam par(c.aliasing != 0, c.percent);
  int err = simfft(dynamic_cast<DbGrid*>(db.get()), model.get(), par, c.nbsimu, seed);
  out = newColumns(db.get(), ncol0);
  return err;
}
static void runFft(const FftCase& c, Ctx& ctx)
{
  resetGlobals(c.T.ndim);
  ctx.label(fmt("ndim:%d", c.T.ndim));
  ctx.label(c.nbsimu > 1 ? "nbsimu:>1" : "nbsimu:1");
  for (auto& s : c.strucs) ctx.label(std::string("struct:") + snameOf(s.type));
  Cols a, b, o;
  ctx.at("simfft:first");
  int e1 = callFft(c, c.seed, a);
  ctx.at("simfft:second");
  int e2 = callFft(c, c.seed, b);
  if (e1 != e2) { ctx.fail("repro:simfft:status", fmt("error codes %d then %d", e1, e2)); return; }
  if (e1 != 0) { ctx.fail("error:simfft", fmt("simfft returned error %d on a valid input", e1)); return; }
  std::string d = diffCols(a, b);
  if (!d.empty()) { ctx.fail("repro:simfft", "same call twice differs: " + d); return; }
  if ((int)a.size() != c.nbsimu)
  { ctx.fail("simfft:nbsimu-columns", fmt("%d output column(s) for nbsimu=%d", (int)a.size(), c.nbsimu)); return; }
  if (anyNaN(a)) { ctx.fail("nan:simfft", "NaN in the simulated values"); return; }
  std::vector<int> rows((size_t)c.T.n());
  std::iota(rows.begin(), rows.end(), 0);
  ctx.at("simfft:seed2");
  int e3 = callFft(c, c.seed2, o);
  if (e3 != 0) { ctx.fail("error:simfft", fmt("simfft returned error %d with the second seed", e3)); return; }
  for (size_t k = 0; k < a.size() && k < o.size(); k++)
    if (!colsDifferAt(a[k], o[k], rows)) { ctx.fail("seed-insensitive:simfft", fmt("column %d identical for two seeds", (int)k)); return; }
  for (size_t i = 0; i < a.size(); i++)
    for (size_t j = i + 1; j < a.size(); j++)
      if (!colsDifferAt(a[i], a[j], rows)) { ctx.fail("rank-insensitive:simfft", fmt("simulations %d and %d identical", (int)i + 1, (int)j + 1)); return; }
  ctx.nontrivial(true);
  ctx.sig = Hash().add(c.T.ndim).add(c.T.n()).add(c.nbsimu).add(c.aliasing).add(hashStrucs(c.strucs)).h;
}
VERIF_SUB(fft, FftCase, genFft, runFft);

// =================================================================== simulateSPDE ======
struct SpdeCase
{
  Targets T;
  std::vector<Struc> strucs; // Matern (+ nugget)
  int cond = 0;
  std::vector<int> place;
  std::vector<double> z;
  int cholesky = 1, refine = 3, border = 2, userMesh = 0;
  std::vector<int> mnx;
  std::vector<double> mdx, mx0;
  int nbsimu = 1, seed = 1, seed2 = 2;
  template<class A> void io(A& a)
  {
    a("T", T)("strucs", strucs)("cond", cond)("place", place)("z", z)("cholesky", cholesky)("refine", refine)("border", border);
    a("userMesh", userMesh)("mnx", mnx)("mdx", mdx)("mx0", mx0)("nbsimu", nbsimu)("seed", seed)("seed2", seed2);
  }
};
static SpdeCase genSpde()
{
  SpdeCase c;
  int ndim = 2;
  c.T = genTargets(ndim, 150, -1, false);
  if (c.T.grid) for (auto& v : c.T.nx) v = std::max(v, 2);
  double L = c.T.extent();
  Struc s = genStruc(ndim, 1, L, {S_MATERN}, G::pct(30), 0.25, 1.5);
  s.param = G::pick<double>({1., 1., 2.});
  s.sills = {G::r(2, 8, 4)};
  c.strucs.push_back(s);
  if (G::pct(30))
  {
    Struc n;
    n.type = S_NUGGET;
    n.ratio.assign((size_t)ndim, 1.);
    n.sills = {G::r(1, 4, 8)};
    c.strucs.push_back(n);
  }
  c.cond = G::pct(50) ? 1 : 0;
  int nt = c.T.n();
  if (c.cond)
  {
    int nd = G::sz(1, std::min(15, nt));
    c.place = genPlacement(nt, nd, 0);
    for (int k = 0; k < nd; k++) c.z.push_back(G::r(-16, 16, 8));
  }
  c.cholesky = G::pct(96) ? 1 : 0; // the Chebyshev variant costs ~1.3 s per call whatever the mesh
  c.refine = G::i(2, 4);
  c.border = G::i(1, 3);
  c.userMesh = G::pct(40) ? 1 : 0;
  if (c.userMesh)
  {
    // a regular mesh covering the targets with a margin of 25 % of the field on each side
    std::unique_ptr<Db> t = buildTargets(c.T);
    for (int d = 0; d < ndim; d++)
    {
      double lo = 1e300, hi = -1e300;
      for (int i = 0; i < nt; i++) { lo = std::min(lo, t->getCoordinate(i, d)); hi = std::max(hi, t->getCoordinate(i, d)); }
      int n = G::i(5, 14);
      double margin = 0.25 * L;
      c.mnx.push_back(n);
      c.mx0.push_back(lo - margin);
      c.mdx.push_back((hi - lo + 2. * margin) / (n - 1));
    }
  }
  c.nbsimu = G::i(1, 3);
  c.seed = G::seed();
  c.seed2 = G::seed(); if (c.seed2 == c.seed) c.seed2 = c.seed % 20000158 + 1;
  return c;
}
static int callSpde(const SpdeCase& c, int seed, Cols& out)
{
  int ndim = c.T.ndim;
  std::unique_ptr<Db> dbout = buildTargets(c.T);
  int ncol0 = dbout->getColumnNumber();
  std::unique_ptr<Model> model = buildModel(ndim, 1, c.strucs, {}, -1);
  std::unique_ptr<Db> dbin;
  if (c.cond)
  {
    dbin = buildDataOn(dbout.get(), ndim, c.place);
    dbin->addColumns(toVD(c.z), "z", ELoc::Z, 0);
  }
  std::unique_ptr<MeshETurbo> mesh;
  if (c.userMesh) mesh.reset(MeshETurbo::create(toVI(c.mnx), toVD(c.mdx), toVD(c.mx0)));
  SPDEParam par(c.refine, c.refine, c.border);
  // simulateSPDE has no seed argument: the seed of a call is the one given to the generator just before it
  law_set_random_seed(seed);
  int ret = simulateSPDE(dbin.get(), dbout.get(), model.get(), nullptr, c.nbsimu, mesh.get(), c.cholesky, par);
  out = newColumns(dbout.get(), ncol0);
  return ret;
}
static void runSpde(const SpdeCase& c, Ctx& ctx)
{
  resetGlobals(c.T.ndim);
  ctx.label(c.cond ? "cond" : "noncond");
  ctx.label(c.cholesky ? "solver:cholesky" : "solver:chebyshev");
  ctx.label(c.userMesh ? "mesh:user" : "mesh:auto");
  ctx.label(c.T.grid ? "target:grid" : "target:points");
  Cols a, b, o;
  ctx.at("simulateSPDE:first");
  (void)callSpde(c, c.seed, a);
  ctx.at("simulateSPDE:second");
  (void)callSpde(c, c.seed, b);
  if ((int)a.size() != c.nbsimu) { ctx.fail("columns:simulateSPDE", fmt("%d output columns for nbsimu=%d", (int)a.size(), c.nbsimu)); return; }
  std::string d = diffCols(a, b);
  if (!d.empty()) { ctx.fail(std::string("repro:simulateSPDE") + (c.cond ? ":cond" : ":noncond"), "same call twice differs: " + d); return; }
  if (anyNaN(a)) { ctx.fail("nan:simulateSPDE", "NaN in the simulated values"); return; }
  std::vector<int> rows((size_t)c.T.n());
  std::iota(rows.begin(), rows.end(), 0);
  ctx.at("simulateSPDE:seed2");
  (void)callSpde(c, c.seed2, o);
  if (o.size() != a.size()) { ctx.fail("columns:simulateSPDE", "number of output columns depends on the seed"); return; }
  for (size_t k = 0; k < a.size(); k++)
    if (!colsDifferAt(a[k], o[k], rows)) { ctx.fail("seed-insensitive:simulateSPDE", fmt("column %d identical for two seeds", (int)k)); return; }
  for (size_t i = 0; i < a.size(); i++)
    for (size_t j = i + 1; j < a.size(); j++)
      if (!colsDifferAt(a[i], a[j], rows)) { ctx.fail("rank-insensitive:simulateSPDE", fmt("simulations %d and %d identical", (int)i + 1, (int)j + 1)); return; }
  ctx.nontrivial(true);
  ctx.sig = Hash().add(c.T.grid).add(c.T.n()).add(c.cond).add(c.cholesky).add(c.userMesh).add(c.nbsimu).add(c.refine).add(c.border)
              .add((int)c.place.size()).add(hashStrucs(c.strucs)).h;
}
VERIF_SUB(spde, SpdeCase, genSpde, runSpde);

// =================================================================== simuSpectral ======
struct SpecCase
{
  Targets T;
  std::vector<Struc> strucs; // exactly one
  int nbsimu = 1, ns = 10, seed = 1, seed2 = 2;
  template<class A> void io(A& a) { a("T", T)("strucs", strucs)("nbsimu", nbsimu)("ns", ns)("seed", seed)("seed2", seed2); }
};
static SpecCase genSpec()
{
  SpecCase c;
  int ndim = G::pick<int>({1, 2, 2, 3});
  c.T = genTargets(ndim, ndim == 3 ? 343 : 400, -1, true);
  c.strucs.push_back(genStruc(ndim, 1, c.T.extent(), {S_EXPO, S_GAUSS, S_MATERN}, G::pct(40)));
  c.nbsimu = G::i(1, 4);
  c.ns = G::pct(15) ? G::i(1, 3) : G::sz(1, 100);
  c.seed = G::seed();
  c.seed2 = G::seed(); if (c.seed2 == c.seed) c.seed2 = c.seed % 20000158 + 1;
  return c;
}
static int callSpec(const SpecCase& c, int seed, Cols& out)
{
  std::unique_ptr<Db> db = buildTargets(c.T);
  int ncol0 = db->getColumnNumber();
  std::unique_ptr<Model> model = buildModel(c.T.ndim, 1, c.strucs, {}, -1);
  int err = simuSpectral(nullptr, db.get(), model.get(), c.nbsimu, seed, c.ns);
  out = newColumns(db.get(), ncol0);
  return err;
}
static void runSpec(const SpecCase& c, Ctx& ctx)
{
  resetGlobals(c.T.ndim);
  ctx.label(fmt("ndim:%d", c.T.ndim));
  ctx.label(std::string("struct:") + snameOf(c.strucs[0].type));
  ctx.label(c.T.grid ? "target:grid" : "target:points");
  Cols a, b, o;
  ctx.at("simuSpectral:first");
  int e1 = callSpec(c, c.seed, a);
  ctx.at("simuSpectral:second");
  int e2 = callSpec(c, c.seed, b);
  if (e1 != e2) { ctx.fail("repro:simuSpectral:status", fmt("error codes %d then %d", e1, e2)); return; }
  if (e1 != 0) { ctx.fail("error:simuSpectral", fmt("simuSpectral returned error %d on a valid input", e1)); return; }
  if ((int)a.size() != c.nbsimu) { ctx.fail("columns:simuSpectral", fmt("%d output columns for nbsimu=%d", (int)a.size(), c.nbsimu)); return; }
  std::string d = diffCols(a, b);
  if (!d.empty()) { ctx.fail("repro:simuSpectral", "same call twice differs: " + d); return; }
  if (anyNaN(a)) { ctx.fail("nan:simuSpectral", "NaN in the simulated values"); return; }
  std::vector<int> rows((size_t)c.T.n());
  std::iota(rows.begin(), rows.end(), 0);
  ctx.at("simuSpectral:seed2");
  int e3 = callSpec(c, c.seed2, o);
  if (e3 != 0) { ctx.fail("error:simuSpectral", "error with the second seed"); return; }
  for (size_t k = 0; k < a.size(); k++)
    if (!colsDifferAt(a[k], o[k], rows)) { ctx.fail("seed-insensitive:simuSpectral", fmt("column %d identical for two seeds", (int)k)); return; }
  for (size_t i = 0; i < a.size(); i++)
    for (size_t j = i + 1; j < a.size(); j++)
      if (!colsDifferAt(a[i], a[j], rows)) { ctx.fail("rank-insensitive:simuSpectral", fmt("simulations %d and %d identical", (int)i + 1, (int)j + 1)); return; }
  ctx.nontrivial(true);
  ctx.sig = Hash().add(c.T.ndim).add(c.T.grid).add(c.T.n()).add(c.nbsimu).add(c.ns).add(hashStrucs(c.strucs)).h;
}
VERIF_SUB(spectral, SpecCase, genSpec, runSpec);

// =================================================================== truncated draws ===
struct Itv
{
  double a = 0., b = 0.; // TEST = unbounded side
  template<class A> void io(A& ar) { ar("a", a)("b", b); }
};
struct TruncCase
{
  int seed = 1, ndraw = 5;
  std::vector<Itv> iv;
  template<class A> void io(A& a) { a("seed", seed)("ndraw", ndraw)("iv", iv); }
};
static double genBound()
{
  switch (G::i(0, 5))
  {
    case 0: return G::r(-3, 3, 16);
    case 1: return G::r(-30, 30, 4);
    case 2: return G::pick<double>({-2., 0., 2., -20., 20., -10., 10.}); // the branch limits of the algorithm
    case 3: return G::u(-6., 6.);
    case 4: return (G::b() ? 1. : -1.) * G::u(15., 30.);
    default: return G::u(-30., 30.);
  }
}
static TruncCase genTrunc()
{
  TruncCase c;
  c.seed = G::seed();
  c.ndraw = G::i(1, 20);
  int n = G::sz(1, 30);
  for (int k = 0; k < n; k++)
  {
    Itv I;
    double x = genBound(), y = genBound();
    switch (G::i(0, 9))
    {
      case 0: I.a = x; I.b = x; break;                               // equal bounds
      case 1: I.a = TEST; I.b = x; break;                            // one-sided
      case 2: I.a = x; I.b = TEST; break;
      case 3: I.a = x; I.b = x + G::pick<double>({1e-4, 1e-3, 1e-2, 0.1}); break; // narrow
      default: I.a = std::min(x, y); I.b = std::max(x, y); if (I.b - I.a < 1e-4) I.b = I.a; break;
    }
    if (!isNA(I.b) && I.b > 30.) I.b = 30.;
    if (!isNA(I.a) && !isNA(I.b) && I.a > I.b) I.a = I.b;
    c.iv.push_back(I);
  }
  return c;
}
static void runTrunc(const TruncCase& c, Ctx& ctx)
{
  resetGlobals(2);
  std::vector<double> first;
  for (int pass = 0; pass < 2; pass++)
  {
    law_set_random_seed(c.seed);
    size_t pos = 0;
    for (auto& I : c.iv)
      for (int k = 0; k < c.ndraw; k++, pos++)
      {
        ctx.at("law_gaussian_between_bounds");
        double x = law_gaussian_between_bounds(I.a, I.b);
        if (pass == 0)
        {
          first.push_back(x);
          bool inside = !std::isnan(x) && (isNA(I.a) || x >= I.a) && (isNA(I.b) || x <= I.b);
          if (!inside)
          {
            bool naFar = (isNA(I.a) && !isNA(I.b) && I.b < -20.) || (isNA(I.b) && !isNA(I.a) && I.a > 20.);
            ctx.fail(naFar ? "trunc:na-side-beyond-20" : "trunc:outside",
                     fmt("law_gaussian_between_bounds(%s, %s) = %.17g", isNA(I.a) ? "NA" : fmt("%.17g", I.a).c_str(),
                         isNA(I.b) ? "NA" : fmt("%.17g", I.b).c_str(), x));
            return;
          }
        }
        else if (!sameBits(x, first[pos]))
        {
          ctx.fail("repro:trunc", fmt("draw %d differs after reseeding: %.17g vs %.17g", (int)pos, first[pos], x));
          return;
        }
      }
  }
  bool nt = false;
  Hash h;
  for (auto& I : c.iv)
  {
    bool fin = !isNA(I.a) && !isNA(I.b);
    if (fin && I.b > I.a) nt = true;
    ctx.label(isNA(I.a) || isNA(I.b) ? "iv:one-sided" : (I.a == I.b ? "iv:equal" : (std::max(std::fabs(I.a), std::fabs(I.b)) > 10 ? "iv:far" : "iv:plain")));
    h.addq(I.a).addq(I.b);
  }
  ctx.nontrivial(nt);
  ctx.sig = h.add(c.ndraw).h;
}
VERIF_SUB(trunc, TruncCase, genTrunc, runTrunc);

// =================================================================== gibbs_sampler =====
struct GibbsCase
{
  int ndim = 2;
  std::vector<double> pts;
  std::vector<Struc> strucs;
  std::vector<double> lo, up; // TEST = unbounded side
  int nbsimu = 1, nburn = 3, niter = 10, moving = 0, multiMono = 0, norm = 1, seed = 1, seed2 = 2;
  std::vector<int> sel; // empty, or one flag per sample (0 = masked by the selection)
  bool active(int i) const { return sel.empty() || sel[(size_t)i] != 0; }
  template<class A> void io(A& a)
  {
    a("ndim", ndim)("pts", pts)("strucs", strucs)("lo", lo)("up", up)("nbsimu", nbsimu)("nburn", nburn)("niter", niter);
    a("moving", moving)("multiMono", multiMono)("norm", norm)("seed", seed)("seed2", seed2)("sel", sel);
  }
};
static GibbsCase genGibbs()
{
  GibbsCase c;
  c.ndim = G::pick<int>({1, 2, 2, 3});
  int n = G::sz(1, 40);
  double L = G::pick<double>({1., 100.});
  auto P = vfgeo::genPointSets(c.ndim, {n}, G::pct(30), true, L);
  c.pts = P[0].c;
  int ns = G::i(1, 2);
  for (int k = 0; k < ns; k++) c.strucs.push_back(genStruc(c.ndim, 1, L, {S_EXPO, S_SPHE, S_CUBIC, S_MATERN, S_GAUSS}, G::pct(30), 0.05, 1.));
  if (G::pct(30))
  {
    Struc s;
    s.type = S_NUGGET;
    s.ratio.assign((size_t)c.ndim, 1.);
    s.sills = {G::r(1, 4, 8)};
    c.strucs.push_back(s);
  }
  int style = G::i(0, 3); // 0 mixed, 1 all two-sided, 2 facies-like thresholds, 3 mostly one-sided
  for (int i = 0; i < n; i++)
  {
    double a = TEST, b = TEST;
    int kind = G::i(0, 9);
    double x = G::r(-3, 3, 8), w = G::pick<double>({0.125, 0.5, 1., 2., 4.});
    if (style == 2)
    {
      double t[4] = {-10., -0.75, 0.5, 10.};
      int f = G::i(0, 2);
      a = t[f]; b = t[f + 1];
    }
    else if (style == 1 || kind <= 3) { a = x; b = x + w; }
    else if (kind == 4) { a = x; b = x; }          // hard datum
    else if (kind == 5 || (style == 3 && kind <= 7)) { if (G::b()) a = x; else b = x; }
    else if (kind == 6) { a = G::r(-30, 30, 2); b = a + w; } // far tail
    else if (kind == 7) { a = x; b = x + w; }
    // kind 8, 9: unbounded
    c.lo.push_back(a);
    c.up.push_back(b);
  }
  c.nbsimu = G::i(1, 4);
  c.nburn = G::pct(5) ? 0 : G::i(1, 8);
  c.niter = c.nburn + 2 + G::i(0, 15);
  c.moving = G::pct(35) ? 1 : 0;
  c.multiMono = G::pct(25) ? 1 : 0;
  c.norm = G::pct(70) ? 1 : 0;
  c.seed = G::seed();
  c.seed2 = G::seed(); if (c.seed2 == c.seed) c.seed2 = c.seed % 20000158 + 1;
  if (n >= 2 && G::pct(35))
  {
    // a selection on the conditioning Db: masked samples (also before active ones) carry bounds of their own,
    // which must never be used for another sample
    c.sel.assign((size_t)n, 1);
    for (int i = 0; i < n; i++) c.sel[(size_t)i] = G::pct(70) ? 1 : 0;
    c.sel[(size_t)G::i(0, n - 1)] = 1;
  }
  return c;
}
static int callGibbs(const GibbsCase& c, int seed, Cols& out)
{
  std::unique_ptr<Db> db(Db::create());
  int n = (int)c.lo.size();
  for (int d = 0; d < c.ndim; d++)
  {
    VectorDouble x((size_t)n);
    for (int i = 0; i < n; i++) x[(size_t)i] = c.pts[(size_t)i * c.ndim + d];
    db->addColumns(x, "x" + std::to_string(d + 1), ELoc::X, d);
  }
  db->addColumns(toVD(c.lo), "L", ELoc::L, 0);
  db->addColumns(toVD(c.up), "U", ELoc::U, 0);
  if (!c.sel.empty())
  {
    VectorDouble sv((size_t)n);
    for (int i = 0; i < n; i++) sv[(size_t)i] = c.sel[(size_t)i] ? 1. : 0.;
    db->addColumns(sv, "sel", ELoc::SEL, 0);
  }
  int ncol0 = db->getColumnNumber();
  std::unique_ptr<Model> model = buildModel(c.ndim, 1, c.strucs, {}, -1);
  int err = gibbs_sampler(db.get(), model.get(), c.nbsimu, seed, c.nburn, c.niter, c.moving != 0, c.norm != 0, c.multiMono != 0, false,
                          false, 0, 5., false, false);
  out = newColumns(db.get(), ncol0);
  return err;
}
// condition number of the covariance matrix of the samples (the sampler inverts / factorises it)
static double kappaGibbs(const GibbsCase& c)
{
  std::unique_ptr<Db> db(Db::create());
  int n = (int)c.lo.size();
  for (int d = 0; d < c.ndim; d++)
  {
    VectorDouble x((size_t)n);
    for (int i = 0; i < n; i++) x[(size_t)i] = c.pts[(size_t)i * c.ndim + d];
    db->addColumns(x, "x" + std::to_string(d + 1), ELoc::X, d);
  }
  db->addColumns(VectorDouble((size_t)n, 0.), "z", ELoc::Z, 0);
  if (!c.sel.empty())
  {
    VectorDouble sv((size_t)n);
    for (int i = 0; i < n; i++) sv[(size_t)i] = c.sel[(size_t)i] ? 1. : 0.;
    db->addColumns(sv, "sel", ELoc::SEL, 0);
  }
  std::unique_ptr<Model> model = buildModel(c.ndim, 1, c.strucs, {}, -1);
  MatrixSquareSymmetric C = model->evalCovMatrixSymmetric(db.get());
  int m = C.getNRows();
  Eigen::MatrixXd M(m, m);
  for (int i = 0; i < m; i++)
    for (int j = 0; j < m; j++) M(i, j) = C.getValue(i, j);
  Eigen::SelfAdjointEigenSolver<Eigen::MatrixXd> es(M, Eigen::EigenvaluesOnly);
  double lmin = es.eigenvalues().minCoeff(), lmax = es.eigenvalues().maxCoeff();
  if (!(lmin > 0)) return INFINITY;
  return lmax / lmin;
}
static void runGibbs(const GibbsCase& c, Ctx& ctx)
{
  resetGlobals(c.ndim);
  int n = (int)c.lo.size();
  ctx.at("evalCovMatrixSymmetric");
  double kappa = kappaGibbs(c);
  ctx.label(c.multiMono ? "algo:multimono" : (c.moving ? "algo:moving" : "algo:unique"));
  ctx.label(c.nburn == 0 ? "nburn:0" : "nburn:>0");
  ctx.label(fmt("ndim:%d", c.ndim));
  Cols a, b, o;
  ctx.at(fmt("gibbs_sampler:first:moving%d:multimono%d:%s", c.moving, c.multiMono, c.sel.empty() ? "nosel" : "sel"));
  int e1 = callGibbs(c, c.seed, a);
  ctx.at("gibbs_sampler:second");
  int e2 = callGibbs(c, c.seed, b);
  if (e1 != e2) { ctx.fail("repro:gibbs:status", fmt("error codes %d then %d", e1, e2)); return; }
  if (e1 != 0) { ctx.label("rejected"); return; } // e.g. covariance matrix reported singular: a documented error return
  // the conditional means and variances come from the inverse (or the sparse factor) of the covariance matrix:
  // beyond kappa 1e10 they are noise (NaN with the moving variant) and nothing is asserted (DESIGN 3)
  if (!(kappa <= 1e10)) { ctx.inconclusive("ill-conditioned"); return; }
  if ((int)a.size() != c.nbsimu) { ctx.fail("columns:gibbs", fmt("%d output columns for nbsimu=%d", (int)a.size(), c.nbsimu)); return; }
  std::string d = diffCols(a, b);
  if (!d.empty()) { ctx.fail("repro:gibbs", "same call twice differs: " + d); return; }
  bool bounded = false, freeSample = false;
  for (int s = 0; s < c.nbsimu; s++)
    for (int i = 0; i < n; i++)
    {
      if (!c.active(i)) continue; // masked samples: nothing is claimed here (C05)
      double y = a[(size_t)s][(size_t)i], lo = c.lo[(size_t)i], up = c.up[(size_t)i];
      bool hasLo = !isNA(lo), hasUp = !isNA(up);
      if (hasLo && hasUp && up > lo) bounded = true;
      if (!(hasLo && hasUp && lo == up)) freeSample = true;
      bool ok = !std::isnan(y) && !isNA(y);
      if (ok && hasLo) ok = y >= lo - 1e-9 * (1. + std::fabs(lo));
      if (ok && hasUp) ok = y <= up + 1e-9 * (1. + std::fabs(up));
      if (!ok)
      {
        std::string key = (hasLo != hasUp) ? "gibbs:bounds:one-sided" : (c.nburn == 0 ? "gibbs:bounds:nburn0" : "gibbs:bounds");
        bool pureGauss = true;
        for (auto& st : c.strucs) pureGauss = pureGauss && st.type == S_GAUSS;
        if (std::isnan(y)) key = pureGauss ? "gibbs:nan:pure-gaussian" : ((c.moving && !c.multiMono) ? "gibbs:nan:moving" : "gibbs:nan");
        ctx.fail(key, fmt("simulation %d sample %d = %.17g outside [%s, %s]", s + 1, i, y, hasLo ? fmt("%.17g", lo).c_str() : "NA",
                          hasUp ? fmt("%.17g", up).c_str() : "NA"));
        return;
      }
    }
  // Seed / rank sensitivity is not asserted for the moving-neighbourhood Gibbs: its truncated sparse covariance is
  // not positive definite (recorded finding gibbs:nan:moving), the conditional variances it yields can be degenerate
  // and every draw then falls in the deterministic "all weights underflow" branch of the truncated Gaussian draw.
  if (freeSample && !c.moving)
  {
    std::vector<int> rows;
    for (int i = 0; i < n; i++) if (c.active(i) && !(!isNA(c.lo[(size_t)i]) && c.lo[(size_t)i] == c.up[(size_t)i])) rows.push_back(i);
    ctx.at("gibbs_sampler:seed2");
    int e3 = callGibbs(c, c.seed2, o);
    if (e3 != 0) { ctx.fail("repro:gibbs:status", "the status depends on the seed"); return; }
    for (size_t k = 0; k < a.size(); k++)
      if (!colsDifferAt(a[k], o[k], rows)) { ctx.fail("seed-insensitive:gibbs", fmt("column %d identical for two seeds", (int)k)); return; }
    for (size_t i = 0; i < a.size(); i++)
      for (size_t j = i + 1; j < a.size(); j++)
        if (!colsDifferAt(a[i], a[j], rows)) { ctx.fail("rank-insensitive:gibbs", fmt("simulations %d and %d identical", (int)i + 1, (int)j + 1)); return; }
  }
  ctx.nontrivial(bounded);
  ctx.sig = Hash().add(c.ndim).add(n).add(c.nbsimu).add(c.nburn).add(c.niter).add(c.moving).add(c.multiMono).add(c.norm).add(hashStrucs(c.strucs)).h;
}
VERIF_SUB(gibbs, GibbsCase, genGibbs, runGibbs);

// =================================================================== simpgs ============
// Lithotype rules in prefix notation ("S": threshold along Y1, "T": along Y2, "Fk": facies k); the lower side of a
// threshold is the first child.  Independent oracle for rho = 0: a node splits its rectangle of the (cdf1, cdf2) unit
// square along its axis in proportion of the total proportions of its two subtrees.
static const std::vector<std::vector<std::string>> kRules = {
  {"S", "F1", "F2"},
  {"S", "S", "F1", "F2", "F3"},
  {"S", "T", "F1", "F2", "F3"},
  {"S", "F1", "T", "F2", "F3"},
  {"S", "T", "F1", "F2", "T", "F3", "F4"},
  {"S", "F1", "S", "F2", "F3"},
};
static int nfacOfRule(int r)
{
  int n = 0;
  for (auto& s : kRules[(size_t)r]) if (s[0] == 'F') n++;
  return n;
}
static int ngrfOfRule(int r)
{
  for (auto& s : kRules[(size_t)r]) if (s == "T") return 2;
  return 1;
}
struct Rect { double c[4] = {0., 1., 0., 1.}; }; // cdf1min, cdf1max, cdf2min, cdf2max
static double subtreeProp(const std::vector<std::string>& r, size_t& pos, const std::vector<double>& props)
{
  const std::string& s = r[pos++];
  if (s[0] == 'F') return props[(size_t)(s[1] - '1')];
  double p1 = subtreeProp(r, pos, props);
  double p2 = subtreeProp(r, pos, props);
  return p1 + p2;
}
static void splitRule(const std::vector<std::string>& r, size_t& pos, const std::vector<double>& props, Rect rc, std::vector<Rect>& out)
{
  const std::string& s = r[pos++];
  if (s[0] == 'F') { out[(size_t)(s[1] - '1')] = rc; return; }
  int ax = (s == "S") ? 0 : 1;
  size_t p = pos;
  double p1 = subtreeProp(r, p, props);
  double p2 = subtreeProp(r, p, props);
  double cut = rc.c[2 * ax] + (rc.c[2 * ax + 1] - rc.c[2 * ax]) * p1 / (p1 + p2);
  Rect lo = rc, hi = rc;
  lo.c[2 * ax + 1] = cut;
  hi.c[2 * ax] = cut;
  splitRule(r, pos, props, lo, out);
  splitRule(r, pos, props, hi, out);
}
// exact standard normal quantile (bisection on erfc; +-infinity at 0 / 1)
static double qnorm(double p)
{
  if (p <= 0) return -INFINITY;
  if (p >= 1) return INFINITY;
  double lo = -40, hi = 40;
  for (int it = 0; it < 200; it++)
  {
    double mid = 0.5 * (lo + hi);
    if (0.5 * std::erfc(-mid / std::sqrt(2.)) < p) lo = mid; else hi = mid;
  }
  return 0.5 * (lo + hi);
}

// a conditioning gaussian equal to a threshold up to the rounding of yk + sk * ((t - yk) / sk)
static bool nearThr(double y, double t) { return std::fabs(y - t) <= 1e-12 * (1. + std::fabs(t)); }

struct PgsCase
{
  Targets T; // 2-D grid
  int rule = 0;
  std::vector<double> props;
  std::vector<Struc> m1, m2;
  int cond = 1;
  std::vector<int> place, facies;
  int nbsimu = 1, nbtuba = 20, nburn = 5, niter = 20, gaus = 0, seed = 1, seed2 = 2;
  template<class A> void io(A& a)
  {
    a("T", T)("rule", rule)("props", props)("m1", m1)("m2", m2)("cond", cond)("place", place)("facies", facies);
    a("nbsimu", nbsimu)("nbtuba", nbtuba)("nburn", nburn)("niter", niter)("gaus", gaus)("seed", seed)("seed2", seed2);
  }
};
static PgsCase genPgs()
{
  PgsCase c;
  c.T = genTargets(2, 300, 1, G::pct(50));
  for (auto& v : c.T.nx) v = std::max(v, 2);
  double L = c.T.extent();
  c.rule = G::i(0, (int)kRules.size() - 1);
  int nf = nfacOfRule(c.rule);
  {
    // proportions k/20 with every facies >= 2/20
    std::vector<int> w((size_t)nf, 2);
    for (int k = 0; k < 20 - 2 * nf; k++) w[(size_t)G::i(0, nf - 1)]++;
    for (int k = 0; k < nf; k++) c.props.push_back(w[(size_t)k] / 20.);
  }
  auto genM = [&](std::vector<Struc>& m) {
    int ns = G::i(1, 2);
    for (int k = 0; k < ns; k++) m.push_back(genStruc(2, 1, L, {S_EXPO, S_SPHE, S_CUBIC, S_MATERN, S_GAUSS, S_STABLE}, G::pct(30), 0.1, 1.5));
    if (G::pct(20))
    {
      Struc s;
      s.type = S_NUGGET;
      s.ratio.assign(2, 1.);
      s.sills = {G::r(1, 4, 8)};
      m.push_back(s);
    }
  };
  genM(c.m1);
  if (ngrfOfRule(c.rule) == 2) genM(c.m2);
  c.cond = G::pct(85) ? 1 : 0;
  int nt = c.T.n();
  if (c.cond)
  {
    int nd = G::sz(1, std::min(15, nt));
    c.place = genPlacement(nt, nd, 0);
    for (int k = 0; k < nd; k++) c.facies.push_back(G::i(1, nf));
  }
  c.nbsimu = G::pick<int>({1, 1, 2, 3});
  c.nbtuba = G::sz(1, 100);
  c.nburn = G::i(1, 6);
  c.niter = c.nburn + 2 + G::i(0, 20);
  c.gaus = G::pct(50) ? 1 : 0;
  c.seed = G::seed();
  c.seed2 = G::seed(); if (c.seed2 == c.seed) c.seed2 = c.seed % 20000158 + 1;
  return c;
}
struct PgsWorld
{
  std::unique_ptr<Db> dbout, dbin;
  std::unique_ptr<Model> m1, m2;
  std::unique_ptr<Rule> rule;
  std::unique_ptr<RuleProp> rp;
  std::unique_ptr<NeighUnique> neigh;
};
static int callPgs(const PgsCase& c, int seed, Cols& out, PgsWorld* keep = nullptr)
{
  PgsWorld w;
  w.dbout = buildTargets(c.T);
  int ncol0 = w.dbout->getColumnNumber();
  w.m1 = buildModel(2, 1, c.m1, {}, -1);
  if (!c.m2.empty()) w.m2 = buildModel(2, 1, c.m2, {}, -1);
  VectorString names(kRules[(size_t)c.rule].begin(), kRules[(size_t)c.rule].end());
  w.rule.reset(Rule::createFromNames(names));
  w.rp.reset(RuleProp::createFromRule(w.rule.get(), toVD(c.props)));
  w.neigh.reset(NeighUnique::create());
  if (c.cond)
  {
    w.dbin = buildDataOn(w.dbout.get(), 2, c.place);
    VectorDouble f(c.facies.begin(), c.facies.end());
    w.dbin->addColumns(f, "facies", ELoc::Z, 0);
  }
  int err = simpgs(w.dbin.get(), w.dbout.get(), w.rp.get(), w.m1.get(), w.m2.get(), w.neigh.get(), c.nbsimu, seed, c.gaus, 0, 0, 0,
                   c.nbtuba, c.nburn, c.niter);
  out = newColumns(w.dbout.get(), ncol0);
  if (keep) *keep = std::move(w);
  return err;
}
static void runPgs(const PgsCase& c, Ctx& ctx)
{
  resetGlobals(2);
  int ngrf = ngrfOfRule(c.rule), nf = nfacOfRule(c.rule);
  ctx.label(fmt("rule:%d", c.rule));
  ctx.label(c.cond ? "cond" : "noncond");
  ctx.label(c.gaus ? "out:gaussian" : "out:facies");
  ctx.label(c.nbsimu > 1 ? "nbsimu:>1" : "nbsimu:1");
  Cols a, b, o;
  PgsWorld w;
  ctx.at("simpgs:first");
  int e1 = callPgs(c, c.seed, a, &w);
  ctx.at("simpgs:second");
  int e2 = callPgs(c, c.seed, b);
  if (e1 != e2) { ctx.fail("repro:simpgs:status", fmt("error codes %d then %d", e1, e2)); return; }
  if (e1 != 0) { ctx.label("rejected"); return; } // Gibbs covariance inversion may legitimately fail
  int expected = c.gaus ? ngrf * c.nbsimu : c.nbsimu;
  if ((int)a.size() != expected) { ctx.fail("columns:simpgs", fmt("%d output columns, expected %d", (int)a.size(), expected)); return; }
  std::string d = diffCols(a, b);
  if (!d.empty()) { ctx.fail(std::string("repro:simpgs") + (c.cond ? ":cond" : ":noncond"), "same call twice differs: " + d); return; }
  if (anyNaN(a)) { ctx.fail("nan:simpgs", "NaN in the output"); return; }

  // thresholds of every facies, recomputed from the proportions
  std::vector<Rect> rect((size_t)nf);
  {
    size_t pos = 0;
    splitRule(kRules[(size_t)c.rule], pos, c.props, Rect(), rect);
  }
  const double ttol = 1e-4; // the library's quantile function is accurate to ~1e-6
  bool checked = false;
  int nd = (int)c.place.size();
  const std::string pk = (nd == 1) ? "pgs:single-datum:" : ((ngrf == 2 && c.nbsimu > 1) ? "pgs:2grf-multisimu:" : "pgs:");
  if (c.cond)
  {
    // the rule keeps the thresholds it used inside simpgs (constant proportions): they are read back, not recomputed
    for (int k = 0; k < nd; k++)
    {
      int t = c.place[(size_t)k], f = c.facies[(size_t)k];
      for (int s = 0; s < c.nbsimu; s++)
      {
        checked = true;
        if (!c.gaus)
        {
          double got = a[(size_t)s][(size_t)t];
          if (got != (double)f)
          {
            // the same call with flag_gaus delivers the gaussians behind these facies: is the conditioning value
            // sitting exactly on a threshold of its facies (closed interval on both sides) ?
            PgsCase cg = c;
            cg.gaus = 1;
            Cols g;
            PgsWorld wg;
            bool onThr = false;
            if (callPgs(cg, c.seed, g, &wg) == 0 && (int)g.size() == ngrf * c.nbsimu)
            {
              VectorDouble th = wg.rule->getThresh(f);
              for (int gi = 0; gi < ngrf && th.size() == 4; gi++)
              {
                double yy = g[(size_t)(gi * c.nbsimu + s)][(size_t)t];
                onThr = onThr || nearThr(yy, th[(size_t)(2 * gi)]) || nearThr(yy, th[(size_t)(2 * gi + 1)]);
              }
            }
            ctx.fail(onThr ? std::string("pgs:on-threshold:data-facies") : pk + "data-facies",
                     fmt("simulation %d at the node of datum %d: facies %g, observed %d%s", s + 1, k, got, f,
                         onThr ? " (conditioning gaussian on a threshold up to rounding)" : ""));
            return;
          }
          continue;
        }
        double y[2] = {a[(size_t)s][(size_t)t], ngrf == 2 ? a[(size_t)(c.nbsimu + s)][(size_t)t] : 0.};
        for (int g = 0; g < ngrf; g++)
        {
          double lo = qnorm(rect[(size_t)(f - 1)].c[2 * g]), hi = qnorm(rect[(size_t)(f - 1)].c[2 * g + 1]);
          if (!(y[g] >= lo - ttol && y[g] <= hi + ttol))
          {
            ctx.fail(pk + "data-gauss", fmt("simulation %d, gaussian %d at the node of datum %d (facies %d) = %.17g outside [%g, %g]",
                                                   s + 1, g + 1, k, f, y[g], lo, hi));
            return;
          }
        }
        int flib = w.rule->getFaciesFromGaussian(y[0], y[1]);
        bool onThr = false;
        {
          VectorDouble th = w.rule->getThresh(f);
          for (int g = 0; g < ngrf && th.size() == 4; g++) onThr = onThr || nearThr(y[g], th[(size_t)(2 * g)]) || nearThr(y[g], th[(size_t)(2 * g + 1)]);
        }
        if (flib != f)
        { ctx.fail(onThr ? std::string("pgs:on-threshold:data-gauss-rule") : pk + "data-gauss-rule", fmt("simulation %d: gaussians (%.17g, %.17g) at datum %d give facies %d, observed %d", s + 1, y[0], y[1], k, flib, f)); return; }
      }
    }
  }
  if (!c.gaus)
    for (auto& col : a)
      for (double v : col)
        if (!(v >= 1 && v <= nf && v == std::floor(v))) { ctx.fail("pgs:facies-range", fmt("simulated facies %g not in 1..%d", v, nf)); return; }
  if (c.gaus)
  {
    std::vector<int> isDatum((size_t)c.T.n(), 0), rows;
    for (int p : c.place) isDatum[(size_t)p] = 1;
    for (int i = 0; i < c.T.n(); i++) if (!isDatum[(size_t)i]) rows.push_back(i);
    if (!rows.empty())
    {
      ctx.at("simpgs:seed2");
      int e3 = callPgs(c, c.seed2, o);
      if (e3 == 0)
      {
        for (size_t k = 0; k < a.size() && k < o.size(); k++)
          if (!colsDifferAt(a[k], o[k], rows)) { ctx.fail("seed-insensitive:simpgs", fmt("column %d identical for two seeds", (int)k)); return; }
        for (size_t i = 0; i < a.size(); i++)
          for (size_t j = i + 1; j < a.size(); j++)
            if (!colsDifferAt(a[i], a[j], rows)) { ctx.fail("rank-insensitive:simpgs", fmt("output columns %d and %d identical", (int)i, (int)j)); return; }
      }
    }
  }
  ctx.nontrivial(checked);
  ctx.sig = Hash().add(c.rule).add(c.T.n()).add(c.cond).add(c.gaus).add(c.nbsimu).add(c.nbtuba).add(c.nburn).add(c.niter).add(nd)
              .add(hashStrucs(c.m1)).add(hashStrucs(c.m2)).h;
}
VERIF_SUB(pgs, PgsCase, genPgs, runPgs);

VERIF_MAIN()
