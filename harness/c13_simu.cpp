// C13 — simulations are reproducible from their seed and honour their conditioning.  DESIGN.md §5 C13.
//
// Sub-properties
//   tb_repro   simtub / simbayes (non-conditional, conditional, unique + moving neighbourhood): the same call on
//              fresh copies of the same inputs, twice in one process, gives bit-identical output columns;
//              another seed, and two simulation ranks of one call, differ somewhere.
//   tb_cond    conditional simtub: the value at a target coinciding with a datum equals the datum
//              (kappa-scaled tolerance), grid and point targets, with and without nugget.
//   fft        simfft: reproducible, seed sensitive, nbsimu realisations delivered and pairwise different.
//   spde       simulateSPDE (the seed is the one given to law_set_random_seed before the call: the function
//              has no seed argument): reproducible, seed sensitive.  No exactness claim (DESIGN §5 C13 L).
//   spectral   simuSpectral: reproducible, seed sensitive.
//   trunc      law_gaussian_between_bounds(a,b) in [a,b] (|a|,|b| <= 30, NA sides, equal bounds), and the
//              sequence of draws is a function of the seed.
//   gibbs      gibbs_sampler: reproducible, seed sensitive, every simulation inside each sample's [L,U].
//   pgs        simpgs: reproducible, seed sensitive; conditional: simulated facies at data nodes = observed
//              facies; with flag_gaus the gaussians at data nodes lie inside the thresholds of the observed
//              facies (thresholds recomputed here from the proportions, independent of Rule.cpp).
#include "verif.hpp"
#include "geo_common.hpp"

#include "Db/Db.hpp"
#include "Db/DbGrid.hpp"
#include "Model/Model.hpp"
#include "Covariances/CovContext.hpp"
#include "Neigh/NeighUnique.hpp"
#include "Neigh/NeighMoving.hpp"
#include "Simulation/CalcSimuTurningBands.hpp"
#include "Simulation/CalcSimuFFT.hpp"
#include "Simulation/SimuFFTParam.hpp"
#include "Simulation/SimuSpectral.hpp"
#include "API/SPDE.hpp"
#include "API/SPDEParam.hpp"
#include "Mesh/MeshETurbo.hpp"
#include "LithoRule/Rule.hpp"
#include "LithoRule/RuleProp.hpp"
#include "Matrix/MatrixSquareSymmetric.hpp"
#include "Space/ASpaceObject.hpp"
#include "Basic/Law.hpp"
#include "Basic/OptDbg.hpp"
#include "Basic/OptCst.hpp"
#include "Basic/NamingConvention.hpp"
#include "Enum/ECov.hpp"
#include "Enum/ELoc.hpp"
#include "Enum/ESpaceType.hpp"
#include "geoslib_f.h"
#include "geoslib_define.h"

#include <Eigen/Dense>
#include <memory>
#include <algorithm>
#include <numeric>
#include <cstring>

using namespace vf;

// ------------------------------------------------------------------ small helpers ------
static bool isNA(double v) { return v > 1e29; } // TEST = 1.234e30; generated values stay below 1e29
static VectorDouble toVD(const std::vector<double>& v) { return VectorDouble(v.begin(), v.end()); }
static VectorInt toVI(const std::vector<int>& v) { return VectorInt(v.begin(), v.end()); }
static bool sameBits(double a, double b)
{
  uint64_t x, y;
  std::memcpy(&x, &a, 8);
  std::memcpy(&y, &b, 8);
  return x == y;
}
typedef std::vector<std::vector<double>> Cols;

// global state every case starts from (one process runs thousands of cases)
static void resetGlobals(int ndim)
{
  defineDefaultSpace(ESpaceType::RN, (unsigned)ndim);
  law_set_old_style(true);
  law_set_random_seed(13579);
  OptDbg::reset();
  set_rule_mode(1);
  set_test_discrete(false);
}

// columns of `db` from column index `from` on
static Cols newColumns(const Db* db, int from)
{
  Cols c;
  for (int ic = from; ic < db->getColumnNumber(); ic++)
  {
    VectorDouble v = db->getColumnByColIdx(ic, false, false);
    c.emplace_back(v.begin(), v.end());
  }
  return c;
}
// first difference between two column sets ("" when bit-identical)
static std::string diffCols(const Cols& a, const Cols& b)
{
  if (a.size() != b.size()) return fmt("%d columns vs %d", (int)a.size(), (int)b.size());
  for (size_t c = 0; c < a.size(); c++)
  {
    if (a[c].size() != b[c].size()) return fmt("column %d: %d rows vs %d", (int)c, (int)a[c].size(), (int)b[c].size());
    for (size_t i = 0; i < a[c].size(); i++)
      if (!sameBits(a[c][i], b[c][i]))
        return fmt("column %d row %d: %.17g vs %.17g", (int)c, (int)i, a[c][i], b[c][i]);
  }
  return "";
}
static bool colsDifferAt(const std::vector<double>& a, const std::vector<double>& b, const std::vector<int>& rows)
{
  for (int r : rows)
    if (!sameBits(a[(size_t)r], b[(size_t)r])) return true;
  return false;
}
static bool anyNaN(const Cols& c)
{
  for (auto& v : c)
    for (double x : v)
      if (std::isnan(x)) return true;
  return false;
}

// ------------------------------------------------------------------ models -------------
enum { S_NUGGET = 0, S_EXPO, S_SPHE, S_CUBIC, S_GAUSS, S_SINCARD, S_BESSELJ, S_MATERN, S_STABLE, S_NTYPES };
static ECov ecovOf(int t)
{
  switch (t)
  {
    case S_NUGGET: return ECov::NUGGET;
    case S_EXPO: return ECov::EXPONENTIAL;
    case S_SPHE: return ECov::SPHERICAL;
    case S_CUBIC: return ECov::CUBIC;
    case S_GAUSS: return ECov::GAUSSIAN;
    case S_SINCARD: return ECov::SINCARD;
    case S_BESSELJ: return ECov::BESSELJ;
    case S_MATERN: return ECov::MATERN;
    default: return ECov::STABLE;
  }
}
static const char* snameOf(int t)
{
  static const char* n[] = {"nugget", "expo", "sphe", "cubic", "gauss", "sincard", "besselj", "matern", "stable"};
  return n[t];
}
struct Struc
{
  int type = S_EXPO;
  double range = 1., param = 1.;
  std::vector<double> ratio;  // per axis (range_i = range * ratio_i)
  std::vector<double> angles; // ndim values (degrees) or empty
  std::vector<double> sills;  // nvar*nvar (symmetric, positive definite)
  template<class A> void io(A& a) { a("type", type)("range", range)("param", param)("ratio", ratio)("angles", angles)("sills", sills); }
};
// sill matrix A A' + eps I on a coarse grid of values
static std::vector<double> genSills(int nvar, double scale)
{
  if (nvar == 1) return {scale * G::r(1, 12, 4)};
  std::vector<double> a((size_t)nvar * nvar), s((size_t)nvar * nvar, 0.);
  for (auto& x : a) x = G::r(-4, 4, 4);
  for (int i = 0; i < nvar; i++)
    for (int j = 0; j < nvar; j++)
    {
      double v = (i == j) ? 0.25 : 0.;
      for (int k = 0; k < nvar; k++) v += a[(size_t)i * nvar + k] * a[(size_t)j * nvar + k];
      s[(size_t)i * nvar + j] = scale * v;
    }
  return s;
}
// a structure among `allowed`, ranges relative to the field size L
static Struc genStruc(int ndim, int nvar, double L, const std::vector<int>& allowed, bool aniso, double rlo = 0.05, double rhi = 2.)
{
  Struc s;
  s.type = G::pickv(allowed);
  s.range = L * G::lu(rlo, rhi);
  s.param = 1.;
  if (s.type == S_BESSELJ) s.param = G::r(4, 8, 4);                 // nu in [1,2]: valid up to 3-D (nu >= d/2-1)
  if (s.type == S_MATERN) s.param = G::pick<double>({0.3, 0.5, 1., 1.5, 2.5});
  if (s.type == S_STABLE) s.param = G::pick<double>({0.4, 1., 1.5, 2.});
  s.ratio.assign((size_t)ndim, 1.);
  if (aniso && ndim > 1 && s.type != S_NUGGET)
  {
    for (int d = 1; d < ndim; d++) s.ratio[(size_t)d] = G::pick<double>({1., 0.5, 0.25, 2.});
    s.angles.assign((size_t)ndim, 0.);
    s.angles[0] = G::r(0, 179, 1);
    if (ndim == 3) { s.angles[1] = G::r(-40, 40, 1); s.angles[2] = G::r(-40, 40, 1); }
  }
  s.sills = genSills(nvar, 1.);
  return s;
}
static std::unique_ptr<Model> buildModel(int ndim, int nvar, const std::vector<Struc>& st, const std::vector<double>& means, int drift)
{
  CovContext ctxt(nvar, ndim);
  std::unique_ptr<Model> m(Model::create(ctxt));
  for (auto& s : st)
  {
    if (s.type == S_NUGGET)
      m->addCovFromParam(ECov::NUGGET, 0., 0., 1., VectorDouble(), toVD(s.sills));
    else
    {
      VectorDouble ranges((size_t)ndim);
      for (int d = 0; d < ndim; d++) ranges[(size_t)d] = s.range * s.ratio[(size_t)d];
      m->addCovFromParam(ecovOf(s.type), 0., 0., s.param, ranges, toVD(s.sills), toVD(s.angles), true);
    }
  }
  if (!means.empty()) m->setMeans(toVD(means));
  if (drift >= 0) m->setDriftIRF(drift);
  return m;
}
static uint64_t hashStrucs(const std::vector<Struc>& st)
{
  Hash h;
  for (auto& s : st) h.add(s.type).addq(s.param).add((int)s.angles.size());
  return h.h;
}

// ------------------------------------------------------------------ targets ------------
struct Targets
{
  int ndim = 2, grid = 1;
  std::vector<int> nx;
  std::vector<double> dx, x0;
  double angle = 0.; // rotation of the grid (2-D/3-D: about z), degrees
  std::vector<double> pts; // point targets, row-major
  template<class A> void io(A& a) { a("ndim", ndim)("grid", grid)("nx", nx)("dx", dx)("x0", x0)("angle", angle)("pts", pts); }
  int n() const
  {
    if (!grid) return (int)pts.size() / ndim;
    int t = 1;
    for (int v : nx) t *= v;
    return t;
  }
  double extent() const // rough field size
  {
    double e = 0;
    if (grid)
      for (int d = 0; d < ndim; d++) e = std::max(e, dx[(size_t)d] * std::max(1, nx[(size_t)d] - 1));
    else
      for (int d = 0; d < ndim; d++)
      {
        double lo = 1e300, hi = -1e300;
        for (int i = 0; i < n(); i++) { lo = std::min(lo, pts[(size_t)i * ndim + d]); hi = std::max(hi, pts[(size_t)i * ndim + d]); }
        e = std::max(e, hi - lo);
      }
    return e > 0 ? e : 1.;
  }
};
// maxTot: maximum number of targets; forceGrid: -1 free, 0 points, 1 grid
static Targets genTargets(int ndim, int maxTot, int forceGrid, bool allowRot)
{
  Targets t;
  t.ndim = ndim;
  t.grid = forceGrid < 0 ? (G::pct(60) ? 1 : 0) : forceGrid;
  if (t.grid)
  {
    int per = (int)std::floor(std::pow((double)maxTot, 1. / ndim) + 1e-9);
    double L = G::pick<double>({1., 100., 1e4});
    for (int d = 0; d < ndim; d++)
    {
      t.nx.push_back(G::sz(ndim == 1 ? 2 : 1, std::max(2, per)));
      t.dx.push_back(L * G::pick<double>({0.01, 0.02, 0.05, 0.1}) * (d == 0 ? 1. : G::pick<double>({1., 1., 0.5, 2.})));
      t.x0.push_back(G::pick<double>({0., 0., -1e4, 1e4, 250.5, -3.25}));
    }
    bool multi = false;
    for (int v : t.nx) multi = multi || v > 1;
    if (!multi) t.nx[0] = 2;
    if (allowRot && ndim >= 2 && G::pct(25)) t.angle = G::r(1, 89, 1);
  }
  else
  {
    int n = G::sz(2, maxTot);
    auto P = vfgeo::genPointSets(ndim, {n}, G::pct(30));
    t.pts = P[0].c;
  }
  return t;
}
static std::unique_ptr<Db> buildTargets(const Targets& t)
{
  if (t.grid)
  {
    VectorDouble angles;
    if (t.angle != 0.) { angles.assign((size_t)t.ndim, 0.); angles[0] = t.angle; }
    return std::unique_ptr<Db>(DbGrid::create(toVI(t.nx), toVD(t.dx), toVD(t.x0), angles));
  }
  std::unique_ptr<Db> db(Db::create());
  int n = t.n();
  for (int d = 0; d < t.ndim; d++)
  {
    VectorDouble c((size_t)n);
    for (int i = 0; i < n; i++) c[(size_t)i] = t.pts[(size_t)i * t.ndim + d];
    db->addColumns(c, "x" + std::to_string(d + 1), ELoc::X, d);
  }
  return db;
}
// data base located on the targets place[k] (coordinates copied from the target Db: coincidence by construction)
static std::unique_ptr<Db> buildDataOn(const Db* targ, int ndim, const std::vector<int>& place)
{
  std::unique_ptr<Db> db(Db::create());
  for (int d = 0; d < ndim; d++)
  {
    VectorDouble c(place.size());
    for (size_t k = 0; k < place.size(); k++) c[k] = targ->getCoordinate(place[k], d);
    db->addColumns(c, "x" + std::to_string(d + 1), ELoc::X, d);
  }
  return db;
}
// k distinct target indices; mode 0: random subset in random order, 1: the first k targets in order (datum k on
// target k), 2: k targets among those of index >= k (needs n >= 2k, else falls back to 0)
static std::vector<int> genPlacement(int n, int k, int mode)
{
  std::vector<int> out;
  if (mode == 1)
  {
    for (int i = 0; i < k; i++) out.push_back(i);
    return out;
  }
  int lo = (mode == 2 && n >= 2 * k) ? k : 0;
  std::vector<int> p = G::perm(n - lo);
  for (int i = 0; i < k; i++) out.push_back(lo + p[(size_t)i]);
  return out;
}

// =================================================================== turning bands =====
struct TbCase
{
  Targets T;
  int nvar = 1;
  std::vector<Struc> strucs;
  std::vector<double> means;
  int drift = -1; // -1: simple kriging (known means), 0: ordinary, 1: linear drift
  int cond = 0, placeMode = 0;
  std::vector<int> place;  // target index of each datum
  std::vector<double> z;   // ndata * nvar, variable-major (TEST = undefined)
  int moving = 0, nmaxi = 10;
  double radius = 0.; // 0: none
  int nbsimu = 1, nbtuba = 10, seed = 1, seed2 = 2, bayes = 0;
  std::vector<double> dmean, dvar; // simbayes prior (per drift term)
  template<class A> void io(A& a)
  {
    a("T", T)("nvar", nvar)("strucs", strucs)("means", means)("drift", drift)("cond", cond)("placeMode", placeMode)("place", place)("z", z);
    a("moving", moving)("nmaxi", nmaxi)("radius", radius)("nbsimu", nbsimu)("nbtuba", nbtuba)("seed", seed)("seed2", seed2);
    a("bayes", bayes)("dmean", dmean)("dvar", dvar);
  }
};
static const std::vector<int> kTbTypes = {S_NUGGET, S_EXPO, S_SPHE, S_CUBIC, S_GAUSS, S_SINCARD, S_BESSELJ, S_MATERN, S_STABLE};

static TbCase genTb(bool condOnly)
{
  TbCase c;
  int ndim = G::pick<int>({1, 2, 2, 2, 3});
  c.T = genTargets(ndim, ndim == 3 ? 343 : 400, -1, true);
  int nt = c.T.n();
  double L = c.T.extent();
  c.nvar = condOnly ? 1 : (G::pct(25) ? 2 : 1);
  int ns = G::i(1, 3);
  bool wantNugget = G::pct(condOnly ? 50 : 30);
  for (int k = 0; k < ns; k++)
  {
    std::vector<int> allowed(kTbTypes.begin() + 1, kTbTypes.end());
    c.strucs.push_back(genStruc(ndim, c.nvar, L, allowed, G::pct(40)));
  }
  if (wantNugget)
  {
    Struc s;
    s.type = S_NUGGET;
    s.ratio.assign((size_t)ndim, 1.);
    s.sills = genSills(c.nvar, 0.3);
    if (G::pct(15)) c.strucs.clear(); // pure nugget
    c.strucs.insert(c.strucs.begin() + G::i(0, (int)c.strucs.size()), s);
  }
  for (int v = 0; v < c.nvar; v++) c.means.push_back(G::pct(50) ? 0. : G::r(-5, 5, 2));
  c.cond = condOnly ? 1 : (G::pct(60) ? 1 : 0);
  if (nt < 2) c.cond = condOnly ? 1 : 0;
  c.nbsimu = G::i(1, 4);
  c.nbtuba = G::pct(15) ? G::i(1, 3) : G::sz(1, 200);
  c.seed = G::seed();
  do { c.seed2 = G::seed(); } while (c.seed2 == c.seed);
  if (c.cond)
  {
    int nd = G::sz(1, std::min(condOnly ? 25 : 20, std::max(1, nt - 1)));
    if (condOnly && G::pct(5)) nd = nt > 30 ? 30 : nt; // every target is a datum
    c.placeMode = c.T.grid ? 0 : G::pick<int>({0, 1, 2, 2});
    c.place = genPlacement(nt, nd, c.placeMode);
    for (int v = 0; v < c.nvar; v++)
      for (int k = 0; k < nd; k++) c.z.push_back(G::pct(8) ? TEST : c.means[(size_t)v] + G::r(-30, 30, 8));
    // at least one defined datum per variable
    for (int v = 0; v < c.nvar; v++) if (isNA(c.z[(size_t)v * nd])) c.z[(size_t)v * nd] = 1.25;
    c.drift = G::pct(30) ? 0 : -1;
    c.moving = G::pct(40) ? 1 : 0;
    c.nmaxi = G::i(1, std::max(1, std::min(nd, 12)));
    c.radius = G::pct(30) ? L * G::pick<double>({0.3, 1., 4.}) : 0.;
    if (!condOnly && G::pct(25))
    {
      c.bayes = 1;
      c.drift = G::pct(70) ? 0 : 1;
      int nf = (c.drift == 0) ? 1 : 1 + ndim;
      nf *= c.nvar;
      for (int k = 0; k < nf; k++) { c.dmean.push_back(G::r(-4, 4, 2)); c.dvar.push_back(G::r(1, 8, 4)); }
    }
  }
  return c;
}
static TbCase genTbRepro() { return genTb(false); }
static TbCase genTbCond() { return genTb(true); }

struct TbWorld
{
  std::unique_ptr<Db> dbout, dbin;
  std::unique_ptr<Model> model;
  std::unique_ptr<ANeigh> neigh;
  int ncol0 = 0;
};
static TbWorld buildTb(const TbCase& c)
{
  TbWorld w;
  int ndim = c.T.ndim;
  w.dbout = buildTargets(c.T);
  w.ncol0 = w.dbout->getColumnNumber();
  w.model = buildModel(ndim, c.nvar, c.strucs, c.means, c.drift);
  if (c.cond)
  {
    w.dbin = buildDataOn(w.dbout.get(), ndim, c.place);
    int nd = (int)c.place.size();
    for (int v = 0; v < c.nvar; v++)
    {
      VectorDouble zz(c.z.begin() + (size_t)v * nd, c.z.begin() + (size_t)(v + 1) * nd);
      w.dbin->addColumns(zz, "z" + std::to_string(v + 1), ELoc::Z, v);
    }
    if (c.moving)
      w.neigh.reset(NeighMoving::create(false, c.nmaxi, c.radius > 0 ? c.radius : TEST));
    else
      w.neigh.reset(NeighUnique::create());
  }
  return w;
}
// one call; returns the error code and the output columns
static int callTb(const TbCase& c, int seed, Cols& out, int* dbinCols = nullptr)
{
  TbWorld w = buildTb(c);
  int err;
  if (c.bayes)
  {
    int nf = (int)c.dmean.size();
    MatrixSquareSymmetric dcov(nf);
    for (int i = 0; i < nf; i++) dcov.setValue(i, i, c.dvar[(size_t)i]);
    err = simbayes(w.dbin.get(), w.dbout.get(), w.model.get(), w.neigh.get(), c.nbsimu, seed, toVD(c.dmean), dcov, c.nbtuba);
  }
  else
    err = simtub(w.dbin.get(), w.dbout.get(), w.model.get(), w.neigh.get(), c.nbsimu, seed, c.nbtuba);
  out = newColumns(w.dbout.get(), w.ncol0);
  if (dbinCols && w.dbin) *dbinCols = w.dbin->getColumnNumber();
  return err;
}
static std::vector<int> freeTargets(const TbCase& c)
{
  std::vector<int> isDatum((size_t)c.T.n(), 0);
  for (int p : c.place) isDatum[(size_t)p] = 1;
  std::vector<int> rows;
  for (int i = 0; i < c.T.n(); i++) if (!isDatum[(size_t)i]) rows.push_back(i);
  return rows;
}
static void labelTb(const TbCase& c, Ctx& ctx)
{
  ctx.label(c.bayes ? "api:simbayes" : "api:simtub");
  ctx.label(c.cond ? (c.moving ? "cond:moving" : "cond:unique") : "noncond");
  ctx.label(c.T.grid ? "target:grid" : "target:points");
  ctx.label(fmt("ndim:%d", c.T.ndim));
  ctx.label(fmt("nvar:%d", c.nvar));
  for (auto& s : c.strucs) ctx.label(std::string("struct:") + snameOf(s.type));
  ctx.label(c.nbsimu > 1 ? "nbsimu:>1" : "nbsimu:1");
}

static void runTbRepro(const TbCase& c, Ctx& ctx)
{
  resetGlobals(c.T.ndim);
  labelTb(c, ctx);
  const std::string api = c.bayes ? "simbayes" : "simtub";
  Cols a, b, o;
  ctx.at(api + ":first");
  int e1 = callTb(c, c.seed, a);
  // the second call starts from whatever global state the first one left: only the seed argument is the same
  ctx.at(api + ":second");
  int e2 = callTb(c, c.seed, b);
  if (e1 != e2) { ctx.fail("repro:" + api + ":status", fmt("error codes %d then %d for the same call", e1, e2)); return; }
  if (e1 != 0)
  {
    // a rejection must be reproducible and leave no output; it is not expected for generated inputs
    ctx.fail("error:" + api, fmt("the call returned error %d on a valid input", e1));
    return;
  }
  if ((int)a.size() != c.nbsimu * c.nvar)
  { ctx.fail("columns:" + api, fmt("%d output columns for nbsimu=%d nvar=%d", (int)a.size(), c.nbsimu, c.nvar)); return; }
  std::string d = diffCols(a, b);
  if (!d.empty()) { ctx.fail("repro:" + api + (c.cond ? ":cond" : ":noncond"), "same call twice differs: " + d); return; }
  if (anyNaN(a)) { ctx.fail("nan:" + api, "NaN in the simulated values"); return; }
  // sensitivity: another seed / another rank differ at some target that is not a datum
  std::vector<int> rows = freeTargets(c);
  if (rows.empty()) { ctx.label("no-free-target"); return; }
  ctx.at(api + ":seed2");
  int e3 = callTb(c, c.seed2, o);
  if (e3 != 0) { ctx.fail("error:" + api, fmt("the call returned error %d with the second seed", e3)); return; }
  for (size_t k = 0; k < a.size(); k++)
    if (!colsDifferAt(a[k], o[k], rows))
    { ctx.fail("seed-insensitive:" + api, fmt("column %d identical for seeds %d and %d", (int)k, c.seed, c.seed2)); return; }
  for (int v = 0; v < c.nvar; v++)
    for (int i = 0; i < c.nbsimu; i++)
      for (int j = i + 1; j < c.nbsimu; j++)
        // output columns are ordered simulation-major inside each variable block or the reverse; any two
        // distinct columns must differ, whatever the layout
        if (!colsDifferAt(a[(size_t)(v * c.nbsimu + i)], a[(size_t)(v * c.nbsimu + j)], rows))
        { ctx.fail("rank-insensitive:" + api, fmt("output columns %d and %d are identical", v * c.nbsimu + i, v * c.nbsimu + j)); return; }
  ctx.nontrivial(true);
  ctx.sig = Hash().add(c.T.ndim).add(c.T.grid).add(c.nvar).add(c.cond).add(c.moving).add(c.bayes).add(c.nbsimu).add(c.nbtuba).add(c.drift)
              .add((int)c.place.size()).add(hashStrucs(c.strucs)).h;
}
VERIF_SUB(tb_repro, TbCase, genTbRepro, runTbRepro);

// condition number of the covariance matrix between the defined data (gate of the exactness check)
static double kappaOfData(const TbCase& c, const TbWorld& w, double* scale)
{
  std::vector<int> place;
  int nd = (int)c.place.size();
  for (int k = 0; k < nd; k++) if (!isNA(c.z[(size_t)k])) place.push_back(c.place[(size_t)k]);
  std::unique_ptr<Db> d = buildDataOn(w.dbout.get(), c.T.ndim, place);
  d->addColumns(VectorDouble(place.size(), 0.), "z", ELoc::Z, 0);
  MatrixSquareSymmetric C = w.model->evalCovMatrixSymmetric(d.get());
  int n = C.getNRows();
  Eigen::MatrixXd M(n, n);
  for (int i = 0; i < n; i++)
    for (int j = 0; j < n; j++) M(i, j) = C.getValue(i, j);
  Eigen::SelfAdjointEigenSolver<Eigen::MatrixXd> es(M, Eigen::EigenvaluesOnly);
  double lmin = es.eigenvalues().minCoeff(), lmax = es.eigenvalues().maxCoeff();
  *scale = std::sqrt(std::max(lmax, 0.));
  if (!(lmin > 0)) return INFINITY;
  return lmax / lmin;
}

static void runTbCond(const TbCase& c, Ctx& ctx)
{
  resetGlobals(c.T.ndim);
  labelTb(c, ctx);
  bool nugget = false;
  for (auto& s : c.strucs) nugget = nugget || s.type == S_NUGGET;
  ctx.label(nugget ? "nugget:yes" : "nugget:no");
  ctx.label(fmt("place:%d", c.placeMode));
  int nd = (int)c.place.size();
  double kappa, cscale;
  {
    TbWorld w = buildTb(c);
    ctx.at("evalCovMatrixSymmetric");
    kappa = kappaOfData(c, w, &cscale);
  }
  Cols a;
  ctx.at("simtub");
  int dbinCols = 0;
  int err = callTb(c, c.seed, a, &dbinCols);
  if (err != 0) { ctx.fail("error:simtub", fmt("conditional simtub returned error %d on a valid input", err)); return; }
  if ((int)a.size() != c.nbsimu) { ctx.fail("columns:simtub", fmt("%d output columns for nbsimu=%d", (int)a.size(), c.nbsimu)); return; }
  if (dbinCols != c.T.ndim + 1) { ctx.fail("dbin-columns:simtub", fmt("the data base keeps %d columns (expected %d)", dbinCols, c.T.ndim + 1)); return; }
  if (!(kappa <= 1e10)) { ctx.inconclusive("ill-conditioned"); return; }
  double zmax = 0;
  for (double v : c.z) if (!isNA(v)) zmax = std::max(zmax, std::fabs(v));
  double scale = zmax + std::fabs(c.means[0]) + 10. * cscale + 1.;
  double tol = 1e4 * kappa * 2.220446049250313e-16 * scale;
  bool checked = false;
  for (int k = 0; k < nd; k++)
  {
    double z = c.z[(size_t)k];
    if (isNA(z)) continue;
    int t = c.place[(size_t)k];
    for (int s = 0; s < c.nbsimu; s++)
    {
      double v = a[(size_t)s][(size_t)t];
      checked = true;
      if (std::fabs(v - z) <= tol) continue;
      std::string key;
      if (c.T.grid) key = "cond:grid";
      else if (t < nd && t != k && sameBits(v, c.z[(size_t)t])) key = "cond:points:overwritten";
      else if (t != k && nugget) key = "cond:points:nugget";
      else key = "cond:points";
      ctx.fail(key, fmt("simulation %d at target %d = %.17g, datum %d located there = %.17g (tol %.3g, kappa %.3g)", s + 1, t, v,
                        k, z, tol, kappa));
      return;
    }
  }
  ctx.nontrivial(checked);
  ctx.sig = Hash().add(c.T.ndim).add(c.T.grid).add(c.moving).add(c.nbsimu).add(c.nbtuba).add(c.drift).add(nd).add(c.placeMode)
              .add(hashStrucs(c.strucs)).h;
}
VERIF_SUB(tb_cond, TbCase, genTbCond, runTbCond);
