// C17 — automatic model fitting either reports failure or returns a usable, constraint-abiding model.
// Oracle: validity predicate written here (own Jacobi eigenvalues, own reading of the constraint list
// and of the documented option flags); no quality-of-fit claim.  DESIGN.md §5 C17.
//
//  fit_vario : Model::fit on generated experimental variograms (sampled from a known model + noise, or
//              computed from turning-bands data), generated structure lists, Constraints and options
//  fit_sills : model_fitting_sills (Goulard only, old code) and ModelOptimSillsVario::fit (new code)
//  fit_vmap  : Model::fitFromVMap on variogram maps of simulated grids
#include "verif.hpp"

#include "Basic/AStringable.hpp"
#include "Basic/ASerializable.hpp"
#include "Basic/Law.hpp"
#include "Basic/OptDbg.hpp"
#include "Basic/VectorNumT.hpp"
#include "Covariances/CovAniso.hpp"
#include "Covariances/CovCalcMode.hpp"
#include "Db/Db.hpp"
#include "Db/DbGrid.hpp"
#include "Enum/ECalcVario.hpp"
#include "Enum/EConsElem.hpp"
#include "Enum/EConsType.hpp"
#include "Enum/ECov.hpp"
#include "Enum/ELoadBy.hpp"
#include "Estimation/CalcKriging.hpp"
#include "Model/ConsItem.hpp"
#include "Model/Constraints.hpp"
#include "Model/Model.hpp"
#include "Model/ModelOptimSillsVario.hpp"
#include "Model/Option_AutoFit.hpp"
#include "Model/Option_VarioFit.hpp"
#include "Neigh/NeighUnique.hpp"
#include "Simulation/CalcSimuTurningBands.hpp"
#include "Space/ASpaceObject.hpp"
#include "Variogram/DirParam.hpp"
#include "Variogram/VMap.hpp"
#include "Variogram/Vario.hpp"
#include "Variogram/VarioParam.hpp"
#include "geoslib_define.h"
#include "geoslib_old_f.h"

#include <algorithm>
#include <csetjmp>
#include <csignal>
#include <memory>
#include <sys/time.h>

using namespace vf;

// ------------------------------------------------------------------ structure types -----
// characteristics read from the library (ACovFunc::hasRange/hasParam/getParMax/getMinOrder), probe of round 1
struct TypeInfo
{
  int type;
  const char* name;
  int hasRange;   // 1 range fitted, 0 none (nugget), -1 scale redundant with the sill (not fitted)
  bool hasParam;
  double parmax;  // <0: unbounded
  int minOrder;   // -1 stationary, 0 intrinsic
  bool krigOk;    // positive definite in R^2 and R^3 for every fitted parameter value (C03)
};
static const TypeInfo kTypes[] = {
  {0, "NUGGET", 0, false, 0, -1, true},       {1, "EXPONENTIAL", 1, false, 0, -1, true},
  {2, "SPHERICAL", 1, false, 0, -1, true},    {3, "GAUSSIAN", 1, false, 0, -1, true},
  {4, "CUBIC", 1, false, 0, -1, true},        {5, "SINCARD", 1, false, 0, -1, true},
  {6, "BESSELJ", 1, true, 2, -1, false},      {7, "MATERN", 1, true, 1000, -1, true},
  {8, "GAMMA", 1, true, 1000, -1, true},      {9, "CAUCHY", 1, true, 1000, -1, true},
  {10, "STABLE", 1, true, 2, -1, true},       {11, "LINEAR", -1, false, 0, 0, true},
  {12, "POWER", -1, true, 1.99, 0, true},     {13, "ORDER1_GC", -1, false, 0, 0, true},
  {19, "COSEXP", 1, true, -1, -1, false},     {21, "PENTA", 1, false, 0, -1, false},
  {25, "WENDLAND1", 1, false, 0, -1, true},
};
static const TypeInfo& infoOf(int t)
{
  for (auto& k : kTypes)
    if (k.type == t) return k;
  return kTypes[0];
}
// stable key from an exception text: letters only, first words (no input-dependent numbers)
static std::string excKey(const std::exception& e)
{
  std::string w = e.what(), k;
  for (char ch : w)
  {
    if (k.size() >= 40) break;
    if (std::isalpha((unsigned char)ch) || ch == '_' || ch == ':') k.push_back(ch);
    else if (!k.empty() && k.back() != '-') k.push_back('-');
  }
  return k;
}
static inline bool isNA(double v) { return !(v < 1e29) || std::isnan(v) || !(v > -1e29); }

// ------------------------------------------------------------------ case ----------------
struct StructC
{
  int type = 1;
  double param = 1.;
  std::vector<double> ranges; // ndim
  std::vector<double> angles; // ndim
  std::vector<double> a;      // nvar*nvar factor: sill = a a^T (rank deficient when a column is zero)
  template<class A> void io(A& x) { x("type", type)("param", param)("ranges", ranges)("angles", angles)("a", a); }
};
struct DirC
{
  int npas = 5;
  double dpas = 1.;
  double tolang = 45.;
  std::vector<double> codir;
  template<class A> void io(A& x) { x("npas", npas)("dpas", dpas)("tolang", tolang)("codir", codir); }
};
struct ConsC
{
  int elem = 1;  // EConsElem value: 1 RANGE, 2 ANGLE, 3 PARAM, 4 SILL
  int icov = 0;
  int iv1 = 0, iv2 = 0;
  int kind = -1; // EConsType value: -1 LOWER, 1 UPPER, 2 EQUAL
  double value = 0.;
  template<class A> void io(A& x) { x("elem", elem)("icov", icov)("iv1", iv1)("iv2", iv2)("kind", kind)("value", value); }
};
struct OptC
{
  int noreduce = 0, auth_aniso = 1, auth_rotation = 1, lock_samerot = 0, lock_rot2d = 0, lock_no3d = 0, lock_iso2d = 0;
  int keep_intstr = 0, goulard = 1, intrinsic = 0;
  int wmode = 2, maxiter = 1000;
  double tolsigma = 5.;
  template<class A> void io(A& x)
  {
    x("noreduce", noreduce)("auth_aniso", auth_aniso)("auth_rotation", auth_rotation)("lock_samerot", lock_samerot);
    x("lock_rot2d", lock_rot2d)("lock_no3d", lock_no3d)("lock_iso2d", lock_iso2d)("keep_intstr", keep_intstr);
    x("goulard", goulard)("intrinsic", intrinsic)("wmode", wmode)("maxiter", maxiter)("tolsigma", tolsigma);
  }
};
struct FitCase
{
  int ndim = 2, nvar = 1;
  int source = 0;  // 0: variogram sampled from `truth` + noise, 1: computed from simulated data
  int calc = 0;    // ECalcVario value (0 variogram, 1 covariance) for source 1
  std::vector<StructC> truth;
  std::vector<DirC> dirs;
  // source 0
  double noiseAmp = 0.;
  int noiseSeed = 1;
  int flipCross = 0;             // percentage of cross values whose sign is flipped
  // source 1
  int npts = 50, simSeed = 1, nbtuba = 30;
  double box = 1.;
  // both: emptied lags, triplets (dir, lag, pair or -1 for all pairs) resolved modulo the actual sizes
  std::vector<int> empties;
  // fit
  std::vector<int> types;
  std::vector<ConsC> cons;
  double constSill = 0.;         // >0: Constraints(constantSillValue)
  OptC opt;
  int krigSeed = 1;
  int api = 0;                   // fit_sills: 0 old model_fitting_sills, 1 ModelOptimSillsVario (2: see runSills)
  template<class A> void io(A& x)
  {
    x("ndim", ndim)("nvar", nvar)("source", source)("calc", calc)("truth", truth)("dirs", dirs);
    x("noiseAmp", noiseAmp)("noiseSeed", noiseSeed)("flipCross", flipCross);
    x("npts", npts)("simSeed", simSeed)("nbtuba", nbtuba)("box", box)("empties", empties);
    x("types", types)("cons", cons)("constSill", constSill)("opt", opt)("krigSeed", krigSeed)("api", api);
  }
  double hmax() const
  {
    double h = 0;
    for (auto& d : dirs) h = std::max(h, d.npas * d.dpas);
    return h;
  }
};

// deterministic noise in [-1,1] from a generated seed (splitmix64); no RNG of our own besides this hash
static double hashU(int seed, int k)
{
  uint64_t z = (uint64_t)(uint32_t)seed * 0x9E3779B97F4A7C15ull + (uint64_t)(uint32_t)k * 0xBF58476D1CE4E5B9ull + 0x94D049BB133111EBull;
  z = (z ^ (z >> 30)) * 0xBF58476D1CE4E5B9ull;
  z = (z ^ (z >> 27)) * 0x94D049BB133111EBull;
  z ^= z >> 31;
  return (double)(z >> 11) / 9007199254740992. * 2. - 1.;
}

// ------------------------------------------------------------------ effective options ---
// What st_alter_model_optvar (model_auto.cpp) makes of the user's flags given the geometry of the variogram.
// Used only to know which parameters exist (a constraint on a parameter that is not inferred is not asserted)
struct Eff
{
  bool aniso, rot, samerot, rot2d, no3d, iso2d, goulard;
};
static Eff effective(const FitCase& c)
{
  Eff e{c.opt.auth_aniso != 0, c.opt.auth_rotation != 0, c.opt.lock_samerot != 0, c.opt.lock_rot2d != 0,
        c.opt.lock_no3d != 0, c.opt.lock_iso2d != 0, c.opt.goulard != 0};
  int ndir = (int)c.dirs.size(), n2 = 0, n3 = 0;
  if (c.ndim == 2) n2 = ndir;
  if (c.ndim == 3)
  {
    for (auto& d : c.dirs)
      if (std::fabs(d.codir[2]) < 1e-10) n2++; else n3++;
    // the library recomputes both locks from the directions (a lock asked by the caller is released, finding
    // C17-lock-iso2d); a parameter counts as inferred only if it is under both readings
    e.no3d = e.no3d || n3 <= 0;
    e.iso2d = e.iso2d || n2 <= 0;
  }
  if (ndir <= c.ndim) e.rot = false;
  if (ndir <= 1) e.aniso = e.rot = false;
  if (c.ndim == 3 && n3 <= 0) e.no3d = true;
  if (n2 <= 1) e.iso2d = true;
  if (e.iso2d) e.rot = false;
  if (e.no3d) e.rot2d = true;
  if (!e.aniso) e.rot = e.samerot = e.rot2d = e.no3d = e.iso2d = false;
  bool sillCons = false;
  for (auto& k : c.cons) sillCons = sillCons || k.elem == 4;
  if (sillCons) e.goulard = false;
  return e;
}
// is (elem, icov, iv1) one of the inferred parameters (st_parid_alloc)?
static bool paramActive(const FitCase& c, const Eff& e, const ConsC& k)
{
  if (k.icov < 0 || k.icov >= (int)c.types.size()) return false;
  const TypeInfo& ti = infoOf(c.types[(size_t)k.icov]);
  switch (k.elem)
  {
    case 4: return !e.goulard && k.iv1 < c.nvar && k.iv2 <= k.iv1;
    case 3: return ti.hasParam && k.iv1 == 0;
    case 1:
      if (k.iv1 == 0) return ti.hasRange > 0;
      if (ti.hasRange == 0 || !e.aniso) return false;
      if (c.ndim == 2) return k.iv1 == 1 && !e.iso2d;
      if (k.iv1 == 1) return !e.iso2d;
      if (k.iv1 == 2) return !e.no3d;
      return false;
    case 2:
    {
      if (ti.hasRange == 0 || !e.aniso || !e.rot) return false;
      if (e.samerot)
      { // only the first structure with a range carries the rotation
        for (int j = 0; j < k.icov; j++)
          if (infoOf(c.types[(size_t)j]).hasRange != 0) return false;
      }
      if (c.ndim == 2 || e.rot2d) return k.iv1 == 0;
      return k.iv1 < c.ndim;
    }
    default: return false;
  }
}

// ------------------------------------------------------------------ generator -----------
// Regions of the input space that end in a sanitizer abort or in minutes-long NaN iterations on the current tree
// (known findings, replay files in agents/C17) are not generated by default; C17_ENABLE=intrinsic,constsill-multivar,
// matern-lower re-opens them (to be used once the corresponding repair is in the tree).
static bool enabled(const char* feature)
{
  static std::string e = getenv("C17_ENABLE") ? std::string(",") + getenv("C17_ENABLE") + "," : std::string();
  return e.find(std::string(",") + feature + ",") != std::string::npos || e.find(",all,") != std::string::npos;
}
static const int kTruthTypes[] = {0, 1, 2, 3, 4, 1, 2};          // simulable by turning bands in 2-D/3-D
static const int kFitCommon[] = {0, 1, 2, 3, 4, 1, 2, 0, 11, 7};   // frequent
static const int kFitAll[] = {0, 1, 2, 3, 4, 5, 6, 7, 8, 9, 10, 11, 12, 13, 19, 21, 25};

// known finding C17-nan-parameter: the Gauss-Newton step can produce NaN parameters; CovMatern::computeMarkovCoeffs turns a
// NaN parameter into an int (undefined behaviour, sanitizer abort), so MATERN is only fitted with C17_ENABLE=matern
static int fitType(int t) { return (t == 7 && !enabled("matern")) ? 10 : t; }
static StructC genTruthStruct(int ndim, int nvar, double hmax, double gscale, bool allowLinear)
{
  StructC s;
  s.type = kTruthTypes[G::i(0, 6)];
  if (allowLinear && G::pct(10)) s.type = 11;
  double r = hmax * G::u(0.1, 1.5);
  bool aniso = G::pct(40);
  for (int d = 0; d < ndim; d++) s.ranges.push_back(aniso && d > 0 ? r * G::u(0.2, 1.) : r);
  for (int d = 0; d < ndim; d++) s.angles.push_back(aniso && (d == 0 || ndim == 3) && G::pct(60) ? G::r(-90, 90, 1) : 0.);
  if (ndim == 2) s.angles[1] = 0.;
  double amp = std::sqrt(gscale) * G::u(0.3, 1.);
  bool deficient = nvar > 1 && G::pct(20);
  for (int i = 0; i < nvar; i++)
    for (int j = 0; j < nvar; j++)
    {
      double v = (j > i) ? 0. : (i == j ? amp * G::u(0.3, 1.) : amp * G::u(-1., 1.));
      if (deficient && j == nvar - 1) v = 0.;
      s.a.push_back(v);
    }
  if (deficient && nvar > 1) s.a[0] = amp; // keep variable 1 alive
  return s;
}

static std::vector<DirC> genDirs(int ndim, double L)
{
  std::vector<DirC> dirs;
  int ndir = G::pick({1, 1, 2, 2, 2, 3});
  int npas = G::sz(3, 12);
  double dpas = L * G::u(0.02, 0.1);
  double a0 = G::r(0, 179, 1);
  for (int k = 0; k < ndir; k++)
  {
    DirC d;
    d.npas = std::max(3, npas - (k > 0 ? G::i(0, 2) : 0));
    d.dpas = dpas * (k > 0 && G::pct(30) ? G::u(0.5, 1.) : 1.);
    d.tolang = ndir == 1 ? 90. : (ndim == 2 ? 90. / ndir : 45.);
    double ang = (a0 + k * 180. / ndir) * M_PI / 180.;
    if (ndim == 2) d.codir = {std::cos(ang), std::sin(ang)};
    else
    {
      int kind = G::i(0, 9); // horizontal 60 %, vertical 25 %, oblique 15 %
      if (ndir == 1) kind = G::pick({0, 0, 7, 9});
      if (kind < 6) d.codir = {std::cos(ang), std::sin(ang), 0.};
      else if (kind < 9) d.codir = {0., 0., 1.};
      else
      {
        double dip = (20. + 10. * k) * M_PI / 180.;
        d.codir = {std::cos(ang) * std::cos(dip), std::sin(ang) * std::cos(dip), std::sin(dip)};
      }
      // no two identical directions
      for (auto& o : dirs)
        if (std::fabs(o.codir[0] * d.codir[0] + o.codir[1] * d.codir[1] + o.codir[2] * d.codir[2]) > 0.999)
        {
          double a2 = ang + 0.7;
          d.codir = {std::cos(a2), std::sin(a2), 0.};
        }
    }
    dirs.push_back(d);
  }
  return dirs;
}

static OptC genOpt(int nvar)
{
  OptC o;
  o.noreduce = G::pct(35);
  o.auth_aniso = !G::pct(25);
  o.auth_rotation = !G::pct(30);
  o.lock_samerot = G::pct(25);
  o.lock_rot2d = G::pct(20);
  o.lock_no3d = G::pct(15);
  o.lock_iso2d = G::pct(15);
  // known finding C17-samerot-rotation-lost (replay file only, null dereference): when every structure able to carry the
  // shared rotation is discarded, the rotation parameter keeps the rank of a deleted structure
  if (o.lock_samerot && !o.noreduce && !enabled("samerot-reduce")) o.noreduce = 1;
  o.keep_intstr = G::pct(8);
  o.goulard = nvar > 1 ? !G::pct(3) : !G::pct(25);
  o.intrinsic = enabled("intrinsic") ? G::pct(8) : 0; // known finding C17-intrinsic-crash (unallocated array)
  o.wmode = G::pick({2, 2, 0, 1, 3});
  // the default (1000) costs minutes under ASan when the search zig-zags: not generated (see the termination check)
  o.maxiter = G::pick({100, 50, 50, 20, 20, 3}); // also bounds the Goulard iterations inside every evaluation: cost ~ maxiter^2
  o.tolsigma = G::pick({5., 5., 5., 0., 20.});
  return o;
}

static void genCons(FitCase& c, double vref)
{
  Eff e = effective(c);
  int n = G::pick({0, 0, 0, 1, 1, 2, 3});
  double hmax = c.hmax();
  std::set<std::vector<int>> used;
  for (int q = 0; q < n; q++)
  {
    ConsC k;
    k.icov = G::i(0, (int)c.types.size() - 1);
    const TypeInfo& ti = infoOf(c.types[(size_t)k.icov]);
    // candidate elements for this structure
    std::vector<int> el;
    if (ti.hasRange != 0) { el.push_back(1); el.push_back(1); el.push_back(2); }
    if (ti.hasParam) { el.push_back(3); el.push_back(3); }
    if (c.nvar == 1 || G::pct(4)) el.push_back(4);
    if (el.empty()) continue;
    k.elem = G::pickv(el);
    k.kind = G::pick({-1, 1, 2, -1, 1});
    switch (k.elem)
    {
      case 1:
        k.iv1 = G::i(0, c.ndim - 1);
        k.value = hmax * G::pick({0.05, 0.2, 0.5, 1., 2.}) * G::u(0.8, 1.2);
        break;
      case 2:
        k.iv1 = (c.ndim == 2) ? 0 : G::pick({0, 0, 1, 2});
        k.value = G::r(-80, 80, 1);
        break;
      case 3:
      {
        double pm = ti.parmax > 0 ? std::min(ti.parmax, 5.) : 5.;
        k.value = pm * G::u(0.1, 0.9);
        break;
      }
      default:
        k.iv1 = G::i(0, c.nvar - 1);
        k.iv2 = G::i(0, k.iv1);
        k.value = vref * G::pick({0.05, 0.3, 1., 2.}) * G::u(0.8, 1.2);
        break;
    }
    // mostly constraints on parameters that exist; sometimes on ones the options remove (must stay harmless)
    if (!paramActive(c, e, k) && !G::pct(15)) continue;
    std::vector<int> key{k.elem, k.icov, k.iv1, k.elem == 4 ? k.iv2 : 0};
    std::vector<int> keyE = key, keyK = key;
    keyE.push_back(2);
    keyK.push_back(k.kind);
    // at most one EQUAL, or one LOWER and one UPPER (consistent: lower <= upper), per parameter
    bool clash = used.count(keyE) > 0 || used.count(keyK) > 0;
    if (k.kind == 2) { auto l = key, u = key; l.push_back(-1); u.push_back(1); clash = clash || used.count(l) || used.count(u); }
    if (clash) continue;
    if (k.kind != 2)
    {
      for (auto& o : c.cons)
        if (o.elem == k.elem && o.icov == k.icov && o.iv1 == k.iv1 && (k.elem != 4 || o.iv2 == k.iv2) && o.kind == -k.kind)
        { // the other bound exists: order them
          double lo = k.kind == -1 ? k.value : o.value, hi = k.kind == -1 ? o.value : k.value;
          if (lo > hi) k.value = (k.kind == -1) ? o.value * 0.5 : (o.value > 0 ? o.value * 2. : o.value + 20.);
          if (k.elem == 2 && k.kind == -1 && k.value > o.value) k.value = o.value - 20.;
        }
    }
    used.insert(keyK);
    c.cons.push_back(k);
  }
  // known finding C17-matern-param-start (replay file only, it ends in a sanitizer abort): a lone lower bound above
  // the default value 1 makes st_affect start at the middle of [bound, parmax = 1000] where MATERN evaluates to NaN
  for (auto& k : c.cons)
  {
    if (enabled("matern-lower") || k.elem != 3 || k.kind != -1 || c.types[(size_t)k.icov] != 7 || k.value <= 1.) continue;
    bool upper = false;
    for (auto& o : c.cons) upper = upper || (o.elem == 3 && o.icov == k.icov && o.kind == 1);
    if (!upper) k.value = 0.9 * k.value / 5.;
  }
}

static FitCase genFitCommon(bool sillsOnly)
{
  FitCase c;
  c.ndim = G::pick({2, 2, 3});
  c.nvar = G::pick({1, 1, 2, 2, 2, 3});
  double L = G::pick({1., 100., 1e4});
  double gscale = G::pct(12) ? G::lu(1e-14, 1e-9) : G::lu(1e-2, 1e3); // 12 %: variables in small units (mass fractions, m2)
  c.dirs = genDirs(c.ndim, L);
  double hmax = c.hmax();
  c.source = G::pct(70) ? 0 : 1;
  int nst = G::pick({1, 2, 2, 3});
  for (int s = 0; s < nst; s++) c.truth.push_back(genTruthStruct(c.ndim, c.nvar, hmax, gscale, c.source == 0));
  c.noiseAmp = G::pick({0., 0.05, 0.3, 0.8});
  c.noiseSeed = G::seed();
  c.flipCross = G::pick({0, 0, 10, 50});
  c.npts = G::sz(30, 120);
  c.simSeed = G::seed();
  c.nbtuba = G::pick({20, 50});
  c.box = 2. * hmax;
  c.calc = (c.source == 1 && G::pct(15)) ? 1 : 0;
  int nempty = G::pick({0, 0, 1, 2, 4, 8});
  for (int q = 0; q < nempty; q++)
  {
    c.empties.push_back(G::i(0, 2));
    c.empties.push_back(G::i(0, 11));
    c.empties.push_back(G::pct(50) ? -1 : G::i(0, 5));
  }
  c.opt = genOpt(c.nvar);
  c.constSill = G::pct(15) ? gscale * G::u(0.5, 2.) : 0.;
  // known finding C17-constant-sill-multivar: the constrained Goulard start (model_auto.cpp:3243) yields NaN sills; the
  // iterations then never converge (minutes per case) and a NaN parameter handed to MATERN ends in a sanitizer abort
  if (c.constSill > 0 && c.nvar > 1 && !enabled("constsill-multivar")) c.constSill = 0.;
  int nt = G::pick({1, 2, 2, 3, 3});
  bool distinct = G::pct(85);
  for (int s = 0; s < nt; s++)
  {
    for (int attempt = 0; attempt < 20; attempt++)
    {
      int t = fitType(G::pct(75) ? kFitCommon[G::i(0, 9)] : kFitAll[G::i(0, 16)]);
      if (c.constSill > 0 && infoOf(t).minOrder >= 0) continue; // "sum of sills" only speaks about stationary structures
      if (distinct && std::find(c.types.begin(), c.types.end(), t) != c.types.end()) continue;
      c.types.push_back(t);
      break;
    }
  }
  if (c.types.empty()) c.types.push_back(2);
  // keep_intstr without any intrinsic structure is a documented refusal: mostly give it one
  if (c.opt.keep_intstr && c.constSill <= 0 && G::pct(70))
  {
    bool has = false;
    for (int t : c.types) has = has || infoOf(t).minOrder == 0;
    if (!has) c.types.back() = G::pick({11, 11, 13, 12});
  }
  if (c.constSill > 0) c.opt.goulard = 1;
  double vref = 0;
  for (auto& s : c.truth) vref += s.a[0] * s.a[0];
  if (!sillsOnly && c.constSill <= 0) genCons(c, vref);
  c.krigSeed = G::seed();
  c.api = G::pct(50);
  return c;
}
static FitCase genFit() { return genFitCommon(false); }
static FitCase genSills()
{
  FitCase c = genFitCommon(true);
  c.opt.intrinsic = enabled("intrinsic") ? G::pct(15) : 0;
  // known finding C17-fitting-sills-constant-sill (replay file only, out-of-bounds read): both sills-only entry points
  // read the vector of constant sills that only model_auto_fit expands
  if (c.constSill > 0 && !(enabled("sills-constsill") && (c.nvar == 1 || enabled("constsill-multivar")))) c.constSill = 0.;
  if (c.constSill > 0) c.api = 0;
  // the new class is only reachable on variograms without unusable lag (see runSills)
  if (c.api == 1 && G::pct(70))
  {
    c.empties.clear();
    if (c.source == 0 && c.noiseSeed % 2 == 0) c.noiseSeed++;
  }
  return c;
}

// ------------------------------------------------------------------ world ---------------
// triage aid (replay only): C17_VERBOSE=1 lets the library's messages through and asks for the verbose fit
static void libPrint(const char* s) { ssize_t w = write(diagFd(), s, strlen(s)); (void)w; }
static bool verboseMode()
{
  static int v = -1;
  if (v < 0) v = getenv("C17_VERBOSE") != nullptr ? 1 : 0;
  return v == 1;
}
static void resetGlobals(int ndim)
{
  defineDefaultSpace(ESpaceType::RN, (unsigned)ndim);
  OptDbg::reset();
  if (verboseMode()) { redefine_message(libPrint); redefine_error(libPrint); OptDbg::define(EDbg::CONVERGE); }
  law_set_random_seed(132421);
  ASerializable::unsetContainerName();
  ASerializable::unsetPrefixName();
}

static std::unique_ptr<Model> buildTruth(const FitCase& c)
{
  std::unique_ptr<Model> m(new Model(c.nvar, c.ndim));
  for (auto& s : c.truth)
  {
    VectorDouble sills((size_t)(c.nvar * c.nvar), 0.);
    for (int i = 0; i < c.nvar; i++)
      for (int j = 0; j < c.nvar; j++)
      {
        double v = 0;
        for (int k = 0; k < c.nvar; k++) v += s.a[(size_t)(i * c.nvar + k)] * s.a[(size_t)(j * c.nvar + k)];
        sills[(size_t)(i * c.nvar + j)] = v;
      }
    VectorDouble ranges(s.ranges.begin(), s.ranges.end()), angles(s.angles.begin(), s.angles.end());
    if (s.type == 0)
      m->addCovFromParam(ECov::NUGGET, 0., 0., 1., VectorDouble(), sills, VectorDouble(), true);
    else
      m->addCovFromParam(ECov::fromValue(s.type), 0., 0., s.param, ranges, sills, angles, true);
  }
  return m;
}

static VarioParam makeVP(const FitCase& c)
{
  VarioParam vp;
  for (auto& d : c.dirs)
  {
    VectorDouble codir(d.codir.begin(), d.codir.end());
    vp.addDir(DirParam(d.npas, d.dpas, 0.5, d.tolang, 0, 0, TEST, TEST, 0., VectorDouble(), codir));
  }
  return vp;
}

// the experimental variogram of the case (nullptr: the library refused to compute it -> nothing to fit)
static std::unique_ptr<Vario> buildVario(const FitCase& c, Ctx& ctx)
{
  std::unique_ptr<Model> truth = buildTruth(c);
  if (truth->getCovaNumber() != (int)c.truth.size()) return nullptr;
  VarioParam vp = makeVP(c);
  std::unique_ptr<Vario> v;
  int nvs2 = c.nvar * (c.nvar + 1) / 2;
  if (c.source == 0)
  {
    ctx.at("Vario:sampleModel");
    v.reset(Vario::create(vp));
    v->setCalculByName("vg");
    CovCalcMode mode(ECalcMember::LHS);
    mode.setAsVario(true);
    if (v->sampleModel(truth.get(), &mode) != 0) return nullptr;
    // variances: C(0) of the stationary part (what a data set would give), never zero
    for (int i = 0; i < c.nvar; i++)
      for (int j = 0; j < c.nvar; j++)
      {
        double s = 0;
        for (auto& st : c.truth)
          for (int k = 0; k < c.nvar; k++) s += st.a[(size_t)(i * c.nvar + k)] * st.a[(size_t)(j * c.nvar + k)];
        v->setVar(s, i, j);
      }
    int cnt = 0;
    for (int id = 0; id < (int)c.dirs.size(); id++)
      for (int ip = 0; ip < c.dirs[(size_t)id].npas; ip++)
      {
        int ij = 0;
        for (int i = 0; i < c.nvar; i++)
          for (int j = 0; j <= i; j++, ij++, cnt++)
          {
            double g = v->getGg(id, i, j, ip);
            g *= 1. + c.noiseAmp * hashU(c.noiseSeed, 3 * cnt);
            if (i != j && (hashU(c.noiseSeed, 3 * cnt + 1) + 1.) * 50. < c.flipCross) g = -g;
            v->setGg(id, i, j, ip, g);
            v->setSw(id, i, j, ip, 1. + std::floor((hashU(c.noiseSeed, 3 * cnt + 2) + 1.) * 100.));
            if (ip > 0) v->setHh(id, i, j, ip, c.dirs[(size_t)id].dpas * (ip + 0.2 * hashU(c.noiseSeed, 7 * (id * 64 + ip) + 5)));
            else if (c.noiseSeed % 2 != 0)
            { // first lag as a calculation gives it: a short positive mean distance (otherwise hh = 0: lag ignored)
              double h0 = c.dirs[(size_t)id].dpas * 0.3;
              VectorDouble d0;
              for (double cd : c.dirs[(size_t)id].codir) d0.push_back(cd * h0);
              double g0 = truth->evalIvarIpas(1., d0, i, j, &mode) * (1. + c.noiseAmp * hashU(c.noiseSeed, 3 * cnt));
              v->setHh(id, i, j, ip, h0);
              v->setGg(id, i, j, ip, g0);
            }
          }
      }
  }
  else
  {
    ctx.at("simtub");
    VectorDouble mn((size_t)c.ndim, 0.), mx((size_t)c.ndim, c.box);
    std::unique_ptr<Db> db(Db::createFromBox(c.npts, mn, mx, c.simSeed));
    if (!db) return nullptr;
    if (simtub(nullptr, db.get(), truth.get(), nullptr, 1, c.simSeed, c.nbtuba) != 0) return nullptr;
    if (db->getLocNumber(ELoc::Z) != c.nvar) return nullptr;
    ctx.at("Vario:computeFromDb");
    v.reset(Vario::computeFromDb(vp, db.get(), c.calc == 1 ? ECalcVario::COVARIANCE : ECalcVario::VARIOGRAM));
    if (!v) return nullptr;
  }
  // emptied lags: as the calculation leaves a lag without pairs (sw = 0, gg = 0, hh = 0)
  for (size_t q = 0; q + 2 < c.empties.size(); q += 3)
  {
    int id = c.empties[q] % (int)c.dirs.size();
    int np = v->getLagNumber(id);
    if (np <= 0) continue;
    int ip = c.empties[q + 1] % np;
    int ij = 0;
    for (int i = 0; i < c.nvar; i++)
      for (int j = 0; j <= i; j++, ij++)
      {
        if (c.empties[q + 2] >= 0 && c.empties[q + 2] % nvs2 != ij) continue;
        int nlag = v->getFlagAsym() ? 2 : 1;
        for (int side = 0; side < nlag; side++)
        {
          int iad = v->getDirAddress(id, i, j, ip, false, side == 0 ? (v->getFlagAsym() ? 1 : 0) : -1);
          if (iad < 0) continue;
          v->setSwByIndex(id, iad, 0.);
          v->setGgByIndex(id, iad, 0.);
          v->setHhByIndex(id, iad, 0.);
        }
      }
  }
  return v;
}

static Constraints buildConstraints(const FitCase& c)
{
  Constraints cs(c.constSill > 0 ? c.constSill : TEST);
  for (auto& k : c.cons)
    cs.addItemFromParamId(EConsElem::fromValue(k.elem), k.icov, k.iv1, k.iv2, EConsType::fromValue(k.kind), k.value);
  return cs;
}
static Option_VarioFit buildOptvar(const OptC& o)
{
  Option_VarioFit ov(o.noreduce != 0, o.auth_aniso != 0, o.auth_rotation != 0, o.lock_samerot != 0, o.lock_rot2d != 0,
                     o.lock_no3d != 0, o.lock_iso2d != 0);
  ov.setKeepIntstr(o.keep_intstr != 0);
  ov.setFlagGoulardUsed(o.goulard != 0);
  ov.setFlagIntrinsic(o.intrinsic != 0);
  return ov;
}
static Option_AutoFit buildMauto(const OptC& o)
{
  Option_AutoFit ma;
  ma.setWmode(o.wmode);
  ma.setMaxiter(o.maxiter);
  ma.setTolsigma(o.tolsigma);
  return ma;
}

// ------------------------------------------------------------------ oracle --------------
// eigenvalues of a symmetric n x n matrix (n <= 3), cyclic Jacobi written here
static std::vector<double> jacobiEig(int n, std::vector<long double> a)
{
  for (int sweep = 0; sweep < 60; sweep++)
  {
    long double off = 0;
    for (int i = 0; i < n; i++)
      for (int j = 0; j < i; j++) off += a[(size_t)(i * n + j)] * a[(size_t)(i * n + j)];
    if (off == 0) break;
    for (int p = 0; p < n; p++)
      for (int q = p + 1; q < n; q++)
      {
        long double apq = a[(size_t)(p * n + q)];
        if (apq == 0) continue;
        long double theta = (a[(size_t)(q * n + q)] - a[(size_t)(p * n + p)]) / (2 * apq);
        long double t = (theta >= 0 ? 1.L : -1.L) / (fabsl(theta) + sqrtl(theta * theta + 1));
        long double cs = 1 / sqrtl(t * t + 1), sn = t * cs;
        for (int k = 0; k < n; k++)
        {
          long double akp = a[(size_t)(k * n + p)], akq = a[(size_t)(k * n + q)];
          a[(size_t)(k * n + p)] = cs * akp - sn * akq;
          a[(size_t)(k * n + q)] = sn * akp + cs * akq;
        }
        for (int k = 0; k < n; k++)
        {
          long double apk = a[(size_t)(p * n + k)], aqk = a[(size_t)(q * n + k)];
          a[(size_t)(p * n + k)] = cs * apk - sn * aqk;
          a[(size_t)(q * n + k)] = sn * apk + cs * aqk;
        }
      }
  }
  std::vector<double> ev;
  for (int i = 0; i < n; i++) ev.push_back((double)a[(size_t)(i * n + i)]);
  std::sort(ev.begin(), ev.end());
  return ev;
}

// sills of every structure: finite, symmetric, positive semi-definite. Returns false after ctx.fail
static bool checkSills(const Model& m, const std::string& site0, Ctx& ctx, bool constSill)
{
  std::string site = site0 + (constSill ? ":constant-sill" : "");
  int nvar = m.getVariableNumber();
  // scale of the model: a structure whose sill matrix is null up to 1e-10 of it is not asked for more than that
  double scaleAll = 0;
  for (int ic = 0; ic < m.getCovaNumber(); ic++)
    for (int i = 0; i < nvar; i++)
      if (std::isfinite(m.getSill(ic, i, i))) scaleAll = std::max(scaleAll, std::fabs(m.getSill(ic, i, i)));
  for (int ic = 0; ic < m.getCovaNumber(); ic++)
  {
    std::vector<long double> a((size_t)(nvar * nvar));
    double tr = 0, amax = 0;
    for (int i = 0; i < nvar; i++)
      for (int j = 0; j < nvar; j++)
      {
        double v = m.getSill(ic, i, j);
        if (!std::isfinite(v) || isNA(v))
        {
          ctx.fail(site + ":sill-not-finite", fmt("structure %d (%s): sill(%d,%d) = %g", ic, infoOf(m.getCovaType(ic).getValue()).name, i, j, v));
          return false;
        }
        a[(size_t)(i * nvar + j)] = v;
        if (i == j) tr += v;
        amax = std::max(amax, std::fabs(v));
      }
    for (int i = 0; i < nvar; i++)
      for (int j = 0; j < i; j++)
        if (std::fabs((double)(a[(size_t)(i * nvar + j)] - a[(size_t)(j * nvar + i)])) > 1e-12 * amax)
        {
          ctx.fail(site + ":sill-asymmetric", fmt("structure %d: sill(%d,%d)=%.17g sill(%d,%d)=%.17g", ic, i, j, (double)a[(size_t)(i * nvar + j)], j, i, (double)a[(size_t)(j * nvar + i)]));
          return false;
        }
    std::vector<double> ev = jacobiEig(nvar, a);
    if (ev[0] < -1e-8 * std::max(std::max(tr, amax), 1e-10 * scaleAll) || (tr < -1e-18 * scaleAll))
    {
      std::string s;
      for (int i = 0; i < nvar; i++)
        for (int j = 0; j <= i; j++) s += fmt(" %.6g", (double)a[(size_t)(i * nvar + j)]);
      ctx.fail(site + ":sill-not-psd", fmt("structure %d (%s): lambda_min = %.6g, trace = %.6g, lower triangle:%s", ic, infoOf(m.getCovaType(ic).getValue()).name, ev[0], tr, s.c_str()));
      return false;
    }
  }
  return true;
}

static bool checkRanges(const Model& m, const std::string& site, Ctx& ctx)
{
  for (int ic = 0; ic < m.getCovaNumber(); ic++)
  {
    const CovAniso* cv = m.getCova(ic);
    const TypeInfo& ti = infoOf(cv->getType().getValue());
    if (cv->hasRange() != 0)
    {
      VectorDouble r = cv->getRanges(), s = cv->getScales();
      for (int d = 0; d < (int)r.size(); d++)
        if (!std::isfinite(r[d]) || isNA(r[d]) || !(r[d] > 0) || !std::isfinite(s[d]) || !(s[d] > 0))
        {
          ctx.fail(site + ":range-not-positive", fmt("structure %d (%s): range[%d] = %g scale = %g", ic, ti.name, d, r[d], s[d]));
          return false;
        }
      VectorDouble an = cv->getAnisoAngles();
      for (double a : an)
        if (!std::isfinite(a) || isNA(a))
        {
          ctx.fail(site + ":angle-not-finite", fmt("structure %d (%s): angle %g", ic, ti.name, a));
          return false;
        }
    }
    if (cv->hasParam())
    {
      double p = cv->getParam();
      if (!std::isfinite(p) || isNA(p) || !(p > 0) || (ti.parmax > 0 && p > ti.parmax * (1 + 1e-9)))
      {
        ctx.fail(site + ":param-out-of-domain", fmt("structure %d (%s): param = %g (domain (0,%g])", ic, ti.name, p, ti.parmax));
        return false;
      }
    }
  }
  return true;
}

static std::string& scratchDir()
{
  static std::string d;
  if (d.empty())
  {
    char tmpl[] = "/dev/shm/vf_c17_XXXXXX";
    char* p = mkdtemp(tmpl);
    d = p ? p : "/tmp";
    static std::string keep = d;
    atexit([]() {
      std::string cmd = "rm -rf " + keep;
      if (keep.rfind("/dev/shm/vf_c17_", 0) == 0) (void)!system(cmd.c_str());
    });
  }
  return d;
}

static bool relEq(double a, double b, double rel) { return std::fabs(a - b) <= rel * std::max(std::fabs(a), std::fabs(b)) + 1e-300; }

static bool checkReload(const Model& m, const std::string& site, Ctx& ctx)
{
  std::string path = scratchDir() + "/model.nf";
  unlink(path.c_str());
  ctx.at(site + ":dumpToNF");
  if (!m.dumpToNF(path, false))
  {
    ctx.fail(site + ":save", "dumpToNF of the fitted model returned false");
    return false;
  }
  ctx.at(site + ":createFromNF");
  std::unique_ptr<Model> y(Model::createFromNF(path, false));
  if (!y)
  {
    ctx.fail(site + ":reload", "createFromNF refused the file written from the fitted model");
    return false;
  }
  ctx.at(site + ":reload-compare");
  if (y->getCovaNumber() != m.getCovaNumber() || y->getVariableNumber() != m.getVariableNumber() ||
      y->getDimensionNumber() != m.getDimensionNumber() || y->getDriftNumber() != m.getDriftNumber())
  {
    ctx.fail(site + ":reload-shape", fmt("ncov %d -> %d, nvar %d -> %d, ndrift %d -> %d", m.getCovaNumber(), y->getCovaNumber(), m.getVariableNumber(), y->getVariableNumber(), m.getDriftNumber(), y->getDriftNumber()));
    return false;
  }
  int nvar = m.getVariableNumber(), ndim = m.getDimensionNumber();
  for (int ic = 0; ic < m.getCovaNumber(); ic++)
  {
    const CovAniso *a = m.getCova(ic), *b = y->getCova(ic);
    if (a->getType() != b->getType())
    {
      ctx.fail(site + ":reload-type", fmt("structure %d: type %d -> %d", ic, a->getType().getValue(), b->getType().getValue()));
      return false;
    }
    double smax = 0;
    for (int i = 0; i < nvar; i++) smax = std::max(smax, std::fabs(m.getSill(ic, i, i)));
    for (int i = 0; i < nvar; i++)
      for (int j = 0; j < nvar; j++)
        if (std::fabs(m.getSill(ic, i, j) - y->getSill(ic, i, j)) > 1e-10 * smax + 1e-13 * std::fabs(m.getSill(ic, i, j)))
        {
          ctx.fail(site + ":reload-sill", fmt("structure %d sill(%d,%d): %.17g -> %.17g", ic, i, j, m.getSill(ic, i, j), y->getSill(ic, i, j)));
          return false;
        }
    if (a->hasParam() && !relEq(a->getParam(), b->getParam(), 1e-10))
    {
      ctx.fail(site + ":reload-param", fmt("structure %d param: %.17g -> %.17g", ic, a->getParam(), b->getParam()));
      return false;
    }
    if (a->hasRange() != 0)
    {
      VectorDouble ra = a->getRanges(), rb = b->getRanges();
      for (int d = 0; d < ndim; d++)
        // ranges that differ by less than 2e-10 (relative) are written as one isotropic range (Tensor: EPSILON10)
        if (!relEq(ra[d], rb[d], 5e-10))
        {
          if (verboseMode()) { std::string txt; readFile(path, txt); diag(txt); }
          ctx.fail(site + ":reload-range", fmt("structure %d range[%d]: %.17g -> %.17g", ic, d, ra[d], rb[d]));
          return false;
        }
      // the rotation only matters (and is only stored) for an anisotropic structure
      if (!a->isIsotropic() && !b->isIsotropic())
        for (int i = 0; i < ndim; i++)
          for (int j = 0; j < ndim; j++)
            if (std::fabs(a->getAnisoRotMat(i, j) - b->getAnisoRotMat(i, j)) > 1e-10)
            {
              ctx.fail(site + ":reload-rotation", fmt("structure %d rotation(%d,%d): %.17g -> %.17g", ic, i, j, a->getAnisoRotMat(i, j), b->getAnisoRotMat(i, j)));
              return false;
            }
    }
  }
  return true;
}

// kriging of a small data set with the fitted model (unique neighbourhood, ordinary kriging)
static bool checkKriging(const FitCase& c, Model& m, double hmax, const std::string& site, Ctx& ctx)
{
  int nvar = m.getVariableNumber(), ndim = m.getDimensionNumber();
  // exemptions: structures that are not valid covariances in R^2/R^3 (C03 findings), and models whose
  // co-kriging system is singular by construction (rank-deficient or null total sill matrix, no structure)
  std::vector<long double> tot((size_t)(nvar * nvar), 0.L);
  double tr = 0;
  for (int ic = 0; ic < m.getCovaNumber(); ic++)
  {
    if (!infoOf(m.getCovaType(ic).getValue()).krigOk) { ctx.label("krige:skipped-type"); return true; }
    for (int i = 0; i < nvar; i++)
      for (int j = 0; j < nvar; j++) tot[(size_t)(i * nvar + j)] += m.getSill(ic, i, j);
  }
  for (int i = 0; i < nvar; i++) tr += (double)tot[(size_t)(i * nvar + i)];
  std::vector<double> ev = jacobiEig(nvar, tot);
  bool regular = tr > 0 && ev[0] > 1e-6 * tr;
  // smooth structures (Gaussian-like at the origin) with a long range make the system numerically singular
  bool smooth = false;
  double nug = 0;
  for (int ic = 0; ic < m.getCovaNumber(); ic++)
  {
    int t = m.getCovaType(ic).getValue();
    if (t == 0) for (int i = 0; i < nvar; i++) nug += m.getSill(ic, i, i);
    double par = m.getCova(ic)->hasParam() ? m.getCova(ic)->getParam() : 0.;
    if (t == 3 || t == 5 || t == 9 || ((t == 7 || t == 10) && par > 1.5)) smooth = true;
  }
  // lattice points in [0,hmax]^ndim, one per cell of a 3 x 3 (x 2) lattice, jittered in the central 60 %
  int nx = 3, nz = ndim == 3 ? 2 : 1, n = nx * nx * nz;
  VectorDouble tab;
  VectorString names, locs;
  for (int d = 0; d < ndim; d++)
  {
    for (int p = 0; p < n; p++)
    {
      int cell = d == 0 ? p % nx : (d == 1 ? (p / nx) % nx : p / (nx * nx));
      int nc = d < 2 ? nx : nz;
      tab.push_back(hmax * (cell + 0.5 + 0.3 * hashU(c.krigSeed, p * 3 + d)) / nc);
    }
    names.push_back(fmt("x%d", d + 1));
    locs.push_back(fmt("x%d", d + 1));
  }
  for (int v = 0; v < nvar; v++)
  {
    for (int p = 0; p < n; p++) tab.push_back(10. * hashU(c.krigSeed, 1000 + p * 3 + v));
    names.push_back(fmt("z%d", v + 1));
    locs.push_back(fmt("z%d", v + 1));
  }
  ctx.at(site + ":krige-db");
  std::unique_ptr<Db> din(Db::createFromSamples(n, ELoadBy::COLUMN, tab, names, locs, false));
  int nt = 4;
  VectorDouble tt;
  VectorString tn, tl;
  for (int d = 0; d < ndim; d++)
  {
    for (int p = 0; p < nt; p++) tt.push_back(hmax * (0.5 + 0.45 * hashU(c.krigSeed, 5000 + p * 3 + d)));
    tn.push_back(fmt("x%d", d + 1));
    tl.push_back(fmt("x%d", d + 1));
  }
  std::unique_ptr<Db> dout(Db::createFromSamples(nt, ELoadBy::COLUMN, tt, tn, tl, false));
  std::unique_ptr<NeighUnique> nb(NeighUnique::create());
  if (!din || !dout || !nb) { ctx.fail("harness:krige-db", "could not build the kriging data base"); return false; }
  ctx.at(site + ":kriging");
  int err = kriging(din.get(), dout.get(), &m, nb.get());
  bool gated = !regular || (smooth && nug <= 1e-6 * tr);
  if (gated) { ctx.label("krige:ill-posed-not-asserted"); return true; }
  if (err != 0)
  {
    ctx.fail(site + ":krige-error", fmt("kriging with the fitted model returned %d", err));
    return false;
  }
  for (int v = 0; v < nvar; v++)
  {
    VectorDouble e = dout->getColumn(fmt("Kriging.z%d.estim", v + 1), false), s = dout->getColumn(fmt("Kriging.z%d.stdev", v + 1), false);
    if ((int)e.size() != nt || (int)s.size() != nt)
    {
      ctx.fail(site + ":krige-columns", "kriging did not create the estimate / stdev columns");
      return false;
    }
    for (int p = 0; p < nt; p++)
      if (!std::isfinite(e[p]) || isNA(e[p]) || !std::isfinite(s[p]) || isNA(s[p]) || s[p] < 0)
      {
        ctx.fail(site + ":krige-value", fmt("variable %d target %d: estimate %g stdev %g", v + 1, p, e[p], s[p]));
        return false;
      }
  }
  ctx.label("krige:checked");
  return true;
}

// map fitted structures to requested ones (structures may have been discarded): -1 when ambiguous
static std::vector<int> mapStructures(const FitCase& c, const Model& m, bool& ok)
{
  std::vector<int> map;
  ok = true;
  int nf = m.getCovaNumber(), nr = (int)c.types.size();
  if (nf == nr)
  {
    for (int i = 0; i < nf; i++)
    {
      map.push_back(i);
      if (m.getCovaType(i).getValue() != c.types[(size_t)i]) ok = false;
    }
    return map;
  }
  // subsequence; unique when the requested types are distinct
  bool distinct = true;
  for (int i = 0; i < nr; i++)
    for (int j = 0; j < i; j++) distinct = distinct && c.types[(size_t)i] != c.types[(size_t)j];
  int pos = 0;
  for (int i = 0; i < nf; i++)
  {
    int t = m.getCovaType(i).getValue();
    while (pos < nr && c.types[(size_t)pos] != t) pos++;
    if (pos >= nr) { ok = false; return map; }
    map.push_back(distinct ? pos : -1);
    pos++;
  }
  return map;
}

static double angDiff(double a, double b, double period)
{
  double d = std::fmod(a - b, period);
  if (d < 0) d += period;
  return std::min(d, period - d);
}

// user constraints on the fitted model
static bool checkConstraints(const FitCase& c, const Model& m, const std::vector<int>& map, const std::string& site, Ctx& ctx)
{
  Eff e = effective(c);
  int ndim = c.ndim;
  for (auto& k : c.cons)
  {
    if (!paramActive(c, e, k)) { ctx.label("cons:on-parameter-not-inferred"); continue; }
    int fi = -1;
    bool amb = false;
    for (int i = 0; i < (int)map.size(); i++)
    {
      if (map[(size_t)i] == k.icov) fi = i;
      if (map[(size_t)i] < 0) amb = true;
    }
    if (amb) { ctx.label("cons:mapping-ambiguous"); continue; }
    if (fi < 0) { ctx.label("cons:structure-discarded"); continue; }
    const CovAniso* cv = m.getCova(fi);
    double got = 0;
    const char* what = "";
    bool angle = false;
    switch (k.elem)
    {
      case 1: got = cv->getRanges()[k.iv1]; what = "range"; break;
      case 3: got = cv->getParam(); what = "param"; break;
      case 4: got = m.getSill(fi, k.iv1, k.iv2); what = "sill"; break;
      case 2:
      {
        // angles are returned through the rotation matrix: in 2-D modulo 180 degrees; in 3-D the triple is
        // only unique when the two other angles are the reference ones, so 3-D is asserted for the first angle
        // under lock_rot2d only
        if (ndim == 3 && !e.rot2d) { ctx.label("cons:angle-3d-not-asserted"); continue; }
        if (cv->isIsotropic()) { ctx.label("cons:angle-of-isotropic-structure"); continue; }
        got = cv->getAnisoAngles()[k.iv1];
        what = "angle";
        angle = true;
        break;
      }
      default: continue;
    }
    ctx.label(std::string("cons:checked:") + what);
    bool okc = true;
    if (angle)
    {
      // some representative of got (mod 180) must satisfy the bound
      double lo = k.kind == 1 ? -1e300 : k.value, hi = k.kind == -1 ? 1e300 : k.value;
      okc = false;
      for (int q = -4; q <= 4 && !okc; q++)
      {
        double g = got + 180. * q;
        if (g >= lo - 1e-6 && g <= hi + 1e-6) okc = true;
      }
      if (k.kind != 2) okc = true; // a one-sided bound is always met by some representative
      if (k.kind == 2) okc = angDiff(got, k.value, 180.) <= 1e-6;
    }
    else
    {
      double tol = 1e-6 * std::max(std::fabs(k.value), std::fabs(got));
      if (k.kind == -1) okc = got >= k.value - tol;
      if (k.kind == 1) okc = got <= k.value + tol;
      if (k.kind == 2) okc = std::fabs(got - k.value) <= tol;
    }
    if (!okc)
    {
      // sill items with the Goulard option switched off by the caller are a recorded root cause of their own
      std::string variant = (k.elem == 4 && !c.opt.goulard) ? ":goulard-off" : (k.kind == -1 ? ":lower" : k.kind == 1 ? ":upper" : ":equal");
      // bounds lost when a structure is discarded after a non-converged pass are a recorded root cause of their own
      bool reduced = m.getCovaNumber() < (int)c.types.size();
      ctx.fail(site + (reduced ? ":constraint-after-reduction:" : ":constraint:") + what + variant,
               fmt("structure %d (requested rank %d, %s) %s[%d,%d] = %.10g violates %s %.10g", fi, k.icov, infoOf(c.types[(size_t)k.icov]).name, what, k.iv1, k.iv2, got, k.kind == -1 ? ">=" : k.kind == 1 ? "<=" : "==", k.value));
      return false;
    }
  }
  if (c.constSill > 0)
  {
    for (int v = 0; v < c.nvar; v++)
    {
      double s = 0;
      for (int ic = 0; ic < m.getCovaNumber(); ic++) s += m.getSill(ic, v, v);
      if (std::fabs(s - c.constSill) > 1e-6 * c.constSill)
      {
        ctx.fail(site + ":constraint:constant-sill", fmt("variable %d: sum of sills %.10g, required %.10g (%d structures of %d kept)", v + 1, s, c.constSill, m.getCovaNumber(), (int)c.types.size()));
        return false;
      }
    }
    ctx.label("cons:checked:constant-sill");
  }
  return true;
}

// documented meaning of the option flags (Option_VarioFit.hpp)
static bool checkOptions(const FitCase& c, const Model& m, const std::string& site, Ctx& ctx)
{
  int ndim = c.ndim;
  // flag_noreduce: "all the basic structures are kept and their number remains unchanged"
  if (c.opt.noreduce)
  {
    bool same = m.getCovaNumber() == (int)c.types.size();
    for (int i = 0; same && i < m.getCovaNumber(); i++) same = m.getCovaType(i).getValue() == c.types[(size_t)i];
    if (!same)
    {
      ctx.fail(site + ":option:noreduce", fmt("%d structures requested with flag_noreduce, %d returned", (int)c.types.size(), m.getCovaNumber()));
      return false;
    }
  }
  // keep_intstr: "at least ONE [intrinsic] basic structure must be kept"
  if (c.opt.keep_intstr)
  {
    bool has = false;
    for (int i = 0; i < m.getCovaNumber(); i++) has = has || infoOf(m.getCovaType(i).getValue()).minOrder == 0;
    if (!has)
    {
      ctx.fail(site + ":option:keep_intstr", "keep_intstr is set and the fit succeeded, but no intrinsic structure is left in the model");
      return false;
    }
  }
  std::vector<const CovAniso*> ranged;
  for (int i = 0; i < m.getCovaNumber(); i++)
    if (m.getCova(i)->hasRange() != 0) ranged.push_back(m.getCova(i));
  // auth_aniso = false: isotropic structures
  if (!c.opt.auth_aniso)
    for (auto* cv : ranged)
    {
      VectorDouble r = cv->getRanges();
      for (int d = 1; d < ndim; d++)
        if (!relEq(r[0], r[(size_t)d], 1e-9))
        {
          ctx.fail(site + ":option:auth_aniso", fmt("anisotropy not authorised but %s has ranges %.10g / %.10g", infoOf(cv->getType().getValue()).name, r[0], r[(size_t)d]));
          return false;
        }
    }
  // auth_rotation = false (no rotation is inferred) and lock_samerot: every anisotropic structure has the same rotation
  if (!c.opt.auth_rotation || c.opt.lock_samerot)
  {
    const CovAniso* first = nullptr;
    for (auto* cv : ranged)
    {
      if (cv->isIsotropic()) continue;
      if (!first) { first = cv; continue; }
      VectorDouble a = first->getAnisoAngles(), b = cv->getAnisoAngles();
      for (int d = 0; d < (int)a.size(); d++)
        if (angDiff(a[(size_t)d], b[(size_t)d], 360.) > 1e-6)
        {
          ctx.fail(site + (c.opt.lock_samerot ? ":option:lock_samerot" : ":option:auth_rotation"),
                   fmt("structures %s and %s have different rotations: angle[%d] %.8g vs %.8g", infoOf(first->getType().getValue()).name, infoOf(cv->getType().getValue()).name, d, a[(size_t)d], b[(size_t)d]));
          return false;
        }
    }
  }
  // lock_iso2d: "the inference looks for a 2-D isotropic model": equal ranges in the XY plane
  if (c.opt.lock_iso2d)
    for (auto* cv : ranged)
    {
      VectorDouble r = cv->getRanges();
      if (!relEq(r[0], r[1], 1e-9))
      {
        ctx.fail(site + ":option:lock_iso2d", fmt("lock_iso2d set but %s has horizontal ranges %.10g / %.10g (ndim %d, %d directions)", infoOf(cv->getType().getValue()).name, r[0], r[1], ndim, (int)c.dirs.size()));
        return false;
      }
    }
  // lock_rot2d: "the anisotropy is restricted to a rotation around Z-axis only" (3-D)
  // asserted when the frame of reference given by the first direction of the variogram is itself horizontal: the
  // rotation that is not inferred is deliberately copied from that direction (st_model_auto_strmod_alloc)
  if (c.opt.lock_rot2d && ndim == 3 && std::fabs(c.dirs[0].codir[2]) < 1e-10)
    for (auto* cv : ranged)
    {
      if (cv->isIsotropic()) continue;
      // rotation about Z only <=> the third axis of the anisotropy is the Z axis
      if (std::fabs(std::fabs(cv->getAnisoRotMat(2, 2)) - 1.) > 1e-9)
      {
        VectorDouble a = cv->getAnisoAngles();
        ctx.fail(site + ":option:lock_rot2d", fmt("lock_rot2d set but %s has angles (%.8g, %.8g, %.8g)", infoOf(cv->getType().getValue()).name, a[0], a[1], a[2]));
        return false;
      }
    }
  return true;
}

static void labelFit(const FitCase& c, Ctx& ctx)
{
  ctx.label(fmt("ndim:%d", c.ndim));
  ctx.label(fmt("nvar:%d", c.nvar));
  ctx.label(fmt("ndir:%d", (int)c.dirs.size()));
  ctx.label(c.source == 0 ? "source:sampled" : (c.calc == 1 ? "source:simulated-cov" : "source:simulated"));
  ctx.label(fmt("nstruct:%d", (int)c.types.size()));
  ctx.label(c.cons.empty() ? "cons:none" : "cons:items");
  if (c.constSill > 0) ctx.label("cons:constant-sill");
  if (!c.empties.empty()) ctx.label("vario:emptied-lags");
}
static uint64_t sigFit(const FitCase& c)
{
  Hash h;
  h.add(c.ndim).add(c.nvar).add(c.source).add(c.calc).add((int)c.dirs.size());
  for (auto& d : c.dirs) { h.add(d.npas); for (double v : d.codir) h.addq(v); }
  for (int t : c.types) h.add(t);
  for (auto& k : c.cons) h.add(k.elem).add(k.icov).add(k.iv1).add(k.kind).addq(k.value);
  h.addq(c.constSill).add(c.noiseSeed).add(c.simSeed).addq(c.noiseAmp);
  h.add(toText(c.opt));
  for (auto& s : c.truth) { h.add(s.type); for (double v : s.ranges) h.addq(v); }
  return h.h;
}

// every check a successfully fitted model must pass
static void validate(const FitCase& c, Model& m, const std::string& site, Ctx& ctx, bool withConstraints)
{
  if (m.getCovaNumber() <= 0)
  {
    ctx.fail(site + ":no-structure", "the fit succeeded but the model has no basic structure");
    return;
  }
  if (m.getVariableNumber() != c.nvar || m.getDimensionNumber() != c.ndim)
  {
    ctx.fail(site + ":shape", fmt("model nvar %d ndim %d, expected %d %d", m.getVariableNumber(), m.getDimensionNumber(), c.nvar, c.ndim));
    return;
  }
  bool okmap = true;
  std::vector<int> map = mapStructures(c, m, okmap);
  if (!okmap)
  {
    std::string s;
    for (int i = 0; i < m.getCovaNumber(); i++) s += fmt(" %s", infoOf(m.getCovaType(i).getValue()).name);
    ctx.fail(site + ":structure-list", "the returned structures are not a sub-list of the requested ones:" + s);
    return;
  }
  if (m.getCovaNumber() < (int)c.types.size()) ctx.label("fit:structures-discarded");
  if (!checkSills(m, site, ctx, c.constSill > 0)) return;
  if (!checkRanges(m, site, ctx)) return;
  if (withConstraints && !checkConstraints(c, m, map, site, ctx)) return;
  if (withConstraints && !checkOptions(c, m, site, ctx)) return;
  ctx.at(site + ":isValid");
  if (!m.isValid())
  {
    ctx.fail(site + ":isValid", "Model::isValid() is false for the fitted model");
    return;
  }
  if (!checkReload(m, site, ctx)) return;
  resetGlobals(c.ndim);
  if (!checkKriging(c, m, c.hmax(), site, ctx)) return;
}

// ------------------------------------------------------------------ termination --------
// "Fitting either reports failure or returns a model": a call that consumes kCpuLimit seconds of CPU time of this
// process (ITIMER_VIRTUAL: independent of the load of the machine; ordinary cases need 0.01-10 s under ASan with
// maxiter <= 100) is reported as not terminating.  The call is left by siglongjmp (single thread, no lock held by the
// fitting code; what it allocated is leaked).
static const int kCpuLimit = 100000; // each case runs in a forked child under RLIMIT_CPU (see the wrappers at the registrations)
static sigjmp_buf gJmp;
static volatile sig_atomic_t gArmed = 0;
static void onCpuAlarm(int)
{
  if (!gArmed) return;
  gArmed = 0;
  siglongjmp(gJmp, 1);
}
template<class F> static bool terminates(F f)
{
  struct sigaction sa;
  memset(&sa, 0, sizeof sa);
  sa.sa_handler = onCpuAlarm;
  sigemptyset(&sa.sa_mask);
  sigaction(SIGVTALRM, &sa, nullptr);
  struct itimerval off;
  memset(&off, 0, sizeof off);
  if (sigsetjmp(gJmp, 1) != 0)
  {
    setitimer(ITIMER_VIRTUAL, &off, nullptr);
    return false;
  }
  struct itimerval on = off;
  on.it_value.tv_sec = kCpuLimit;
  gArmed = 1;
  setitimer(ITIMER_VIRTUAL, &on, nullptr);
  try { f(); }
  catch (...)
  {
    gArmed = 0;
    setitimer(ITIMER_VIRTUAL, &off, nullptr);
    throw;
  }
  gArmed = 0;
  setitimer(ITIMER_VIRTUAL, &off, nullptr);
  return true;
}

// ------------------------------------------------------------------ fit_vario -----------
// C17_TIMING=1: CPU seconds per stage on exit (performance measurements of the report)
struct Timing
{
  double t[3] = {0, 0, 0};
  ~Timing() { if (getenv("C17_TIMING")) diag(fmt("TIMING build-vario %.1f s, fit %.1f s, validate %.1f s", t[0], t[1], t[2])); }
};
static Timing gT;
static double cpuNow() { return (double)clock() / CLOCKS_PER_SEC; }
static void runFit(const FitCase& c, Ctx& ctx)
{
  resetGlobals(c.ndim);
  labelFit(c, ctx);
  double t0 = cpuNow();
  std::unique_ptr<Vario> v = buildVario(c, ctx);
  gT.t[0] += cpuNow() - t0;
  if (!v) { ctx.label("vario:not-built"); return; }
  // a variogram without any usable lag is outside the property ("experimental variogram")
  int usable = 0;
  for (int id = 0; id < v->getDirectionNumber(); id++)
    for (int k = 0; k < v->getDirSize(id); k++)
      if (v->isLagCorrect(id, k)) usable++;
  if (usable < 2 * c.nvar * (c.nvar + 1) / 2) { ctx.label("vario:too-few-lags"); return; }

  std::unique_ptr<Model> m(Model::createFromEnvironment(c.nvar, c.ndim));
  m->setDriftIRF(0, 0); // ordinary kriging: admits stationary and intrinsic structures
  VectorECov types;
  for (int t : c.types) types.push_back(ECov::fromValue(t));
  Constraints cs = buildConstraints(c);
  Option_VarioFit ov = buildOptvar(c.opt);
  Option_AutoFit ma = buildMauto(c.opt);
  ctx.at("Model::fit");
  int err = 0;
  struct Lap { double t0; int k; Lap(int kk) : t0(cpuNow()), k(kk) {} ~Lap() { gT.t[k] += cpuNow() - t0; } };
  std::unique_ptr<Lap> lap(new Lap(1));
  try
  {
    if (!terminates([&]() { err = m->fit(v.get(), types, cs, ov, ma, verboseMode()); }))
    {
      m.release(); // left in an unknown state by the interrupted call
      ctx.fail("fit:no-termination", fmt("Model::fit still running after %d s of CPU time", kCpuLimit));
      return;
    }
  }
  catch (const LibExit&) { throw; }
  catch (const std::exception& e) { ctx.fail("fit:exception:" + excKey(e), std::string("Model::fit let an exception escape: ") + e.what()); return; }
  ctx.sig = sigFit(c);
  ctx.nontrivial(c.nvar >= 2 || !c.cons.empty() || c.constSill > 0 || c.dirs.size() >= 2);
  lap.reset(new Lap(2));
  if (err != 0) { ctx.label("fit:error-returned"); return; }
  ctx.label("fit:success");
  validate(c, *m, "fit", ctx, true);
}
// the key prefix names the input region, so that a crash confined to a recorded region (flag_intrinsic, MATERN in the
// fitted list, emptied lags in the sills-only entry points) is not confused with a crash elsewhere
static std::string regionOf(const FitCase& c, const char* base)
{
  std::string p = base;
  if (c.opt.intrinsic) p += ":intrinsic";
  for (int t : c.types) if (t == 7) { p += ":matern"; break; }
  if (!c.empties.empty()) p += ":empties";
  return p;
}
static void runFitForked(const FitCase& c, Ctx& ctx) { forkedRun(c, ctx, runFit, regionOf(c, "fit"), 30, 240); }
VERIF_SUB(fit_vario, FitCase, genFit, runFitForked);

// ------------------------------------------------------------------ fit_sills -----------
// Goulard alone: the ranges of the model are given (those of `types`, generated), only the sills are fitted
static void runSills(const FitCase& c, Ctx& ctx)
{
  resetGlobals(c.ndim);
  labelFit(c, ctx);
  std::unique_ptr<Vario> v = buildVario(c, ctx);
  if (!v) { ctx.label("vario:not-built"); return; }
  // known finding C17-sills-new-empty-lag (replay file only, heap overflow): ModelOptimSillsVario sizes its compressed
  // arrays with the number of usable lags but fills them with every lag, so it is only called on variograms without
  // any unusable lag unless C17_ENABLE=sills-new-empty-lag
  int api = c.api; // 2 (never generated, replay files only): the new class without this precaution
  if (api == 2) api = 1;
  else if (api == 1 && !enabled("sills-new-empty-lag"))
    for (int id = 0; id < v->getDirectionNumber(); id++)
      for (int k = 0; k < v->getDirSize(id); k++)
        if (!v->isLagCorrect(id, k)) api = 0;
  ctx.label(api == 0 ? "api:model_fitting_sills" : "api:ModelOptimSillsVario");
  int usable = 0;
  for (int id = 0; id < v->getDirectionNumber(); id++)
    for (int k = 0; k < v->getDirSize(id); k++)
      if (v->isLagCorrect(id, k)) usable++;
  if (usable < 2 * c.nvar * (c.nvar + 1) / 2) { ctx.label("vario:too-few-lags"); return; }
  std::unique_ptr<Model> m(new Model(c.nvar, c.ndim));
  m->setDriftIRF(0, 0);
  double hmax = c.hmax();
  int k = 0;
  for (int t : c.types)
  {
    k++;
    const TypeInfo& ti = infoOf(t);
    double range = hmax * (0.2 + 0.3 * k) * (1. + 0.3 * hashU(c.krigSeed, 900 + k));
    double param = ti.hasParam ? std::min(1., ti.parmax > 0 ? ti.parmax * 0.5 : 1.) : 1.;
    if (t == 0) m->addCovFromParam(ECov::NUGGET, 0., 1.);
    else m->addCovFromParam(ECov::fromValue(t), range, 1., param);
  }
  if (m->getCovaNumber() != (int)c.types.size()) { ctx.label("model:not-built"); return; }
  Constraints cs = buildConstraints(c);
  OptC o = c.opt;
  o.goulard = 1;
  Option_VarioFit ov = buildOptvar(o);
  Option_AutoFit ma = buildMauto(o);
  int err = 0;
  if (api == 0)
  {
    ctx.at("model_fitting_sills");
    if (!terminates([&]() { err = model_fitting_sills(v.get(), m.get(), cs, ov, ma); }))
    {
      m.release();
      ctx.fail("sills-old:no-termination", fmt("model_fitting_sills still running after %d s of CPU time", kCpuLimit));
      return;
    }
  }
  else
  {
    ctx.at("ModelOptimSillsVario::fit");
    ModelOptimSillsVario mo(m.get(), &cs, ma, ov);
    err = mo.fit(v.get(), o.wmode, false);
  }
  ctx.sig = sigFit(c) ^ (uint64_t)(api + 1);
  ctx.nontrivial(c.nvar >= 2 || c.constSill > 0 || c.dirs.size() >= 2);
  if (err != 0) { ctx.label("fit:error-returned"); return; }
  ctx.label("fit:success");
  FitCase cc = c;
  cc.cons.clear();
  cc.opt = OptC(); // no option applies to the sills-only entry points
  validate(cc, *m, api == 0 ? "sills-old" : "sills-new", ctx, true);
}
static void runSillsForked(const FitCase& c, Ctx& ctx) { forkedRun(c, ctx, runSills, regionOf(c, "sills"), 30, 240); }
VERIF_SUB(fit_sills, FitCase, genSills, runSillsForked);

// ------------------------------------------------------------------ fit_vmap ------------
struct VMapCase
{
  int nvar = 1;
  int nx = 20, ny = 20;
  double dx = 1.;
  std::vector<StructC> truth;
  int simSeed = 1, nbtuba = 30;
  int half = 4;      // the map has (2*half+1)^2 cells
  int fft = 1;
  std::vector<int> types;
  std::vector<ConsC> cons;
  OptC opt;
  int krigSeed = 1;
  template<class A> void io(A& x)
  {
    x("nvar", nvar)("nx", nx)("ny", ny)("dx", dx)("truth", truth)("simSeed", simSeed)("nbtuba", nbtuba)("half", half)("fft", fft);
    x("types", types)("cons", cons)("opt", opt)("krigSeed", krigSeed);
  }
};
static VMapCase genVMap()
{
  VMapCase c;
  c.nvar = G::pct(8) ? 2 : 1; // the map fit only accepts one variable (two contradictory checks on the number of maps): nvar 2 must fail cleanly
  c.nx = G::sz(10, 24);
  c.ny = G::sz(10, 24);
  c.dx = G::pick({1., 0.01, 50.});
  c.half = G::i(3, 5);
  double hmax = c.dx * c.half;
  double gscale = G::lu(1e-2, 1e3);
  int nst = G::pick({1, 2});
  for (int s = 0; s < nst; s++) c.truth.push_back(genTruthStruct(2, c.nvar, 2. * hmax, gscale, false));
  c.simSeed = G::seed();
  c.nbtuba = G::pick({20, 50});
  c.fft = G::pct(50);
  int nt = G::pick({1, 2, 2, 3});
  for (int s = 0; s < nt; s++)
    for (int attempt = 0; attempt < 20; attempt++)
    {
      int t = fitType(G::pct(80) ? kFitCommon[G::i(0, 9)] : kFitAll[G::i(0, 16)]);
      if (std::find(c.types.begin(), c.types.end(), t) != c.types.end()) continue;
      c.types.push_back(t);
      break;
    }
  c.opt = genOpt(c.nvar);
  c.opt.intrinsic = enabled("intrinsic") ? G::pct(15) : 0;
  // constraints: ranges / params only (same encoding as for fit_vario; the map fit always authorises anisotropy and rotation)
  int n = G::pick({0, 0, 1, 2});
  for (int q = 0; q < n; q++)
  {
    ConsC k;
    k.icov = G::i(0, (int)c.types.size() - 1);
    const TypeInfo& ti = infoOf(c.types[(size_t)k.icov]);
    if (ti.hasRange <= 0) continue;
    bool dup = false;
    for (auto& o : c.cons) dup = dup || o.icov == k.icov;
    if (dup) continue;
    k.elem = 1;
    k.iv1 = G::i(0, 1);
    k.kind = G::pick({-1, 1, 2});
    k.value = hmax * G::pick({0.2, 0.5, 1., 2.}) * G::u(0.8, 1.2);
    c.cons.push_back(k);
  }
  c.krigSeed = G::seed();
  return c;
}
static void runVMap(const VMapCase& c, Ctx& ctx)
{
  resetGlobals(2);
  ctx.label(fmt("nvar:%d", c.nvar));
  ctx.label(fmt("nstruct:%d", (int)c.types.size()));
  ctx.label(c.cons.empty() ? "cons:none" : "cons:items");
  FitCase f; // carrier for the shared oracle
  f.ndim = 2;
  f.nvar = c.nvar;
  f.truth = c.truth;
  f.types = c.types;
  f.cons = c.cons;
  f.opt = c.opt;
  f.krigSeed = c.krigSeed;
  // the map fit forces auth_aniso = auth_rotation = true (st_alter_vmap_optvar): describe the geometry as three
  // 2-D directions so that the shared reading of the options agrees
  f.opt.auth_aniso = f.opt.auth_rotation = 1;
  for (int k = 0; k < 3; k++)
  {
    DirC d;
    d.npas = c.half;
    d.dpas = c.dx;
    d.codir = {std::cos(k * M_PI / 3), std::sin(k * M_PI / 3)};
    f.dirs.push_back(d);
  }
  std::unique_ptr<Model> truth = buildTruth(f);
  ctx.at("DbGrid");
  std::unique_ptr<DbGrid> grid(DbGrid::create({c.nx, c.ny}, {c.dx, c.dx}));
  if (!grid) { ctx.label("grid:not-built"); return; }
  ctx.at("simtub");
  if (simtub(nullptr, grid.get(), truth.get(), nullptr, 1, c.simSeed, c.nbtuba) != 0) { ctx.label("simtub:error"); return; }
  ctx.at("db_vmap");
  std::unique_ptr<DbGrid> vmap(db_vmap(grid.get(), ECalcVario::VARIOGRAM, {c.half, c.half}, VectorDouble(), 0, c.fft != 0));
  if (!vmap) { ctx.label("vmap:not-built"); return; }
  std::unique_ptr<Model> m(Model::createFromEnvironment(c.nvar, 2));
  m->setDriftIRF(0, 0);
  VectorECov types;
  for (int t : c.types) types.push_back(ECov::fromValue(t));
  Constraints cs = buildConstraints(f);
  Option_VarioFit ov = buildOptvar(c.opt);
  Option_AutoFit ma = buildMauto(c.opt);
  ctx.at("Model::fitFromVMap");
  int err = 0;
  try
  {
    if (!terminates([&]() { err = m->fitFromVMap(vmap.get(), types, cs, ov, ma, verboseMode()); }))
    {
      m.release();
      ctx.fail("vmap:no-termination", fmt("Model::fitFromVMap still running after %d s of CPU time", kCpuLimit));
      return;
    }
  }
  catch (const LibExit&) { ctx.fail("vmap:lib-exit", "Model::fitFromVMap called the library's exit function (messageAbort)"); return; }
  catch (const std::exception& e) { ctx.fail("vmap:exception:" + excKey(e), std::string("Model::fitFromVMap let an exception escape: ") + e.what()); return; }
  Hash h;
  h.add(toText(c.opt)).add(c.nvar).add(c.nx).add(c.ny).add(c.simSeed).add(c.half);
  for (int t : c.types) h.add(t);
  for (auto& k : c.cons) h.add(k.icov).add(k.iv1).add(k.kind).addq(k.value);
  ctx.sig = h.h;
  ctx.nontrivial(true); // a map is a multi-directional variogram
  if (err != 0) { ctx.label("fit:error-returned"); return; }
  ctx.label("fit:success");
  // options documented for the variogram fit that the map fit overrides are not asserted here
  f.opt.lock_samerot = c.opt.lock_samerot;
  f.opt.lock_rot2d = 0;
  f.opt.keep_intstr = c.opt.keep_intstr;
  validate(f, *m, "vmap", ctx, true);
}
static void runVMapForked(const VMapCase& c, Ctx& ctx) { forkedRun(c, ctx, runVMap, "vmap", 30, 240); }
VERIF_SUB(fit_vmap, VMapCase, genVMap, runVMapForked);

VERIF_MAIN()
