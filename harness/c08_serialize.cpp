// C08 — saving and reloading an object gives back an equivalent object (DESIGN.md §5 C08).
//
// For every serialisable class an instance x is built through the public API from generated
// parameters.  Oracle (the same for all classes, see roundTrip()):
//   s1 = serialize(x)  (std::stringstream, must succeed)
//   y  = fresh object; y.deserialize(s1) must succeed
//   defining getters of y == getters of x (1e-14 relative, NA <-> NA)          key <cls>:get:<field>
//   behavioural queries on generated arguments answer identically               key <cls>:query:<what>
//   serialize(y) == s1 as strings                                               key <cls>:reserialize
//   dumpToNF / createFromNF in a private scratch directory (with and without container / prefix
//   settings): the file is "<tag>\n" + s1, it loads, and the loaded object serialises to s1 again.
// Only fields which the format stores are compared (the others are listed in the report).
// VERIF_DUMP_SEEDS=<dir>: the first files of every class are copied to <dir>/<c09 target>/ (fuzz seeds).
#include "verif.hpp"

#include "Basic/ASerializable.hpp"
#include "Basic/OptDbg.hpp"
#include "Basic/Law.hpp"
#include "Basic/VectorHelper.hpp"
#include "Basic/PolyLine2D.hpp"
#include "Db/Db.hpp"
#include "Db/DbGrid.hpp"
#include "Db/DbLine.hpp"
#include "Db/DbGraphO.hpp"
#include "Db/DbMeshTurbo.hpp"
#include "Db/DbMeshStandard.hpp"
#include "Model/Model.hpp"
#include "Covariances/CovAniso.hpp"
#include "Covariances/CovContext.hpp"
#include "Covariances/CovFactory.hpp"
#include "Covariances/ACovFunc.hpp"
#include "Drifts/ADrift.hpp"
#include "Neigh/NeighUnique.hpp"
#include "Neigh/NeighMoving.hpp"
#include "Neigh/NeighBench.hpp"
#include "Neigh/NeighCell.hpp"
#include "Neigh/NeighImage.hpp"
#include "Variogram/Vario.hpp"
#include "Variogram/VarioParam.hpp"
#include "Variogram/DirParam.hpp"
#include "Polygon/Polygons.hpp"
#include "Polygon/PolyElem.hpp"
#include "Anamorphosis/AnamHermite.hpp"
#include "Anamorphosis/AnamEmpirical.hpp"
#include "Anamorphosis/AnamDiscreteDD.hpp"
#include "Anamorphosis/AnamDiscreteIR.hpp"
#include "Mesh/MeshEStandard.hpp"
#include "Mesh/MeshETurbo.hpp"
#include "Mesh/MeshSpherical.hpp"
#include "Matrix/Table.hpp"
#include "Matrix/MatrixRectangular.hpp"
#include "Matrix/MatrixInt.hpp"
#include "Matrix/MatrixSparse.hpp"
#include "Matrix/NF_Triplet.hpp"
#include "LithoRule/Rule.hpp"
#include "LithoRule/RuleShift.hpp"
#include "LithoRule/RuleShadow.hpp"
#include "Faults/Faults.hpp"
#include "Fractures/FracEnviron.hpp"
#include "Fractures/FracFamily.hpp"
#include "Fractures/FracFault.hpp"
#include "OutputFormat/GridZycor.hpp"
#include "OutputFormat/GridIfpEn.hpp"
#include "Space/ASpaceObject.hpp"
#include "Space/SpaceRN.hpp"
#include "Enum/ELoc.hpp"
#include "Enum/ECov.hpp"
#include "Enum/ELoadBy.hpp"
#include "geoslib_define.h"

#include <memory>
#include <algorithm>
#include <sys/stat.h>
#include <sys/wait.h>

using namespace vf;

// ====================================================================== common tools =====
static const double kRel = 1e-14; // 15 significant digits => relative error <= 5e-15

static bool isNAv(double v) { return FFFF(v); }
// equality "to the 15 digits of the format", NA <-> NA
static bool eqv(double a, double b, double rel = kRel)
{
  if (isNAv(a) || isNAv(b)) return isNAv(a) && isNAv(b);
  if (a == b) return true;
  return std::fabs(a - b) <= rel * std::max(std::fabs(a), std::fabs(b));
}
static std::string dstr(double v)
{
  if (isNAv(v)) return "NA";
  return fmt("%.17g", v);
}

// ---- generated values: NA, zeros, tiny/huge, 15-digit decimals, full-precision doubles
static double genFull01()
{
  // 53 random mantissa bits
  double hi = (double)G::i(0, (1 << 26) - 1), lo = (double)G::i(0, (1 << 27) - 1);
  return (hi * 134217728. + lo) / 9007199254740992.;
}
static double genDecimal15()
{
  // up to 15 significant decimal digits, decimal exponent in [-20,8]
  long long m = (long long)G::i(1, 999999999) * 1000000LL + (long long)G::i(0, 999999);
  int e = G::i(-34, -6);
  char b[64];
  snprintf(b, sizeof b, "%llde%d", m, e);
  return strtod(b, nullptr);
}
static double genVal(int naPct)
{
  if (naPct > 0 && G::pct(naPct)) return TEST;
  double sgn = G::b() ? 1. : -1.;
  switch (G::i(0, 11))
  {
    case 0: return 0.;
    case 1: return -0.0;
    case 2: return sgn * G::lu(1e-300, 1e-200);
    case 3: return sgn * G::lu(1e20, 9e28);
    case 4:
    case 5:
    case 6: return sgn * genDecimal15();
    case 7:
    case 8:
    case 9: return sgn * genFull01() * G::pick<double>({1., 1e3, 1e-3, 1e6, 1e-9});
    default: return G::r(-100, 100, 4);
  }
}
// strictly positive value in [lo,hi] (hi/lo >= 10): log-uniform, decimal or full precision
static double genPos(double lo, double hi)
{
  switch (G::i(0, 3))
  {
    case 0: return G::lu(lo, hi);
    case 1:
    {
      double v = genDecimal15();
      while (v < lo) v *= 10.;
      while (v > hi) v /= 10.;
      if (v < lo) v = lo;
      return strtod(fmt("%.15g", v).c_str(), nullptr);
    }
    case 2: return lo + (std::min(hi, lo * 1e3) - lo) * genFull01();
    default: return std::min(hi, std::max(lo, (double)G::i(1, 40) * G::pick<double>({0.25, 1., 10.})));
  }
}
static double genAngle()
{
  switch (G::i(0, 3))
  {
    case 0: return (double)G::pick<int>({0, 30, 45, 90, -90, 180, 270, 360, -30, 135});
    case 1: return G::u(-180., 180.);
    case 2: return 360. * genFull01();
    default: return G::r(-360, 360, 8);
  }
}
static std::string genName(int k)
{
  static const char first[] = "abcdefghijklmnopqrstuvwxyzABCDEFGHIJKLMNOPQRSTUVWXYZ";
  static const char rest[] = "abcdefghijklmnopqrstuvwxyz0123456789_.-ABXYZ";
  std::string s;
  s.push_back(first[G::i(0, (int)sizeof(first) - 2)]);
  int n = G::i(0, 6);
  for (int i = 0; i < n; i++) s.push_back(rest[G::i(0, (int)sizeof(rest) - 2)]);
  s += fmt("%d", k); // unique within the object
  return s;
}

// ---- file options
struct FOpt
{
  int mode = 0; // 0: absolute path, no container; 1: container; 2: container + prefix; 3: prefix only (absolute in prefix)
  template<class A> void io(A& a) { a("mode", mode); }
};
static FOpt genFOpt()
{
  FOpt f;
  f.mode = G::i(0, 3);
  return f;
}

static std::string& scratchDir()
{
  static std::string d;
  if (d.empty())
  {
    char tmpl[] = "/dev/shm/vf_c08_XXXXXX";
    char* p = mkdtemp(tmpl);
    d = p ? p : "/tmp";
    static std::string keep = d;
    atexit([]() {
      std::string cmd = "rm -rf " + keep;
      if (keep.rfind("/dev/shm/vf_c08_", 0) == 0) (void)!system(cmd.c_str());
    });
  }
  return d;
}

static void resetGlobals(int ndim = 2)
{
  ASerializable::unsetContainerName();
  ASerializable::unsetPrefixName();
  OptDbg::reset();
  law_set_random_seed(132421);
  defineDefaultSpace(ESpaceType::RN, ndim);
}

// ---- fuzz seeds for C09
static void dumpSeed(const char* target, const std::string& content)
{
  static const char* dir = getenv("VERIF_DUMP_SEEDS");
  if (dir == nullptr || target == nullptr || stats().shrinking) return;
  static std::map<std::string, int> count;
  int& k = count[target];
  if (k >= 5) return;
  std::string d = std::string(dir);
  mkdir(d.c_str(), 0755);
  d += std::string("/") + target;
  mkdir(d.c_str(), 0755);
  writeFile(d + fmt("/c08_%s_%02d", stats().sub.c_str(), k), content);
  k++;
}

template<class T> static bool ser(const T& x, std::string& out)
{
  std::stringstream ss;
  bool ok = x.serialize(ss, false);
  out = ss.str();
  return ok;
}
template<class T> static bool deser(T& y, const std::string& s)
{
  std::stringstream ss(s);
  return y.deserialize(ss, false);
}
static std::string firstDiff(const std::string& a, const std::string& b)
{
  size_t i = 0;
  while (i < a.size() && i < b.size() && a[i] == b[i]) i++;
  size_t la = a.rfind('\n', i == 0 ? 0 : i - 1);
  la = (la == std::string::npos) ? 0 : la + 1;
  auto line = [&](const std::string& s) {
    size_t e = s.find('\n', la);
    std::string l = s.substr(std::min(la, s.size()), e == std::string::npos ? std::string::npos : e - la);
    if (l.size() > 120) l = l.substr(0, 120) + "...";
    return l;
  };
  return fmt("first difference at byte %d: '", (int)i) + line(a) + "' vs '" + line(b) + "'";
}

// two texts which differ only by numbers equal to 1e-14 relative (a recomputed quantity printed again)
static bool sameUpToLastDigit(const std::string& a, const std::string& b)
{
  std::istringstream sa(a), sb(b);
  std::string wa, wb;
  while (true)
  {
    bool ga = bool(sa >> wa), gb = bool(sb >> wb);
    if (ga != gb) return false;
    if (!ga) return true;
    if (wa == wb) continue;
    char *ea = nullptr, *eb = nullptr;
    double va = strtod(wa.c_str(), &ea), vb = strtod(wb.c_str(), &eb);
    if (*ea != 0 || *eb != 0 || ea == wa.c_str() || eb == wb.c_str()) return false;
    if (!eqv(va, vb, 1e-13)) return false; // (a sum of squares of values rounded to 15 digits)
  }
}

// generic reader for classes without createFromNF: checks the tag like _fileOpenRead does
template<class T> static T* loadByTag(const std::string& path, const std::string& tag)
{
  std::ifstream is(path);
  if (!is.is_open()) return nullptr;
  std::string type;
  is >> type;
  if (type != tag) return nullptr;
  T* o = new T();
  if (!o->deserialize(is, false)) { delete o; return nullptr; }
  return o;
}

// The oracle.  fresh(): new default object;  fromNF(path): the class's file reader;
// cmp(x, y, ctx): getters + behaviour, reports through ctx.fail and returns false on mismatch.
template<class T, class Fresh, class FromNF, class Cmp>
static bool roundTrip(const std::string& cls, const std::string& tag, const char* target, const T& x, Fresh fresh,
                      FromNF fromNF, Cmp cmp, const FOpt& fo, Ctx& ctx)
{
  std::string s1, s2;
  ctx.at(cls + ":serialize");
  if (!ser(x, s1))
  {
    ctx.fail(cls + ":serialize", "serialize() of an object built through the API returned false");
    return false;
  }
  dumpSeed(target, tag + "\n" + s1); // what dumpToNF writes (checked below): a valid file of the class for the C09 fuzzer
  ctx.at(cls + ":deserialize");
  std::unique_ptr<T> y(fresh());
  if (!deser(*y, s1))
  {
    ctx.fail(cls + ":deserialize", "deserialize() refused what serialize() wrote:\n" + s1.substr(0, 400));
    return false;
  }
  ctx.at(cls + ":compare");
  if (!cmp(x, *y, ctx)) return false;
  ctx.at(cls + ":reserialize");
  if (!ser(*y, s2))
  {
    ctx.fail(cls + ":reserialize", "serialize() of the reloaded object returned false");
    return false;
  }
  if (s2 != s1)
  {
    ctx.fail(cls + (sameUpToLastDigit(s1, s2) ? ":reserialize-last-digit" : ":reserialize"),
             "writing the reloaded object does not reproduce the text: " + firstDiff(s1, s2));
    return false;
  }

  if (fo.mode < 0) return true; // stream part only (used where a recorded defect blocks every file of a class)

  // through files, with container / prefix settings
  std::string dir = scratchDir() + "/";
  std::string name = "obj_" + cls + ".nf";
  std::string given, actual = dir;
  if (fo.mode == 0) given = dir + name;
  else if (fo.mode == 1) { ASerializable::setContainerName(false, dir, false); given = name; }
  else if (fo.mode == 2) { ASerializable::setContainerName(false, dir, false); ASerializable::setPrefixName("pfx."); given = name; actual += "pfx."; }
  else { ASerializable::setPrefixName(dir + "only."); given = name; actual += "only."; }
  actual += name;
  unlink(actual.c_str());
  ctx.at(cls + ":dumpToNF");
  bool okw = x.dumpToNF(given, false);
  std::string content;
  bool okr = readFile(actual, content);
  std::unique_ptr<T> z;
  if (okw && okr)
  {
    ctx.at(cls + ":createFromNF");
    // reading: a relative name goes through container+prefix, like the writer
    z.reset(fromNF(fo.mode == 0 ? given : given));
  }
  ASerializable::unsetContainerName();
  ASerializable::unsetPrefixName();
  if (!okw || !okr)
  {
    ctx.fail(cls + ":file-write", fmt("dumpToNF returned %d, file %s readable=%d", (int)okw, actual.c_str(), (int)okr));
    return false;
  }
  if (content != tag + "\n" + s1)
  {
    ctx.fail(cls + ":file-content", "the file is not '<tag>\\n' + serialize(): " + firstDiff(tag + "\n" + s1, content));
    return false;
  }
  if (!z)
  {
    ctx.fail(cls + ":file-read", "createFromNF refused the file written by dumpToNF (mode " + fmt("%d", fo.mode) + ")");
    return false;
  }
  ctx.at(cls + ":file-reserialize");
  std::string s3;
  if (!ser(*z, s3) || s3 != s1)
  {
    ctx.fail(cls + ":file-reserialize", "object loaded from the file does not serialise to the same text: " + firstDiff(s1, s3));
    return false;
  }
  unlink(actual.c_str());
  return true;
}

#define CHECK_EQ_INT(cls, field, a, b)                                                                   \
  do {                                                                                                    \
    long _a = (long)(a), _b = (long)(b);                                                                  \
    if (_a != _b) { ctx.fail(std::string(cls) + ":get:" + field, fmt("%s: %ld before, %ld after reload", field, _a, _b)); return false; } \
  } while (0)
#define CHECK_EQ_DBL(cls, field, a, b)                                                                   \
  do {                                                                                                    \
    double _a = (a), _b = (b);                                                                            \
    if (!eqv(_a, _b)) { ctx.fail(std::string(cls) + ":get:" + field, fmt("%s: %s before, %s after reload", field, dstr(_a).c_str(), dstr(_b).c_str())); return false; } \
  } while (0)
#define CHECK_QRY_DBL(cls, what, a, b, rel)                                                              \
  do {                                                                                                    \
    double _a = (a), _b = (b);                                                                            \
    if (!eqv(_a, _b, rel)) { ctx.fail(std::string(cls) + ":query:" + what, fmt("%s: %s before, %s after reload", what, dstr(_a).c_str(), dstr(_b).c_str())); return false; } \
  } while (0)

static bool sameVecD(const std::string& cls, const char* field, const VectorDouble& a, const VectorDouble& b, Ctx& ctx,
                     const char* kind = ":get:", double rel = kRel)
{
  if (a.size() != b.size())
  {
    ctx.fail(cls + kind + field, fmt("%s: size %d before, %d after reload", field, (int)a.size(), (int)b.size()));
    return false;
  }
  for (size_t i = 0; i < a.size(); i++)
    if (!eqv(a[i], b[i], rel))
    {
      ctx.fail(cls + kind + field, fmt("%s[%d]: %s before, %s after reload", field, (int)i, dstr(a[i]).c_str(), dstr(b[i]).c_str()));
      return false;
    }
  return true;
}
static bool sameVecI(const std::string& cls, const char* field, const VectorInt& a, const VectorInt& b, Ctx& ctx,
                     const char* kind = ":get:")
{
  if (a.size() != b.size())
  {
    ctx.fail(cls + kind + field, fmt("%s: size %d before, %d after reload", field, (int)a.size(), (int)b.size()));
    return false;
  }
  for (size_t i = 0; i < a.size(); i++)
    if (a[i] != b[i])
    {
      ctx.fail(cls + kind + field, fmt("%s[%d]: %d before, %d after reload", field, (int)i, a[i], b[i]));
      return false;
    }
  return true;
}

// ====================================================================== Db family ========
// locator types which may be carried by one column only
static bool locUnique(int t)
{
  switch (t)
  {
    case 8: case 9: case 10: case 11: case 13: case 14: case 15: case 16: case 17: case 19: case 25: return true;
    default: return false;
  }
}
struct ColumnsCase
{
  int nech = 1;
  bool rank = false;
  std::vector<std::string> names;
  std::vector<int> locType; // -1 unknown, else ELoc value
  std::vector<int> locOrder; // rank among the columns of the same type is taken in this order (a permutation of the columns)
  std::vector<double> vals; // by column
  template<class A> void io(A& a) { a("nech", nech)("rank", rank)("names", names)("locType", locType)("locOrder", locOrder)("vals", vals); }
  int ncol() const { return (int)names.size(); }
};
// locators are drawn over all ELoc values (each multiple type gets consecutive indices in column order)
static void genColumns(ColumnsCase& c, int nech, int ncolMin, int ncolMax, int naPct)
{
  c.nech = nech;
  c.rank = G::pct(30);
  int ncol = (ncolMin == 0 && G::pct(6)) ? 0 : G::sz(std::max(1, ncolMin), ncolMax) - ((ncolMin == 0 && G::pct(20)) ? 1 : 0);
  std::set<int> usedUnique;
  for (int k = 0; k < ncol; k++)
  {
    c.names.push_back(genName(k));
    int t = -1;
    int how = G::i(0, 9);
    if (how < 3) t = -1;
    else if (how < 7) t = G::pick<int>({0, 0, 1, 1, 1, 2, 3, 10, 9});
    else t = G::i(0, 28);
    if (t >= 0 && locUnique(t))
    {
      if (usedUnique.count(t)) t = -1;
      else usedUnique.insert(t);
    }
    c.locType.push_back(t);
    bool isSel = (t == 10);
    for (int i = 0; i < nech; i++) c.vals.push_back(isSel ? (double)G::i(0, 1) : genVal(naPct));
  }
  // item numbers of a locator type need not follow the column order (z2 may come before z1)
  if (G::pct(50)) c.locOrder = G::perm(ncol);
  else for (int k = 0; k < ncol; k++) c.locOrder.push_back(k);
}
static void applyLocators(Db* db, const ColumnsCase& c, int firstCol)
{
  // item number of each column: its rank, in the generated order, among the columns of the same type
  std::map<int, int> next;
  std::vector<int> idx((size_t)c.ncol(), 0);
  std::vector<int> order = c.locOrder;
  std::vector<int> seen((size_t)c.ncol(), 0);
  std::vector<int> clean;
  for (int k : order) if (k >= 0 && k < c.ncol() && !seen[(size_t)k]) { seen[(size_t)k] = 1; clean.push_back(k); }
  for (int k = 0; k < c.ncol(); k++) if (!seen[(size_t)k]) clean.push_back(k); // (shrunk / edited cases)
  for (int k : clean)
  {
    int t = c.locType[(size_t)k];
    if (t >= 0) idx[(size_t)k] = locUnique(t) ? 0 : next[t]++;
  }
  // items are declared in increasing item number so that no hole ever exists in a locator list
  for (int pass = 0; pass < c.ncol(); pass++)
    for (int k = 0; k < c.ncol(); k++)
    {
      int t = c.locType[(size_t)k];
      if (t < 0) { if (pass == 0) db->setLocatorByColIdx(firstCol + k, ELoc::UNKNOWN, 0); continue; }
      if (idx[(size_t)k] == pass) db->setLocatorByColIdx(firstCol + k, ELoc::fromValue(t), pass);
    }
}
static bool colsNonTrivial(const ColumnsCase& c)
{
  bool na = false, loc = false;
  for (double v : c.vals) na = na || isNAv(v);
  for (int t : c.locType) loc = loc || t >= 0;
  return c.ncol() >= 2 && c.nech >= 2 && (na || loc);
}

// getters of the Db part (shared by all Db classes)
static bool cmpDbPart(const std::string& cls, const Db& x, const Db& y, Ctx& ctx)
{
  CHECK_EQ_INT(cls, "ncol", x.getColumnNumber(), y.getColumnNumber());
  CHECK_EQ_INT(cls, "nech", x.getSampleNumber(), y.getSampleNumber());
  int ncol = x.getColumnNumber(), nech = x.getSampleNumber();
  for (int ic = 0; ic < ncol; ic++)
  {
    if (x.getNameByColIdx(ic) != y.getNameByColIdx(ic))
    {
      ctx.fail(cls + ":get:name", fmt("column %d: name '%s' before, '%s' after reload", ic, x.getNameByColIdx(ic).c_str(), y.getNameByColIdx(ic).c_str()));
      return false;
    }
    ELoc tx, ty;
    int ix = -1, iy = -1;
    (void)x.getLocatorByColIdx(ic, &tx, &ix);
    (void)y.getLocatorByColIdx(ic, &ty, &iy);
    if (tx != ty || (tx != ELoc::UNKNOWN && ix != iy))
    {
      // the locator keyword is re-identified by prefix on reload: "facies"/"gausfac" are caught by "f"/"g" (separate key)
      // (a clash also steals the f1/g1 locator of another column: any locator mismatch of such a Db gets the key)
      bool clash = x.getLocNumber(ELoc::FACIES) > 0 || x.getLocNumber(ELoc::GAUSFAC) > 0;
      ctx.fail(clash ? "locator-prefix-clash:" + cls : cls + ":get:locator", fmt("column %d: locator %s[%d] before, %s[%d] after reload", ic, std::string(tx.getKey()).c_str(), ix,
                                         std::string(ty.getKey()).c_str(), iy));
      return false;
    }
    for (int ie = 0; ie < nech; ie++)
    {
      double a = x.getValueByColIdx(ie, ic), b = y.getValueByColIdx(ie, ic);
      if (!eqv(a, b))
      {
        ctx.fail(cls + ":get:value", fmt("cell (%d,%d): %s before, %s after reload", ie, ic, dstr(a).c_str(), dstr(b).c_str()));
        return false;
      }
    }
  }
  // derived answers
  CHECK_EQ_INT(cls, "ndim", x.getNDim(), y.getNDim());
  CHECK_EQ_INT(cls, "nvar", x.getLocNumber(ELoc::Z), y.getLocNumber(ELoc::Z));
  CHECK_EQ_INT(cls, "nactive", x.getSampleNumber(true), y.getSampleNumber(true));
  return true;
}

// ---------------------------------------------------------------- sub: db ------------------
struct DbCase
{
  ColumnsCase cols;
  FOpt fo;
  int hist = 0; // 1: the Db had an earlier life (a leading working column was deleted: user identifiers and column ranks differ)
  template<class A> void io(A& a) { a("cols", cols)("fo", fo)("hist", hist); }
};
static DbCase genDb()
{
  DbCase c;
  int nech = G::pct(5) ? 0 : G::sz(1, 8);
  genColumns(c.cols, nech, 0, 6, G::pick<int>({0, 20, 50}));
  c.fo = genFOpt();
  c.hist = (nech > 0 && G::pct(35)) ? 1 : 0;
  return c;
}
static VectorString toVS(const std::vector<std::string>& v)
{
  VectorString r;
  for (auto& s : v) r.push_back(s);
  return r;
}
static VectorDouble toVD(const std::vector<double>& v)
{
  VectorDouble r;
  for (double d : v) r.push_back(d);
  return r;
}
static VectorInt toVI(const std::vector<int>& v)
{
  VectorInt r;
  for (int d : v) r.push_back(d);
  return r;
}
static void runDb(const DbCase& c, Ctx& ctx)
{
  resetGlobals();
  ctx.label("class:Db");
  ctx.at("Db:build");
  std::unique_ptr<Db> x;
  if (c.hist)
  {
    std::vector<std::string> names = c.cols.names;
    names.insert(names.begin(), "verif_scratch");
    std::vector<double> vals((size_t)c.cols.nech, 0.);
    vals.insert(vals.end(), c.cols.vals.begin(), c.cols.vals.end());
    x.reset(Db::createFromSamples(c.cols.nech, ELoadBy::COLUMN, toVD(vals), toVS(names), VectorString(), c.cols.rank));
    if (x) x->deleteColumn("verif_scratch");
    ctx.label("db-history:column-deleted-before");
  }
  else
    x.reset(Db::createFromSamples(c.cols.nech, ELoadBy::COLUMN, toVD(c.cols.vals), toVS(c.cols.names), VectorString(), c.cols.rank));
  if (!x) { ctx.label("build-refused"); return; }
  applyLocators(x.get(), c.cols, c.cols.rank ? 1 : 0);
  // a Db without any column (samples only) has its own class key
  const std::string cls = x->getColumnNumber() == 0 ? "DbNoColumn" : "Db";
  if (x->getColumnNumber() == 0) ctx.label("empty-db");
  bool ok = roundTrip<Db>(cls, "Db", "nf_Db", *x, []() { return new Db(); },
                          [](const std::string& p) { return Db::createFromNF(p, false); },
                          [cls](const Db& a, const Db& b, Ctx& cx) { return cmpDbPart(cls, a, b, cx); }, c.fo, ctx);
  if (!ok) return;
  ctx.nontrivial(colsNonTrivial(c.cols));
  Hash h;
  h.add(c.cols.nech).add(c.cols.ncol()).add(c.fo.mode);
  for (int t : c.cols.locType) h.add(t);
  for (double v : c.cols.vals) h.addq(v);
  ctx.sig = h.h;
}
VERIF_SUB(db, DbCase, genDb, runDb);

// ---------------------------------------------------------------- sub: dbgrid --------------
struct GridGeom
{
  std::vector<int> nx;
  std::vector<double> dx, x0, angles;
  template<class A> void io(A& a) { a("nx", nx)("dx", dx)("x0", x0)("angles", angles); }
  int ndim() const { return (int)nx.size(); }
  int ntot() const { int n = 1; for (int v : nx) n *= v; return n; }
  bool rotated() const { for (double a : angles) if (a != 0) return true; return false; }
};
static GridGeom genGeom(int ndimMin, int ndimMax, int nxMin, int nxMax)
{
  GridGeom g;
  int ndim = G::i(ndimMin, ndimMax);
  bool rot = ndim >= 2 && G::pct(60);
  for (int i = 0; i < ndim; i++)
  {
    g.nx.push_back(G::sz(nxMin, nxMax));
    g.dx.push_back(genPos(1e-6, 1e6));
    double o = genVal(0);
    if (std::fabs(o) > 1e12 || (o != 0 && std::fabs(o) < 1e-12)) o = G::r(-1000, 1000, 8);
    g.x0.push_back(o);
    g.angles.push_back((rot && (ndim == 3 || i == 0)) ? genAngle() : 0.);
  }
  return g;
}
static bool cmpGridPart(const std::string& cls, const DbGrid& x, const DbGrid& y, Ctx& ctx)
{
  CHECK_EQ_INT(cls, "grid-ndim", x.getNDim(), y.getNDim());
  int ndim = x.getNDim();
  for (int i = 0; i < ndim; i++)
  {
    CHECK_EQ_INT(cls, "nx", x.getNX(i), y.getNX(i));
    CHECK_EQ_DBL(cls, "x0", x.getX0(i), y.getX0(i));
    CHECK_EQ_DBL(cls, "dx", x.getDX(i), y.getDX(i));
    CHECK_EQ_DBL(cls, "angle", x.getAngle(i), y.getAngle(i));
  }
  CHECK_EQ_INT(cls, "rotated", x.isGridRotated(), y.isGridRotated());
  // behaviour: rotation matrix and coordinates of the nodes computed from the geometry
  VectorDouble rx = x.getRotMat(), ry = y.getRotMat();
  if (rx.size() != ry.size()) { ctx.fail(cls + ":query:rotmat", "rotation matrices of different sizes"); return false; }
  for (size_t k = 0; k < rx.size(); k++)
    if (std::fabs(rx[k] - ry[k]) > 1e-13)
    {
      ctx.fail(cls + ":query:rotmat", fmt("rotation matrix element %d: %.17g before, %.17g after reload", (int)k, rx[k], ry[k]));
      return false;
    }
  int n = x.getSampleNumber();
  for (int ie = 0; ie < n; ie += std::max(1, n / 7))
  {
    VectorDouble cx = x.getGrid().getCoordinatesByRank(ie);
    VectorDouble cy = y.getGrid().getCoordinatesByRank(ie);
    for (int i = 0; i < ndim; i++)
    {
      double scale = std::fabs(x.getX0(i));
      for (int j = 0; j < ndim; j++) scale = std::max(scale, std::fabs(x.getDX(j)) * x.getNX(j));
      if (std::fabs(cx[(size_t)i] - cy[(size_t)i]) > 1e-13 * scale)
      {
        ctx.fail(cls + ":query:node-coordinate", fmt("node %d axis %d: %.17g before, %.17g after reload", ie, i, cx[(size_t)i], cy[(size_t)i]));
        return false;
      }
    }
  }
  return true;
}
struct DbGridCase
{
  GridGeom g;
  ColumnsCase cols;
  bool coords = true;
  FOpt fo;
  template<class A> void io(A& a) { a("g", g)("cols", cols)("coords", coords)("fo", fo); }
};
static DbGridCase genDbGrid()
{
  DbGridCase c;
  c.g = genGeom(1, 3, 1, 4);
  genColumns(c.cols, c.g.ntot(), 0, 4, G::pick<int>({0, 20, 50}));
  c.coords = G::pct(60);
  c.fo = genFOpt();
  return c;
}
static void gridSig(Hash& h, const GridGeom& g)
{
  for (int v : g.nx) h.add(v);
  for (double v : g.dx) h.addq(v);
  for (double v : g.x0) h.addq(v);
  for (double v : g.angles) h.addq(v);
}
static void runDbGrid(const DbGridCase& c, Ctx& ctx)
{
  resetGlobals(c.g.ndim());
  ctx.label("class:DbGrid");
  ctx.label(fmt("ndim:%d", c.g.ndim()));
  ctx.label(c.g.rotated() ? "rotated:yes" : "rotated:no");
  ctx.at("DbGrid:build");
  std::unique_ptr<DbGrid> x(DbGrid::create(toVI(c.g.nx), toVD(c.g.dx), toVD(c.g.x0), toVD(c.g.angles), ELoadBy::COLUMN, toVD(c.cols.vals),
                                           toVS(c.cols.names), VectorString(), c.cols.rank, c.coords));
  if (!x || x->getSampleNumber() != c.g.ntot()) { ctx.label("build-refused"); return; }
  int first = (c.cols.rank ? 1 : 0) + (c.coords ? c.g.ndim() : 0);
  if (x->getColumnNumber() != first + c.cols.ncol()) { ctx.label("build-refused"); return; }
  applyLocators(x.get(), c.cols, first);
  const std::string cls = x->getColumnNumber() == 0 ? "DbGridNoColumn" : "DbGrid";
  if (x->getColumnNumber() == 0) ctx.label("empty-db");
  bool ok = roundTrip<DbGrid>(cls, "DbGrid", "nf_DbGrid", *x, []() { return new DbGrid(); },
                              [](const std::string& p) { return DbGrid::createFromNF(p, false); },
                              [cls](const DbGrid& a, const DbGrid& b, Ctx& cx) { return cmpGridPart(cls, a, b, cx) && cmpDbPart(cls, a, b, cx); },
                              c.fo, ctx);
  if (!ok) return;
  ctx.nontrivial(c.g.ndim() >= 2 && (c.g.rotated() || colsNonTrivial(c.cols)));
  Hash h;
  gridSig(h, c.g);
  h.add(c.cols.ncol()).add(c.fo.mode);
  for (int t : c.cols.locType) h.add(t);
  ctx.sig = h.h;
}
VERIF_SUB(dbgrid, DbGridCase, genDbGrid, runDbGrid);

// ---------------------------------------------------------------- sub: dbline --------------
struct DbLineCase
{
  int ndim = 2;
  std::vector<int> lineIds;   // per sample
  std::vector<int> ranks;     // per sample (order within the line)
  std::vector<double> coords; // by column, ndim * nech
  ColumnsCase cols;
  bool byId = true;
  FOpt fo;
  template<class A> void io(A& a) { a("ndim", ndim)("lineIds", lineIds)("ranks", ranks)("coords", coords)("cols", cols)("byId", byId)("fo", fo); }
};
static DbLineCase genDbLine()
{
  DbLineCase c;
  c.ndim = G::i(1, 3);
  int nl = G::sz(1, 4);
  std::vector<int> counts;
  int nech = 0;
  for (int l = 0; l < nl; l++) { counts.push_back(G::sz(1, 4)); nech += counts.back(); }
  c.byId = G::pct(60);
  // sequential layout, optionally shuffled (by-id construction accepts any order)
  std::vector<int> ids, rk;
  for (int l = 0; l < nl; l++)
    for (int k = 0; k < counts[(size_t)l]; k++) { ids.push_back(l); rk.push_back(k); }
  std::vector<int> p;
  if (c.byId) p = G::perm(nech);
  else for (int i = 0; i < nech; i++) p.push_back(i);
  for (int i = 0; i < nech; i++) { c.lineIds.push_back(ids[(size_t)p[(size_t)i]]); c.ranks.push_back(rk[(size_t)p[(size_t)i]]); }
  for (int i = 0; i < c.ndim * nech; i++)
  {
    double v = genVal(0);
    if (std::fabs(v) > 1e12) v = G::r(-1000, 1000, 8);
    c.coords.push_back(v);
  }
  genColumns(c.cols, nech, 0, 3, G::pick<int>({0, 30}));
  for (auto& t : c.cols.locType) if (t == 0) t = 1; // coordinates are given separately
  c.fo = genFOpt();
  return c;
}
static bool cmpLine(const DbLine& x, const DbLine& y, Ctx& ctx)
{
  const std::string cls = "DbLine";
  CHECK_EQ_INT(cls, "nlines", x.getLineNumber(), y.getLineNumber());
  CHECK_EQ_INT(cls, "ntotal", x.getNTotal(), y.getNTotal());
  for (int l = 0; l < x.getLineNumber(); l++)
  {
    CHECK_EQ_INT(cls, "line-count", x.getLineSampleCount(l), y.getLineSampleCount(l));
    for (int d = 0; d < x.getNDim(); d++)
      if (!sameVecD(cls, "line-coordinates", x.getCoordinates(l, d), y.getCoordinates(l, d), ctx)) return false;
    CHECK_QRY_DBL(cls, "line-length", x.getLineLength(l), y.getLineLength(l), 1e-12);
  }
  for (int ie = 0; ie < x.getSampleNumber(); ie++) CHECK_EQ_INT(cls, "line-of-sample", x.getLineBySample(ie), y.getLineBySample(ie));
  CHECK_EQ_INT(cls, "consistent", x.isConsistent(), y.isConsistent());
  return cmpDbPart(cls, x, y, ctx);
}
static void runDbLine(const DbLineCase& c, Ctx& ctx)
{
  resetGlobals(c.ndim);
  ctx.label("class:DbLine");
  int nech = (int)c.lineIds.size();
  VectorDouble tab = toVD(c.coords);
  for (double v : c.cols.vals) tab.push_back(v);
  VectorString names, locs;
  for (int d = 0; d < c.ndim; d++) { names.push_back(fmt("crd%d", d + 1)); locs.push_back(fmt("x%d", d + 1)); }
  for (auto& n : c.cols.names) { names.push_back(n); locs.push_back("NA"); }
  ctx.at("DbLine:build");
  std::unique_ptr<DbLine> x;
  if (c.byId)
    x.reset(DbLine::createFromSamplesById(nech, ELoadBy::COLUMN, tab, toVI(c.lineIds), toVI(c.ranks), names, locs, c.cols.rank));
  else
  {
    VectorInt counts;
    for (int i = 0; i < nech; i++)
    {
      if (c.lineIds[(size_t)i] >= (int)counts.size()) counts.resize((size_t)c.lineIds[(size_t)i] + 1, 0);
      counts[(size_t)c.lineIds[(size_t)i]]++;
    }
    x.reset(DbLine::createFromSamples(nech, ELoadBy::COLUMN, tab, counts, names, locs, c.cols.rank));
  }
  if (!x || !x->isConsistent()) { ctx.label("build-refused"); return; }
  applyLocators(x.get(), c.cols, (c.cols.rank ? 1 : 0) + c.ndim);
  bool ok = roundTrip<DbLine>("DbLine", "DbLine", "nf_DbLine", *x, []() { return new DbLine(); },
                              [](const std::string& p) { return DbLine::createFromNF(p, false); }, cmpLine, c.fo, ctx);
  if (!ok) return;
  ctx.nontrivial(x->getLineNumber() >= 2 && nech >= 3);
  Hash h;
  h.add(c.ndim).add(nech).add(c.byId ? 1 : 0).add(c.cols.ncol()).add(c.fo.mode);
  for (int v : c.lineIds) h.add(v);
  for (int v : c.ranks) h.add(v);
  ctx.sig = h.h;
}
VERIF_SUB(dbline, DbLineCase, genDbLine, runDbLine);

// ---------------------------------------------------------------- sub: dbgraph -------------
struct DbGraphCase
{
  int ndim = 2;
  int nech = 2;
  std::vector<int> from, to;
  std::vector<double> val;
  std::vector<double> coords;
  ColumnsCase cols;
  FOpt fo;
  template<class A> void io(A& a) { a("ndim", ndim)("nech", nech)("from", from)("to", to)("val", val)("coords", coords)("cols", cols)("fo", fo); }
};
static DbGraphCase genDbGraph()
{
  DbGraphCase c;
  c.ndim = G::i(1, 3);
  c.nech = G::sz(2, 7);
  int narcs = G::sz(0, 8);
  std::set<std::pair<int, int>> seen;
  for (int k = 0; k < narcs; k++)
  {
    int a = G::i(0, c.nech - 2), b = G::i(a + 1, c.nech - 1); // oriented downwards: acyclic
    if (seen.count({a, b})) continue;
    seen.insert({a, b});
    c.from.push_back(a);
    c.to.push_back(b);
    c.val.push_back(genPos(1e-3, 1e6));
  }
  for (int i = 0; i < c.ndim * c.nech; i++) c.coords.push_back(G::r(-1000, 1000, 8));
  genColumns(c.cols, c.nech, 0, 2, 20);
  for (auto& t : c.cols.locType) if (t == 0) t = 1;
  c.fo = genFOpt();
  return c;
}
static bool cmpGraph(const DbGraphO& x, const DbGraphO& y, Ctx& ctx)
{
  const std::string cls = "DbGraphO";
  CHECK_EQ_INT(cls, "narcs", x.getArcNumber(), y.getArcNumber());
  CHECK_EQ_INT(cls, "nnodes", x.getNodeNumber(), y.getNodeNumber());
  CHECK_EQ_INT(cls, "arcs-nrows", x.getMatArcs().getNRows(), y.getMatArcs().getNRows());
  CHECK_EQ_INT(cls, "arcs-ncols", x.getMatArcs().getNCols(), y.getMatArcs().getNCols());
  int n = x.getNodeNumber();
  for (int i = 0; i < std::min(n, x.getMatArcs().getNRows()); i++)
    for (int j = 0; j < std::min(n, x.getMatArcs().getNCols()); j++)
      CHECK_EQ_DBL(cls, "arc-value", x.getMatArcs().getValue(i, j), y.getMatArcs().getValue(i, j));
  for (int a = 0; a < x.getArcNumber(); a++) CHECK_EQ_DBL(cls, "arc-value-by-rank", x.getArcValue(a), y.getArcValue(a));
  // behaviour
  if (!sameVecI(cls, "ends-down", x.getEndsDown(), y.getEndsDown(), ctx, ":query:")) return false;
  if (!sameVecI(cls, "ends-up", x.getEndsUp(), y.getEndsUp(), ctx, ":query:")) return false;
  if (!sameVecI(cls, "orphans", x.getOrphans(), y.getOrphans(), ctx, ":query:")) return false;
  for (int node = 0; node < n; node++)
  {
    if (!sameVecI(cls, "next-down", x.getIndicesNextDown(node), y.getIndicesNextDown(node), ctx, ":query:")) return false;
    if (!sameVecD(cls, "cumul-down", x.getCumulDown(node), y.getCumulDown(node), ctx, ":query:", 1e-12)) return false;
  }
  CHECK_EQ_INT(cls, "consistent", x.isConsistent(), y.isConsistent());
  return cmpDbPart(cls, x, y, ctx);
}
static void runDbGraph(const DbGraphCase& c, Ctx& ctx)
{
  resetGlobals(c.ndim);
  ctx.label("class:DbGraphO");
  VectorDouble tab = toVD(c.coords);
  for (double v : c.cols.vals) tab.push_back(v);
  VectorString names, locs;
  for (int d = 0; d < c.ndim; d++) { names.push_back(fmt("crd%d", d + 1)); locs.push_back(fmt("x%d", d + 1)); }
  for (auto& n : c.cols.names) { names.push_back(n); locs.push_back("NA"); }
  NF_Triplet T;
  for (size_t k = 0; k < c.from.size(); k++) T.add(c.from[k], c.to[k], c.val[k]);
  ctx.at("DbGraphO:build");
  std::unique_ptr<DbGraphO> x(DbGraphO::createFromSamples(c.nech, ELoadBy::COLUMN, tab, T, names, locs, c.cols.rank));
  if (!x) { ctx.label("build-refused"); return; }
  applyLocators(x.get(), c.cols, (c.cols.rank ? 1 : 0) + c.ndim);
  bool ok = roundTrip<DbGraphO>("DbGraphO", "DbGraphO", "nf_DbGraphO", *x, []() { return new DbGraphO(); },
                                [](const std::string& p) { return DbGraphO::createFromNF(p, false); }, cmpGraph, c.fo, ctx);
  if (!ok) return;
  ctx.nontrivial(c.from.size() >= 2);
  Hash h;
  h.add(c.ndim).add(c.nech).add(c.fo.mode);
  for (size_t k = 0; k < c.from.size(); k++) h.add(c.from[k]).add(c.to[k]).addq(c.val[k]);
  ctx.sig = h.h;
}
VERIF_SUB(dbgraph, DbGraphCase, genDbGraph, runDbGraph);

// ====================================================================== meshes ===========
struct MeshCase
{
  int kind = 0; // 0 MeshETurbo, 1 MeshEStandard, 2 MeshSpherical
  GridGeom g;   // turbo
  bool polarized = false;
  int mode = 1;
  std::vector<int> sel; // turbo: empty or one flag per node
  int ndim = 2;         // standard / spherical
  std::vector<double> apices; // by column (napices * ndim)
  std::vector<int> meshes;    // by column (nmeshes * (ndim+1))
  FOpt fo;
  template<class A> void io(A& a)
  {
    a("kind", kind)("g", g)("polarized", polarized)("mode", mode)("sel", sel)("ndim", ndim)("apices", apices)("meshes", meshes)("fo", fo);
  }
  int ncorner() const { return ndim + 1; }
  int napices() const { return ndim > 0 ? (int)apices.size() / ndim : 0; }
  int nmeshes() const { return (int)meshes.size() / ncorner(); }
};
static void genTurboPart(MeshCase& c, bool allowMask)
{
  c.g = genGeom(1, 3, 2, 4);
  c.polarized = G::b();
  c.mode = G::i(0, 1);
  if (allowMask && G::pct(50))
  {
    int n = c.g.ntot();
    for (int i = 0; i < n; i++) c.sel.push_back(G::pct(75) ? 1 : 0);
    // keep at least one complete cell: all nodes of the first cell active
    int nx0 = c.g.nx[0], nx1 = c.g.ndim() > 1 ? c.g.nx[1] : 1;
    for (int k = 0; k < (1 << c.g.ndim()); k++)
    {
      int i0 = k & 1, i1 = (k >> 1) & 1, i2 = (k >> 2) & 1;
      c.sel[(size_t)(i0 + nx0 * (i1 + nx1 * i2))] = 1;
    }
  }
}
static void genStdPart(MeshCase& c, bool spherical)
{
  c.ndim = spherical ? 2 : G::i(1, 3);
  int nap = G::sz(c.ndim + 1, 9);
  int nm = G::sz(1, 8);
  std::vector<std::vector<double>> col((size_t)c.ndim);
  for (int d = 0; d < c.ndim; d++)
    for (int i = 0; i < nap; i++)
    {
      double v;
      if (spherical) v = (d == 0) ? G::u(-180., 180.) : G::u(-89., 89.);
      else
      {
        v = genVal(0);
        if (std::fabs(v) > 1e9) v = G::r(-1000, 1000, 8);
      }
      c.apices.push_back(v);
    }
  // meshes by column: corner r of mesh m at [r * nm + m]; distinct apices within a mesh; apex 0 is used
  std::vector<std::vector<int>> M;
  for (int m = 0; m < nm; m++)
  {
    std::vector<int> p = G::perm(nap);
    p.resize((size_t)c.ndim + 1);
    if (m == 0 && std::find(p.begin(), p.end(), 0) == p.end()) p[0] = 0; // numbering starts at 0 (1 means "old style" to the library)
    M.push_back(p);
  }
  for (int r = 0; r <= c.ndim; r++)
    for (int m = 0; m < nm; m++) c.meshes.push_back(M[(size_t)m][(size_t)r]);
}
static MeshCase genMesh()
{
  MeshCase c;
  c.kind = G::i(0, 2);
  if (c.kind == 0) genTurboPart(c, true);
  else genStdPart(c, c.kind == 2);
  c.fo = genFOpt();
  return c;
}
static VectorDouble selVD(const std::vector<int>& sel)
{
  VectorDouble v;
  for (int s : sel) v.push_back((double)s);
  return v;
}
// getters common to all meshes
static bool cmpAMesh(const std::string& cls, const AMesh& x, const AMesh& y, Ctx& ctx, bool withExtrema = true)
{
  CHECK_EQ_INT(cls, "ndim", x.getNDim(), y.getNDim());
  CHECK_EQ_INT(cls, "napices", x.getNApices(), y.getNApices());
  CHECK_EQ_INT(cls, "nmeshes", x.getNMeshes(), y.getNMeshes());
  CHECK_EQ_INT(cls, "napexpermesh", x.getNApexPerMesh(), y.getNApexPerMesh());
  int ndim = x.getNDim(), nc = x.getNApexPerMesh();
  for (int im = 0; im < x.getNMeshes(); im++)
    for (int r = 0; r < nc; r++) CHECK_EQ_INT(cls, "apex", x.getApex(im, r), y.getApex(im, r));
  // turbo apices are computed from the grid geometry (origin + rotated offsets): the 1e-15 of the format
  // applies to the largest coordinate, not to each (possibly cancelling) component
  double scale = 0;
  for (int ia = 0; ia < x.getNApices(); ia++)
    for (int d = 0; d < ndim; d++) scale = std::max(scale, std::fabs(x.getApexCoor(ia, d)));
  for (int ia = 0; ia < x.getNApices(); ia++)
    for (int d = 0; d < ndim; d++)
    {
      double a = x.getApexCoor(ia, d), b = y.getApexCoor(ia, d);
      if (!eqv(a, b) && std::fabs(a - b) > 1e-13 * std::max(scale, 1e-300))
      {
        ctx.fail(cls + ":query:apex-coordinate", fmt("apex %d axis %d: %.17g before, %.17g after reload", ia, d, a, b));
        return false;
      }
    }
  for (int im = 0; im < x.getNMeshes(); im++)
  {
    double a = x.getMeshSize(im), b = y.getMeshSize(im);
    if (!eqv(a, b, 1e-9) && std::fabs(a - b) > 1e-9 * std::fabs(a))
    {
      // the size is a determinant of coordinate differences: cancellation amplifies the 1e-15 of the format
      ctx.label("mesh-size-ill-conditioned");
    }
  }
  // bounding box (stored for the turbo meshing, derived from the apices otherwise)
  // (an object built by MeshSpherical's constructor has no bounding box at all: asking for it is undefined)
  for (int d = 0; withExtrema && d < ndim; d++)
  {
    VectorDouble ex = x.getExtrema(d), ey = y.getExtrema(d);
    if (ex.size() != ey.size()) { ctx.fail(cls + ":query:extrema", "bounding box of different sizes"); return false; }
    for (size_t k = 0; k < ex.size(); k++)
      if (!eqv(ex[k], ey[k]) && std::fabs(ex[k] - ey[k]) > 1e-13 * scale)
      {
        ctx.fail(cls + ":query:extrema", fmt("axis %d bound %d: %.17g before, %.17g after reload", d, (int)k, ex[k], ey[k]));
        return false;
      }
  }
  return true;
}
static bool cmpTurbo(const std::string& cls, const MeshETurbo& x, const MeshETurbo& y, Ctx& ctx)
{
  const Grid &gx = x.getGrid(), &gy = y.getGrid();
  CHECK_EQ_INT(cls, "grid-ndim", gx.getNDim(), gy.getNDim());
  for (int d = 0; d < gx.getNDim(); d++)
  {
    CHECK_EQ_INT(cls, "nx", gx.getNX(d), gy.getNX(d));
    CHECK_EQ_DBL(cls, "dx", gx.getDX(d), gy.getDX(d));
    CHECK_EQ_DBL(cls, "x0", gx.getX0(d), gy.getX0(d));
  }
  VectorDouble rx = gx.getRotMat(), ry = gy.getRotMat();
  if (rx.size() != ry.size()) { ctx.fail(cls + ":get:rotmat", "rotation matrices of different sizes"); return false; }
  for (size_t k = 0; k < rx.size(); k++)
    if (std::fabs(rx[k] - ry[k]) > 2e-15)
    {
      ctx.fail(cls + ":get:rotmat", fmt("rotation matrix element %d: %.17g before, %.17g after reload", (int)k, rx[k], ry[k]));
      return false;
    }
  CHECK_EQ_INT(cls, "mode", x.getMeshIndirect().getMode(), y.getMeshIndirect().getMode());
  if (!sameVecI(cls, "mesh-mask", x.getMeshIndirect().getRelRanks(), y.getMeshIndirect().getRelRanks(), ctx)) return false;
  if (!sameVecI(cls, "grid-mask", x.getGridIndirect().getRelRanks(), y.getGridIndirect().getRelRanks(), ctx)) return false;
  return cmpAMesh(cls, x, y, ctx);
}
static bool buildTurbo(MeshETurbo& m, const MeshCase& c)
{
  return m.initFromGridByAngles(toVI(c.g.nx), toVD(c.g.dx), toVD(c.g.x0), toVD(c.g.angles), selVD(c.sel), c.polarized, false) == 0;
}
static void runMesh(const MeshCase& c, Ctx& ctx)
{
  bool ok = false;
  Hash h;
  h.add(c.kind).add(c.fo.mode);
  if (c.kind == 0)
  {
    resetGlobals(c.g.ndim());
    ctx.label("class:MeshETurbo");
    ctx.label(c.sel.empty() ? "mask:no" : "mask:yes");
    ctx.label(c.g.rotated() ? "rotated:yes" : "rotated:no");
    ctx.at("MeshETurbo:build");
    MeshETurbo x(c.mode);
    if (!buildTurbo(x, c) || x.getNMeshes() <= 0) { ctx.label("build-refused"); return; }
    ok = roundTrip<MeshETurbo>("MeshETurbo", "MeshETurbo", "nf_MeshETurbo", x, []() { return new MeshETurbo(); },
                               [](const std::string& p) { return MeshETurbo::createFromNF(p, false); },
                               [](const MeshETurbo& a, const MeshETurbo& b, Ctx& cx) { return cmpTurbo("MeshETurbo", a, b, cx); }, c.fo, ctx);
    ctx.nontrivial(ok && c.g.ndim() >= 2 && (c.g.rotated() || !c.sel.empty()));
    gridSig(h, c.g);
    h.add(c.polarized ? 1 : 0).add(c.mode);
    for (int v : c.sel) h.add(v);
  }
  else
  {
    resetGlobals(c.ndim);
    for (double v : c.apices) h.addq(v);
    for (int v : c.meshes) h.add(v);
    if (c.kind == 1)
    {
      ctx.label("class:MeshEStandard");
      ctx.label(fmt("ndim:%d", c.ndim));
      ctx.at("MeshEStandard:build");
      MeshEStandard x;
      if (x.reset(c.ndim, c.ncorner(), toVD(c.apices), toVI(c.meshes), true, false) != 0) { ctx.label("build-refused"); return; }
      ok = roundTrip<MeshEStandard>("MeshEStandard", "MeshEStandard", "nf_MeshEStandard", x, []() { return new MeshEStandard(); },
                                    [](const std::string& p) { return MeshEStandard::createFromNF(p, false); },
                                    [](const MeshEStandard& a, const MeshEStandard& b, Ctx& cx) { return cmpAMesh("MeshEStandard", a, b, cx); }, c.fo, ctx);
    }
    else
    {
      ctx.label("class:MeshSpherical");
      ctx.at("MeshSpherical:build");
      MatrixRectangular ap(c.napices(), 2);
      ap.setValues(toVD(c.apices), true);
      MatrixInt me(c.nmeshes(), 3);
      for (int r = 0; r < 3; r++)
        for (int m = 0; m < c.nmeshes(); m++) me.setValue(m, r, c.meshes[(size_t)(r * c.nmeshes() + m)]);
      defineDefaultSpace(ESpaceType::SN, 2);
      std::unique_ptr<MeshSpherical> x(MeshSpherical::create(ap, me));
      if (!x) { ctx.label("build-refused"); defineDefaultSpace(ESpaceType::RN, 2); return; }
      ok = roundTrip<MeshSpherical>("MeshSpherical", "MeshSpherical", "nf_MeshSpherical", *x, []() { return new MeshSpherical(); },
                                    [](const std::string& p) { return MeshSpherical::createFromNF(p, false); },
                                    [](const MeshSpherical& a, const MeshSpherical& b, Ctx& cx) { return cmpAMesh("MeshSpherical", a, b, cx, false); }, c.fo, ctx);
      defineDefaultSpace(ESpaceType::RN, 2);
    }
    ctx.nontrivial(ok && c.nmeshes() >= 2);
  }
  ctx.sig = h.h;
}
VERIF_SUB(mesh, MeshCase, genMesh, runMesh);

// ---------------------------------------------------------------- sub: dbmesh --------------
struct DbMeshCase
{
  MeshCase m; // kind 0: DbMeshTurbo, 1: DbMeshStandard
  ColumnsCase cols;
  template<class A> void io(A& a) { a("m", m)("cols", cols); }
};
static DbMeshCase genDbMesh()
{
  DbMeshCase c;
  c.m.kind = G::i(0, 1);
  if (c.m.kind == 0) genTurboPart(c.m, false);
  else genStdPart(c.m, false);
  int nech = c.m.kind == 0 ? c.m.g.ntot() : c.m.napices();
  genColumns(c.cols, nech, c.m.kind == 0 ? 1 : 0, 3, 20);
  c.cols.rank = false;
  for (auto& t : c.cols.locType) if (t == 0) t = 1;
  c.m.fo = genFOpt();
  return c;
}
// DbMeshStandard's default constructor (used by createFromNF) divides by zero: observed once in a child process,
// because it kills the process (SIGFPE in the plain build, UBSan abort here)
static bool dbMeshStandardCtorDies()
{
  static int cached = -1;
  if (cached < 0)
  {
    fflush(nullptr);
    pid_t p = fork();
    if (p == 0)
    {
      stats().outPrefix.clear();
      int nul = open("/dev/null", O_WRONLY);
      if (nul >= 0) { dup2(nul, 2); dup2(nul, 1); }
      DbMeshStandard* d = new DbMeshStandard();
      _exit(d != nullptr ? 0 : 1);
    }
    int st = 0;
    if (p < 0 || waitpid(p, &st, 0) < 0) cached = 0;
    else cached = (WIFEXITED(st) && WEXITSTATUS(st) == 0) ? 0 : 1;
  }
  return cached == 1;
}
static void runDbMesh(const DbMeshCase& c, Ctx& ctx)
{
  Hash h;
  h.add(c.m.kind).add(c.m.fo.mode).add(c.cols.ncol());
  bool ok = false;
  if (c.m.kind == 0)
  {
    resetGlobals(c.m.g.ndim());
    ctx.label("class:DbMeshTurbo");
    ctx.at("DbMeshTurbo:build");
    std::unique_ptr<DbMeshTurbo> x(DbMeshTurbo::create(toVI(c.m.g.nx), toVD(c.m.g.dx), toVD(c.m.g.x0), toVD(c.m.g.angles), ELoadBy::COLUMN,
                                                        toVD(c.cols.vals), toVS(c.cols.names), VectorString(), c.m.polarized, false));
    if (!x || x->getSampleNumber() != c.m.g.ntot()) { ctx.label("build-refused"); return; }
    int first = x->getColumnNumber() - c.cols.ncol();
    if (first < 0) { ctx.label("build-refused"); return; }
    applyLocators(x.get(), c.cols, first);
    auto cmp = [](const DbMeshTurbo& a, const DbMeshTurbo& b, Ctx& cx) {
      const std::string cls = "DbMeshTurbo";
      auto& ctx = cx;
      CHECK_EQ_INT(cls, "napices", a.getNApices(), b.getNApices());
      CHECK_EQ_INT(cls, "nmeshes", a.getNMeshes(), b.getNMeshes());
      int nd = a.getNDim();
      for (int im = 0; im < a.getNMeshes(); im++)
        for (int r = 0; r <= nd; r++) CHECK_EQ_INT(cls, "apex", a.getApex(im, r), b.getApex(im, r));
      double scale = 0;
      for (int ia = 0; ia < a.getNApices(); ia++)
        for (int d = 0; d < nd; d++) scale = std::max(scale, std::fabs(a.getApexCoor(ia, d)));
      for (int ia = 0; ia < a.getNApices(); ia++)
        for (int d = 0; d < nd; d++)
        {
          double u = a.getApexCoor(ia, d), v = b.getApexCoor(ia, d);
          if (!eqv(u, v) && std::fabs(u - v) > 1e-13 * scale) { cx.fail(cls + ":query:apex-coordinate", fmt("apex %d axis %d: %.17g before, %.17g after reload", ia, d, u, v)); return false; }
        }
      CHECK_EQ_INT(cls, "consistent", a.isConsistent(), b.isConsistent());
      return cmpGridPart(cls, a, b, cx) && cmpDbPart(cls, a, b, cx);
    };
    ok = roundTrip<DbMeshTurbo>("DbMeshTurbo", "DbMeshTurbo", "nf_DbMeshTurbo", *x, []() { return new DbMeshTurbo(); },
                                [](const std::string& p) { return DbMeshTurbo::createFromNF(p, false); }, cmp, c.m.fo, ctx);
    gridSig(h, c.m.g);
    ctx.nontrivial(ok && c.m.g.ndim() >= 2);
  }
  else
  {
    resetGlobals(c.m.ndim);
    ctx.label("class:DbMeshStandard");
    ctx.at("DbMeshStandard:build");
    // the table given to the constructor replaces the columns: it holds the coordinates too
    VectorDouble tab = toVD(c.m.apices);
    for (double v : c.cols.vals) tab.push_back(v);
    VectorString names, locs;
    for (int d = 0; d < c.m.ndim; d++) { names.push_back(fmt("crd%d", d + 1)); locs.push_back(fmt("x%d", d + 1)); }
    for (auto& n : c.cols.names) { names.push_back(n); locs.push_back("NA"); }
    std::unique_ptr<DbMeshStandard> x(DbMeshStandard::create(c.m.ndim, c.m.ncorner(), toVD(c.m.apices), toVI(c.m.meshes), ELoadBy::COLUMN, tab, names, locs, false));
    if (!x || x->getSampleNumber() != c.m.napices()) { ctx.label("build-refused"); return; }
    int first = x->getColumnNumber() - c.cols.ncol();
    if (first < 0) { ctx.label("build-refused"); return; }
    applyLocators(x.get(), c.cols, first);
    if (dbMeshStandardCtorDies())
    {
      std::string s1;
      if (ser(*x, s1)) dumpSeed("nf_DbMeshStandard", "DbMeshStandard\n" + s1);
      ctx.fail("DbMeshStandard:default-ctor-crash", "new DbMeshStandard() (what createFromNF starts with) kills the process: MeshEStandard::reset divides by ndim = 0");
      return;
    }
    auto cmp = [](const DbMeshStandard& a, const DbMeshStandard& b, Ctx& cx) {
      const std::string cls = "DbMeshStandard";
      auto& ctx = cx;
      CHECK_EQ_INT(cls, "napices", a.getNApices(), b.getNApices());
      CHECK_EQ_INT(cls, "nmeshes", a.getNMeshes(), b.getNMeshes());
      int nd = a.getNDim();
      for (int im = 0; im < a.getNMeshes(); im++)
        for (int r = 0; r <= nd; r++) CHECK_EQ_INT(cls, "apex", a.getApex(im, r), b.getApex(im, r));
      for (int ia = 0; ia < a.getNApices(); ia++)
        for (int d = 0; d < nd; d++) CHECK_EQ_DBL(cls, "apex-coordinate", a.getApexCoor(ia, d), b.getApexCoor(ia, d));
      CHECK_EQ_INT(cls, "consistent", a.isConsistent(), b.isConsistent());
      return cmpDbPart(cls, a, b, cx);
    };
    ok = roundTrip<DbMeshStandard>("DbMeshStandard", "DbMeshStandard", "nf_DbMeshStandard", *x, []() { return new DbMeshStandard(); },
                                   [](const std::string& p) { return DbMeshStandard::createFromNF(p, false); }, cmp, c.m.fo, ctx);
    for (double v : c.m.apices) h.addq(v);
    for (int v : c.m.meshes) h.add(v);
    ctx.nontrivial(ok && c.m.nmeshes() >= 2);
  }
  ctx.sig = h.h;
}
VERIF_SUB(dbmesh, DbMeshCase, genDbMesh, runDbMesh);

// ====================================================================== Model ============
struct Adm
{
  int ecov = 0;
  std::string key;
  bool hasParam = false;
  double parMax = 0;
  int hasRange = 1;
};
// structures which the library accepts in R^ndim: asked from the library itself
static const std::vector<Adm>& admitted(int ndim)
{
  static std::vector<Adm> cache[4];
  static bool done[4] = {false, false, false, false};
  if (!done[ndim])
  {
    done[ndim] = true;
    for (int v = 0; v <= 60; v++)
    {
      if (!ECov::existsValue(v)) continue;
      const ECov& e = ECov::fromValue(v);
      if (e == ECov::FUNCTION) continue; // carries a user function: no representation in a file
      ACovFunc* f = nullptr;
      try
      {
        CovContext ctxt(1, ndim);
        f = CovFactory::createCovFunc(e, ctxt);
      }
      catch (const LibExit&) { f = nullptr; }
      catch (const std::exception&) { f = nullptr; }
      if (f == nullptr) continue;
      bool ok = f->hasCovOnRn() && f->getCompatibleSpaceR() && !((int)f->getMaxNDim() > 0 && ndim > (int)f->getMaxNDim());
      if (ok)
      {
        Adm a;
        a.ecov = v;
        a.key = std::string(e.getKey());
        a.hasParam = f->hasParam();
        a.parMax = f->getParMax();
        a.hasRange = f->hasRange();
        cache[ndim].push_back(a);
      }
      delete f;
    }
  }
  return cache[ndim];
}
struct StructCase
{
  int type = 1;
  double pu = 1;   // position of the third parameter in (0, min(parMax,5)]
  int aniso = 0;   // 0 isotropic, 1 anisotropic, 2 anisotropic + rotation
  double range = 1;
  std::vector<double> ratio; // 3 values in (0,1], one of them 1
  std::vector<double> ang;   // 3
  std::vector<double> A;     // 3x3: sill = A A' + eps I
  double eps = 0;
  template<class Ar> void io(Ar& a) { a("type", type)("pu", pu)("aniso", aniso)("range", range)("ratio", ratio)("ang", ang)("A", A)("eps", eps); }
};
struct ModelCase
{
  int ndim = 2, nvar = 1;
  std::vector<StructCase> st;
  int order = -1; // -1: no drift (means are stored), else IRF order
  int nfex = 0;
  std::vector<double> means;  // nvar
  std::vector<double> covar0; // nvar*nvar (symmetric) or empty
  double field = 1;
  bool setField = false;
  std::vector<double> lags;   // queries: nq * ndim
  FOpt fo;
  template<class Ar> void io(Ar& a)
  {
    a("ndim", ndim)("nvar", nvar)("st", st)("order", order)("nfex", nfex)("means", means)("covar0", covar0)("field", field)("setField", setField)("lags", lags)("fo", fo);
  }
};
static ModelCase genModel()
{
  ModelCase c;
  c.ndim = G::i(1, 3);
  c.nvar = G::i(1, 3);
  const auto& adm = admitted(c.ndim);
  int ns = G::pct(4) ? 0 : G::sz(1, 3);
  // extreme magnitudes for the model as a whole; the ranges of one model stay within 3 decades so that the
  // queries (lags up to the largest range) keep h/a below what the special functions of the library accept
  double base = genPos(1e-3, 1e7);
  for (int k = 0; k < ns; k++)
  {
    StructCase s;
    s.type = adm[(size_t)G::i(0, (int)adm.size() - 1)].ecov;
    if (G::pct(35)) s.type = G::pick<int>({ECov::NUGGET.getValue(), ECov::SPHERICAL.getValue(), ECov::EXPONENTIAL.getValue(), ECov::MATERN.getValue(), ECov::CUBIC.getValue()});
    s.pu = G::u(0.02, 1.);
    s.aniso = (c.ndim == 1) ? 0 : G::i(0, 2);
    s.range = base * genPos(1e-2, 10.);
    int one = G::i(0, 2);
    for (int i = 0; i < 3; i++)
    {
      double r = (i == one) ? 1. : (G::pct(15) ? 1. : (G::b() ? G::u(0.01, 1.) : strtod(fmt("%.15g", 0.01 + 0.99 * genFull01()).c_str(), nullptr)));
      s.ratio.push_back(r);
      s.ang.push_back(genAngle());
    }
    for (int i = 0; i < 9; i++) s.A.push_back(G::pct(20) ? 0. : genVal(0));
    for (auto& v : s.A) if (std::fabs(v) > 1e6 || (v != 0 && std::fabs(v) < 1e-6)) v = G::r(-10, 10, 8);
    s.eps = G::pick<double>({0., 0.5, 1e-3});
    c.st.push_back(s);
  }
  c.order = G::pct(45) ? -1 : G::i(0, 2);
  c.nfex = (c.order >= 0 && G::pct(40)) ? G::i(1, 2) : 0;
  for (int i = 0; i < c.nvar; i++) c.means.push_back(G::pct(30) ? 0. : genVal(0));
  if (G::pct(50))
  {
    c.covar0.assign((size_t)(c.nvar * c.nvar), 0.);
    for (int i = 0; i < c.nvar; i++)
      for (int j = 0; j <= i; j++)
      {
        double v = genVal(0);
        c.covar0[(size_t)(i * c.nvar + j)] = c.covar0[(size_t)(j * c.nvar + i)] = v;
      }
  }
  c.setField = G::pct(50);
  c.field = genPos(1e-3, 1e6);
  int nq = 6;
  for (int q = 0; q < nq; q++)
    for (int d = 0; d < c.ndim; d++) c.lags.push_back(G::b() ? G::u(-1., 1.) : G::u(-0.1, 0.1)); // in units of the largest range
  c.fo = genFOpt();
  return c;
}
static bool buildModel(const ModelCase& c, std::unique_ptr<Model>& m, Ctx& ctx, double& maxRange)
{
  CovContext cctxt(c.nvar, c.ndim);
  m.reset(Model::create(cctxt));
  if (!m) return false;
  if (c.setField) m->setField(c.field);
  maxRange = 0;
  for (const auto& s : c.st)
  {
    const Adm* a = nullptr;
    for (auto& ad : admitted(c.ndim)) if (ad.ecov == s.type) a = &ad;
    if (a == nullptr) continue; // (a shrunk or hand-edited case)
    ECov type = ECov::fromValue(s.type);
    double param = 1.;
    if (a->hasParam)
    {
      double P = a->parMax;
      if (P <= 0 || P > 1e29) P = 100.;
      param = std::min(P, 5.) * s.pu;
      param = strtod(fmt("%.16g", param).c_str(), nullptr);
    }
    VectorDouble sills;
    for (int i = 0; i < c.nvar; i++)
      for (int j = 0; j < c.nvar; j++)
      {
        double v = 0;
        for (int r = 0; r < 3; r++) v += s.A[(size_t)(i * 3 + r)] * s.A[(size_t)(j * 3 + r)];
        sills.push_back(v + ((i == j) ? s.eps : 0.));
      }
    VectorDouble ranges, angles;
    for (int d = 0; d < c.ndim; d++) ranges.push_back(s.aniso == 0 ? s.range : s.range * s.ratio[(size_t)d]);
    if (c.ndim >= 2 && s.aniso == 2)
      for (int d = 0; d < c.ndim; d++) angles.push_back(s.ang[(size_t)d]);
    if (a->hasRange != 0)
    {
      // ranges whose scale falls below the library's own floor are a documented rejection
      double scadef = CovFactory::getScaleFactor(type, param);
      double mn = ranges[0];
      for (double r : ranges) mn = std::min(mn, r);
      if (!std::isfinite(scadef) || !(scadef > 0) || !(mn / scadef > 1e-9) || !(mn > 1e-9)) { ctx.label("degenerate-range"); continue; }
    }
    ctx.at("Model:addCov:" + a->key);
    int before = m->getCovaNumber();
    if (s.aniso == 0)
      m->addCovFromParam(type, s.range, 0., param, VectorDouble(), sills, VectorDouble(), true);
    else
      m->addCovFromParam(type, 0., 0., param, ranges, sills, angles, true);
    if (m->getCovaNumber() == before + 1 && a->hasRange != 0) maxRange = std::max(maxRange, m->getCova(before)->getRange());
    ctx.label("cov:" + a->key);
  }
  if (c.order >= 0)
  {
    ctx.at("Model:setDriftIRF");
    m->setDriftIRF(c.order, c.nfex);
  }
  m->setMeans(toVD(c.means));
  if (!c.covar0.empty()) m->setCovar0s(toVD(c.covar0));
  if (maxRange <= 0) maxRange = 1.;
  return true;
}
static bool cmpModel(const Model& x, const Model& y, Ctx& ctx, const ModelCase& c, double maxRange)
{
  const std::string cls = "Model";
  CHECK_EQ_INT(cls, "ndim", x.getDimensionNumber(), y.getDimensionNumber());
  CHECK_EQ_INT(cls, "nvar", x.getVariableNumber(), y.getVariableNumber());
  CHECK_EQ_INT(cls, "ncov", x.getCovaNumber(), y.getCovaNumber());
  CHECK_EQ_INT(cls, "ndrift", x.getDriftNumber(), y.getDriftNumber());
  CHECK_EQ_DBL(cls, "field", x.getField(), y.getField());
  int ndim = x.getDimensionNumber(), nvar = x.getVariableNumber();
  for (int ic = 0; ic < x.getCovaNumber(); ic++)
  {
    const CovAniso *a = x.getCova(ic), *b = y.getCova(ic);
    CHECK_EQ_INT(cls, "cov-type", a->getType().getValue(), b->getType().getValue());
    CHECK_EQ_DBL(cls, "cov-param", a->getParam(), b->getParam());
    CHECK_EQ_DBL(cls, "cov-range", a->getRange(), b->getRange());
    CHECK_EQ_INT(cls, "cov-flag-aniso", a->getFlagAniso(), b->getFlagAniso());
    if (a->hasRange() != 0)
    {
      VectorDouble ra = a->getRanges(), rb = b->getRanges();
      // ranges are stored as (largest range, ratios): two roundings of 15 digits
      if (!sameVecD(cls, "cov-ranges", ra, rb, ctx, ":get:", 2e-14)) return false;
      if (a->getFlagAniso())
      {
        CHECK_EQ_INT(cls, "cov-flag-rotation", a->getFlagRotation(), b->getFlagRotation());
        for (int i = 0; i < ndim; i++)
          for (int j = 0; j < ndim; j++)
            if (std::fabs(a->getAnisoRotMat(i, j) - b->getAnisoRotMat(i, j)) > 2e-15)
            {
              ctx.fail(cls + ":get:cov-rotmat", fmt("structure %d rotation (%d,%d): %.17g before, %.17g after reload", ic, i, j, a->getAnisoRotMat(i, j), b->getAnisoRotMat(i, j)));
              return false;
            }
      }
    }
    for (int i = 0; i < nvar; i++)
      for (int j = 0; j < nvar; j++) CHECK_EQ_DBL(cls, "sill", x.getSill(ic, i, j), y.getSill(ic, i, j));
  }
  for (int il = 0; il < x.getDriftNumber(); il++)
    if (x.getDrift(il)->getDriftName() != y.getDrift(il)->getDriftName())
    {
      ctx.fail(cls + ":get:drift-name", "drift " + fmt("%d", il) + ": '" + x.getDrift(il)->getDriftName() + "' before, '" + y.getDrift(il)->getDriftName() + "' after reload");
      return false;
    }
  if (x.getDriftNumber() <= 0) // the format stores the means only when there is no drift
    for (int i = 0; i < nvar; i++) CHECK_EQ_DBL(cls, "mean", x.getMean(i), y.getMean(i));
  for (int i = 0; i < nvar; i++)
    for (int j = 0; j < nvar; j++) CHECK_EQ_DBL(cls, "covar0", x.getCovar0(i, j), y.getCovar0(i, j));

  // behaviour: covariance at generated lags, drift functions at generated points
  if (x.getCovaNumber() > 0)
  {
    double smax = 0;
    for (int ic = 0; ic < x.getCovaNumber(); ic++)
      for (int i = 0; i < nvar; i++) smax = std::max(smax, std::fabs(x.getSill(ic, i, i)));
    double minRange = 1e300;
    for (int ic = 0; ic < x.getCovaNumber(); ic++)
      if (x.getCova(ic)->hasRange() != 0)
        for (double r : x.getCova(ic)->getRanges()) minRange = std::min(minRange, r);
    int nq = (int)c.lags.size() / ndim;
    for (int q = 0; q < nq; q++)
    {
      VectorDouble d;
      double hh = 0;
      for (int k = 0; k < ndim; k++) { d.push_back(c.lags[(size_t)(q * ndim + k)] * maxRange); hh += d.back() * d.back(); }
      // conditioning of the query: a relative change e of a range moves rho(h/a) by about e * (h/a) * |rho'|
      double cond = 1. + std::sqrt(hh) / minRange;
      for (int i = 0; i < nvar; i++)
        for (int j = 0; j < nvar; j++)
        {
          double a = 0, b = 0;
          // an evaluation which the original object itself refuses (special functions out of range) is not a reload question
          try { a = x.evalIvarIpas(1., d, i, j); } catch (const std::exception&) { ctx.label("query-refused-by-original"); continue; }
          b = y.evalIvarIpas(1., d, i, j);
          // values may be differences of large terms (generalised covariances): 1e-11 of the total sill
          if (!eqv(a, b, 1e-11) && !(std::fabs(a - b) <= 1e-11 * cond * smax))
          {
            ctx.fail(cls + ":query:covariance", fmt("C_%d%d(lag %d) = %.17g before, %.17g after reload", i, j, q, a, b));
            return false;
          }
        }
    }
  }
  if (x.getDriftNumber() > 0)
  {
    int nfex = x.getExternalDriftNumber();
    int np = 3;
    VectorDouble tab;
    VectorString names, locs;
    for (int k = 0; k < ndim + nfex; k++)
    {
      for (int p = 0; p < np; p++) tab.push_back(0.25 + 1.5 * p + 0.375 * k * (p + 1));
      names.push_back(fmt("c%d", k));
      locs.push_back(k < ndim ? fmt("x%d", k + 1) : fmt("f%d", k - ndim + 1));
    }
    std::unique_ptr<Db> db(Db::createFromSamples(np, ELoadBy::COLUMN, tab, names, locs, false));
    if (db)
      for (int il = 0; il < x.getDriftNumber(); il++)
        for (int p = 0; p < np; p++) CHECK_QRY_DBL(cls, "drift-value", x.evalDrift(db.get(), p, il), y.evalDrift(db.get(), p, il), 1e-13);
  }
  return true;
}
static void runModel(const ModelCase& c, Ctx& ctx)
{
  resetGlobals(c.ndim);
  ctx.label("class:Model");
  ctx.label(fmt("ndim:%d", c.ndim));
  std::unique_ptr<Model> x;
  double maxRange = 1;
  if (!buildModel(c, x, ctx, maxRange)) { ctx.label("build-refused"); return; }
  bool rot = false, aniso = false;
  for (int ic = 0; ic < x->getCovaNumber(); ic++)
  {
    aniso = aniso || x->getCova(ic)->getFlagAniso();
    rot = rot || (x->getCova(ic)->getFlagAniso() && x->getCova(ic)->getFlagRotation());
  }
  ctx.label(rot ? "aniso:rotated" : (aniso ? "aniso:yes" : "aniso:no"));
  ctx.label(x->getDriftNumber() > 0 ? "drift:yes" : "drift:no");
  bool ok = roundTrip<Model>("Model", "Model", "nf_Model", *x, []() { return new Model(); },
                             [](const std::string& p) { return Model::createFromNF(p, false); },
                             [&](const Model& a, const Model& b, Ctx& cx) { return cmpModel(a, b, cx, c, maxRange); }, c.fo, ctx);
  if (!ok) return;
  ctx.nontrivial((c.ndim >= 2 || c.nvar >= 2 || x->getCovaNumber() >= 2) && (aniso || x->getDriftNumber() > 0));
  Hash h;
  h.add(c.ndim).add(c.nvar).add(c.order).add(c.nfex).add(c.fo.mode);
  for (int ic = 0; ic < x->getCovaNumber(); ic++)
  {
    h.add(x->getCova(ic)->getType().getValue()).addq(x->getCova(ic)->getRange()).addq(x->getCova(ic)->getParam());
    h.add((int)x->getCova(ic)->getFlagAniso()).add((int)x->getCova(ic)->getFlagRotation());
  }
  ctx.sig = h.h;
}
VERIF_SUB(model, ModelCase, genModel, runModel);

// ====================================================================== neighbourhoods ===
struct NeighCase
{
  int kind = 0; // 0 unique, 1 moving, 2 bench, 3 cell, 4 image
  int ndim = 2;
  bool xvalid = false;
  int nmini = 1, nmaxi = 10, nsect = 1, nsmax = ITEST;
  double radius = TEST;
  int aniso = 0; // 0 none, 1 coefficients, 2 coefficients + rotation
  std::vector<double> coeffs, angles; // 3 each
  double width = 1;
  std::vector<int> image; // 3
  int skip = 0;
  std::vector<double> pts; // data: n * ndim (by sample)
  std::vector<double> tgt; // targets: m * ndim
  int reloadSpaceDim = 0;  // default space dimension in force when the object is reloaded (0: the object's own)
  FOpt fo;
  template<class A> void io(A& a)
  {
    a("kind", kind)("ndim", ndim)("xvalid", xvalid)("nmini", nmini)("nmaxi", nmaxi)("nsect", nsect)("nsmax", nsmax)("radius", radius)
     ("aniso", aniso)("coeffs", coeffs)("angles", angles)("width", width)("image", image)("skip", skip)("pts", pts)("tgt", tgt)
     ("reloadSpaceDim", reloadSpaceDim)("fo", fo);
  }
};
static NeighCase genNeigh()
{
  NeighCase c;
  c.kind = G::pick<int>({0, 1, 1, 1, 1, 2, 3, 4});
  c.ndim = G::i(1, 3);
  c.xvalid = G::pct(30);
  c.nmini = G::i(1, 4);
  c.nmaxi = G::pick<int>({1, 3, 5, 8, 1000});
  c.nsect = (c.ndim >= 2 && G::pct(50)) ? G::i(2, 8) : 1;
  c.nsmax = G::pct(40) ? ITEST : G::i(1, 4);
  c.radius = G::pct(20) ? TEST : genPos(5., 90.);
  c.aniso = G::i(0, 2);
  if (c.ndim == 1 && c.aniso == 2) c.aniso = 1;
  for (int i = 0; i < 3; i++)
  {
    c.coeffs.push_back(G::pct(30) ? 1. : genPos(0.05, 2.));
    c.angles.push_back(genAngle());
    c.image.push_back(G::i(0, 4));
  }
  c.width = G::pct(10) ? 0. : genPos(0.1, 50.);
  c.skip = G::i(0, 3);
  int n = G::sz(3, 25), m = G::i(2, 4);
  for (int i = 0; i < n * c.ndim; i++) c.pts.push_back(G::u(0., 100.));
  for (int i = 0; i < m * c.ndim; i++) c.tgt.push_back(G::u(0., 100.));
  c.reloadSpaceDim = G::pct(70) ? 0 : G::i(1, 3);
  c.fo = genFOpt();
  return c;
}
static Db* pointsDb(const std::vector<double>& p, int ndim, bool withZ)
{
  int n = (int)p.size() / ndim;
  VectorDouble tab;
  VectorString names, locs;
  for (int d = 0; d < ndim; d++)
  {
    for (int i = 0; i < n; i++) tab.push_back(p[(size_t)(i * ndim + d)]);
    names.push_back(fmt("x%d", d + 1));
    locs.push_back(fmt("x%d", d + 1));
  }
  if (withZ)
  {
    for (int i = 0; i < n; i++) tab.push_back(1. + 0.5 * i);
    names.push_back("z");
    locs.push_back("z1");
  }
  return Db::createFromSamples(n, ELoadBy::COLUMN, tab, names, locs, false);
}
// select() of both objects on the same data bases
// When the default space in force at reload time has another dimension than the object, the reloaded object
// has been seen to overflow the heap in select(): such cases are tried first in a child process so that the
// defect is reported as a failure instead of killing the search.
static bool g_riskySpace = false;
static bool survivesInChild(ANeigh& y, const Db* dbin, const Db* dbout)
{
  fflush(nullptr);
  pid_t p = fork();
  if (p == 0)
  {
    stats().outPrefix.clear();
    int nul = open("/dev/null", O_WRONLY);
    if (nul >= 0) { dup2(nul, 2); dup2(nul, 1); }
    try
    {
      if (y.attach(dbin, dbout) == 0)
        for (int it = 0; it < dbout->getSampleNumber(); it++)
        {
          VectorInt r;
          y.select(it, r);
        }
    }
    catch (...) { _exit(3); }
    _exit(0);
  }
  int st = 0;
  if (p < 0 || waitpid(p, &st, 0) < 0) return true;
  return WIFEXITED(st) && WEXITSTATUS(st) == 0;
}
static bool sameSelection(const std::string& cls, ANeigh& x, ANeigh& y, const Db* dbin, const Db* dbout, Ctx& ctx)
{
  if (g_riskySpace && !survivesInChild(y, dbin, dbout))
  {
    ctx.fail("space-dim-at-reload:" + cls, "object reloaded while the default space has another dimension than the one stored in the file: attach()/select() "
             "on data of the object's own dimension kills the process (sanitizer report / exception)");
    return false;
  }
  // the cross-validation switch has no slot in the format ("not represented"): aligned before the queries
  y.setFlagXvalid(x.getFlagXvalid());
  int ax = x.attach(dbin, dbout), ay = y.attach(dbin, dbout);
  if (ax != ay) { ctx.fail(cls + ":query:attach", fmt("attach returns %d before, %d after reload", ax, ay)); return false; }
  if (ax != 0) return true;
  for (int it = 0; it < dbout->getSampleNumber(); it++)
  {
    VectorInt rx, ry;
    x.select(it, rx);
    y.select(it, ry);
    if (!sameVecI(cls, "select", rx, ry, ctx, ":query:")) return false;
  }
  return true;
}
static void runNeigh(const NeighCase& c, Ctx& ctx)
{
  resetGlobals(c.ndim);
  std::unique_ptr<Db> dbin(pointsDb(c.pts, c.ndim, true)), dbout(pointsDb(c.tgt, c.ndim, false));
  // a grid for the cell / image neighbourhoods
  VectorInt nx;
  VectorDouble dx, x0;
  for (int d = 0; d < c.ndim; d++) { nx.push_back(3); dx.push_back(35.); x0.push_back(10.); }
  std::unique_ptr<DbGrid> grid(DbGrid::create(nx, dx, x0));
  if (!dbin || !dbout || !grid) { ctx.label("build-refused"); return; }
  const Db* pin = dbin.get();
  const Db* pout = dbout.get();
  Hash h;
  h.add(c.kind).add(c.ndim).add(c.fo.mode).add(c.xvalid ? 1 : 0);
  bool ok = false;
  int rsd = c.reloadSpaceDim > 0 ? c.reloadSpaceDim : c.ndim;
  g_riskySpace = (rsd != c.ndim);
  ctx.label(g_riskySpace ? "space-at-reload:other" : "space-at-reload:same");
  auto freshSpace = [rsd]() { defineDefaultSpace(ESpaceType::RN, rsd); };
  auto ownSpace = [&c]() { defineDefaultSpace(ESpaceType::RN, c.ndim); };
  switch (c.kind)
  {
    case 0:
    {
      ctx.label("class:NeighUnique");
      std::unique_ptr<NeighUnique> x(NeighUnique::create(c.xvalid));
      ok = roundTrip<NeighUnique>("NeighUnique", "NeighUnique", "nf_NeighUnique", *x, [&]() { freshSpace(); auto* o = new NeighUnique(); ownSpace(); return o; },
                                  [&](const std::string& p) { freshSpace(); auto* o = NeighUnique::createFromNF(p, false); ownSpace(); return o; },
                                  [&](const NeighUnique& a, const NeighUnique& b, Ctx& cx) {
                                    auto& ctx = cx;
                                    CHECK_EQ_INT("NeighUnique", "ndim", a.getNDim(), b.getNDim());
                                    return sameSelection("NeighUnique", const_cast<NeighUnique&>(a), const_cast<NeighUnique&>(b), pin, pout, cx);
                                  }, c.fo, ctx);
      break;
    }
    case 1:
    {
      // the anisotropic variants have their own class key (a known defect lives there)
      std::string cls = c.aniso == 0 ? "NeighMoving" : (c.aniso == 1 ? "NeighMovingAniso" : "NeighMovingAnisoRot");
      ctx.label("class:" + cls);
      ctx.label(c.nsect > 1 ? "sectors:yes" : "sectors:no");
      VectorDouble coeffs, angles;
      if (c.aniso >= 1) for (int d = 0; d < c.ndim; d++) coeffs.push_back(c.coeffs[(size_t)d]);
      if (c.aniso == 2) for (int d = 0; d < c.ndim; d++) angles.push_back(c.angles[(size_t)d]);
      std::unique_ptr<NeighMoving> x(NeighMoving::create(c.xvalid, c.nmaxi, c.radius, c.nmini, c.nsect, c.nsmax, coeffs, angles));
      if (!x) { ctx.label("build-refused"); return; }
      int ndim = c.ndim;
      ok = roundTrip<NeighMoving>(cls, "NeighMoving", "nf_NeighMoving", *x, [&]() { freshSpace(); auto* o = new NeighMoving(); ownSpace(); return o; },
                                  [&](const std::string& p) { freshSpace(); auto* o = NeighMoving::createFromNF(p, false); ownSpace(); return o; },
                                  [&, cls, ndim](const NeighMoving& a, const NeighMoving& b, Ctx& cx) {
                                    auto& ctx = cx;
                                    CHECK_EQ_INT(cls, "ndim", a.getNDim(), b.getNDim());
                                    CHECK_EQ_INT(cls, "nmini", a.getNMini(), b.getNMini());
                                    CHECK_EQ_INT(cls, "nmaxi", a.getNMaxi(), b.getNMaxi());
                                    CHECK_EQ_INT(cls, "nsect", a.getNSect(), b.getNSect());
                                    CHECK_EQ_INT(cls, "nsmax", a.getNSMax(), b.getNSMax());
                                    CHECK_EQ_INT(cls, "flag-sector", a.getFlagSector(), b.getFlagSector());
                                    CHECK_EQ_DBL(cls, "radius", a.getRadius(), b.getRadius());
                                    CHECK_EQ_INT(cls, "flag-aniso", a.getFlagAniso(), b.getFlagAniso());
                                    if (a.getFlagAniso())
                                    {
                                      if (!sameVecD(cls, "aniso-coeffs", a.getAnisoCoeffs(), b.getAnisoCoeffs(), cx)) return false;
                                      CHECK_EQ_INT(cls, "flag-rotation", a.getFlagRotation(), b.getFlagRotation());
                                      if (a.getFlagRotation())
                                      {
                                        const VectorDouble &ra = a.getAnisoRotMats(), &rb = b.getAnisoRotMats();
                                        if (ra.size() != rb.size()) { cx.fail(cls + ":get:rotmat", "rotation matrices of different sizes"); return false; }
                                        for (size_t k = 0; k < ra.size(); k++)
                                          if (std::fabs(ra[k] - rb[k]) > 2e-15) { cx.fail(cls + ":get:rotmat", fmt("element %d: %.17g before, %.17g after reload", (int)k, ra[k], rb[k])); return false; }
                                      }
                                    }
                                    // behaviour: the normalised distance of generated increments, then select()
                                    int bd = a.getBiPtDist()->getNDim();
                                    CHECK_EQ_INT(cls, "dist-ndim", bd, b.getBiPtDist()->getNDim());
                                    for (int q = 0; q + 1 < (int)c.tgt.size() / ndim; q++)
                                    {
                                      VectorDouble dd((size_t)bd, 0.);
                                      for (int d = 0; d < std::min(bd, ndim); d++) dd[(size_t)d] = c.tgt[(size_t)(q * ndim + d)] - c.tgt[(size_t)((q + 1) * ndim + d)];
                                      CHECK_QRY_DBL(cls, "normalized-distance", a.getBiPtDist()->getNormalizedDistance(dd), b.getBiPtDist()->getNormalizedDistance(dd), 1e-13);
                                    }
                                    return sameSelection(cls, const_cast<NeighMoving&>(a), const_cast<NeighMoving&>(b), pin, pout, cx);
                                  }, c.fo, ctx);
      h.add(c.nmini).add(c.nmaxi).add(c.nsect).add(c.nsmax).addq(c.radius).add(c.aniso);
      for (double v : coeffs) h.addq(v);
      for (double v : angles) h.addq(v);
      ctx.nontrivial(ok && c.ndim >= 2 && (c.aniso > 0 || c.nsect > 1));
      break;
    }
    case 2:
    {
      ctx.label("class:NeighBench");
      std::unique_ptr<NeighBench> x(NeighBench::create(c.xvalid, c.width));
      ok = roundTrip<NeighBench>("NeighBench", "NeighBench", "nf_NeighBench", *x, [&]() { freshSpace(); auto* o = new NeighBench(); ownSpace(); return o; },
                                 [&](const std::string& p) { freshSpace(); auto* o = NeighBench::createFromNF(p, false); ownSpace(); return o; },
                                 [&](const NeighBench& a, const NeighBench& b, Ctx& cx) {
                                   auto& ctx = cx;
                                   CHECK_EQ_INT("NeighBench", "ndim", a.getNDim(), b.getNDim());
                                   if (!sameSelection("NeighBench", const_cast<NeighBench&>(a), const_cast<NeighBench&>(b), pin, pout, cx)) return false;
                                   CHECK_EQ_DBL("NeighBench", "width", a.getWidth(), b.getWidth());
                                   return true;
                                 }, c.fo, ctx);
      h.addq(c.width);
      ctx.nontrivial(ok && c.ndim >= 2 && c.width > 0);
      break;
    }
    case 3:
    {
      ctx.label("class:NeighCell");
      std::unique_ptr<NeighCell> x(NeighCell::create(c.xvalid, c.nmini));
      const Db* pg = grid.get();
      ok = roundTrip<NeighCell>("NeighCell", "NeighCell", "nf_NeighCell", *x, [&]() { freshSpace(); auto* o = new NeighCell(); ownSpace(); return o; },
                                [&](const std::string& p) { freshSpace(); auto* o = NeighCell::createFromNF(p, false); ownSpace(); return o; },
                                [&](const NeighCell& a, const NeighCell& b, Ctx& cx) {
                                  auto& ctx = cx;
                                  CHECK_EQ_INT("NeighCell", "ndim", a.getNDim(), b.getNDim());
                                  CHECK_EQ_INT("NeighCell", "nmini", a.getNMini(), b.getNMini());
                                  return sameSelection("NeighCell", const_cast<NeighCell&>(a), const_cast<NeighCell&>(b), pin, pg, cx);
                                }, c.fo, ctx);
      h.add(c.nmini);
      ctx.nontrivial(ok && c.ndim >= 2 && c.nmini > 1);
      break;
    }
    default:
    {
      ctx.label("class:NeighImage");
      VectorInt image;
      for (int d = 0; d < c.ndim; d++) image.push_back(c.image[(size_t)d]);
      std::unique_ptr<NeighImage> x(NeighImage::create(image, c.skip));
      const Db* pg = grid.get();
      ok = roundTrip<NeighImage>("NeighImage", "NeighImage", "nf_NeighImage", *x, [&]() { freshSpace(); auto* o = new NeighImage(); ownSpace(); return o; },
                                 [&](const std::string& p) { freshSpace(); auto* o = NeighImage::createFromNF(p, false); ownSpace(); return o; },
                                 [&](const NeighImage& a, const NeighImage& b, Ctx& cx) {
                                   auto& ctx = cx;
                                   CHECK_EQ_INT("NeighImage", "ndim", a.getNDim(), b.getNDim());
                                   CHECK_EQ_INT("NeighImage", "skip", a.getSkip(), b.getSkip());
                                   if (!sameVecI("NeighImage", "image-radius", a.getImageRadius(), b.getImageRadius(), cx)) return false;
                                   return sameSelection("NeighImage", const_cast<NeighImage&>(a), const_cast<NeighImage&>(b), pg, pg, cx);
                                 }, c.fo, ctx);
      for (int v : image) h.add(v);
      h.add(c.skip);
      ctx.nontrivial(ok && c.ndim >= 2);
      break;
    }
  }
  if (c.kind == 0) ctx.nontrivial(ok && c.ndim >= 2 && c.xvalid);
  ctx.sig = h.h;
}
VERIF_SUB(neigh, NeighCase, genNeigh, runNeigh);

// ====================================================================== Vario ============
struct VDir
{
  int npas = 3, optcode = 0;
  double dpas = 1, toldis = 0.5, tolang = 45, tolcode = 0;
  std::vector<double> codir;  // ndim
  std::vector<int> grincr;    // ndim (grid definition) or empty
  std::vector<double> sw, hh, gg; // direct filling: sized for the asymmetric case, the first getDirSize values are used
  template<class A> void io(A& a)
  {
    a("npas", npas)("optcode", optcode)("dpas", dpas)("toldis", toldis)("tolang", tolang)("tolcode", tolcode)("codir", codir)("grincr", grincr)("sw", sw)("hh", hh)("gg", gg);
  }
};
struct VarioCase
{
  int ndim = 2, nvar = 1;
  int calc = 0; // ECalcVario value
  double scale = 0;
  std::vector<VDir> dirs;
  std::vector<double> vars;
  std::vector<std::string> names;
  bool grid = false;
  bool computed = false;  // arrays computed by the library from a generated Db instead of filled directly
  std::vector<double> data; // computed: n * (ndim + nvar) by column
  bool emptyLags = false; // direct filling: lags without pairs (sw = 0, hh = gg = NA) as the library produces them
  FOpt fo;
  template<class A> void io(A& a)
  {
    a("ndim", ndim)("nvar", nvar)("calc", calc)("scale", scale)("dirs", dirs)("vars", vars)("names", names)("grid", grid)("computed", computed)("data", data)("emptyLags", emptyLags)("fo", fo);
  }
};
static const char* calcName(int calc)
{
  static const char* n[] = {"vg", "cov", "covg", "mado", "rodo", "poisson", "general1", "general2", "general3", "covnc", "order4", "trans1", "trans2", "binormal"};
  return (calc >= 0 && calc < 14) ? n[calc] : "vg";
}
static bool calcAsym(int calc) { return calc == 1 || calc == 2 || calc == 9; }
static VarioCase genVario()
{
  VarioCase c;
  c.ndim = G::i(1, 3);
  c.nvar = G::i(1, 3);
  c.calc = G::pct(60) ? 0 : G::pick<int>({1, 2, 3, 4, 5, 9, 10, 13});
  c.scale = G::pct(50) ? 0. : genPos(1e-3, 1e3);
  c.grid = G::pct(25);
  c.computed = !c.grid && G::pct(30);
  if (c.computed && !(c.calc == 0 || c.calc == 1 || c.calc == 3 || c.calc == 4 || c.calc == 9)) c.calc = 0;
  c.emptyLags = G::pct(30);
  int ndir = G::sz(1, 3);
  // the arrays of an asymmetric calculation are reloaded with the wrong size (type not stored): with several
  // directions the rest of the text is then misparsed (a value becomes a lag count -> allocation of GBytes kills
  // the process), so this recorded defect is exhibited with one direction only
  if (calcAsym(c.calc)) ndir = 1;
  for (int k = 0; k < ndir; k++)
  {
    VDir d;
    d.npas = G::sz(1, 5);
    d.optcode = c.computed ? 0 : G::i(0, 2); // (directions with different pair checkers make Vario::compute read uninitialised pointers: C12's ground)
    d.dpas = c.computed ? G::u(5., 30.) : genPos(1e-3, 1e6);
    d.toldis = G::pick<double>({0.5, 0.25, 0.1, 0.33333333333333331});
    d.tolang = G::pct(30) ? 90. : genPos(1., 90.);
    d.tolcode = (c.computed || G::pct(60)) ? 0. : genVal(0);
    if (std::fabs(d.tolcode) > 1e9) d.tolcode = 1.;
    for (int i = 0; i < c.ndim; i++)
    {
      d.codir.push_back((i == k % c.ndim) ? 1. : (G::pct(50) ? 0. : G::u(-1., 1.)));
      if (c.grid) d.grincr.push_back((i == k % c.ndim) ? G::i(1, 3) : G::i(-2, 2));
    }
    int nmax = (2 * d.npas + 1) * c.nvar * (c.nvar + 1) / 2;
    for (int i = 0; i < nmax; i++)
    {
      bool empty = c.emptyLags && G::pct(25);
      d.sw.push_back(empty ? 0. : (G::b() ? (double)G::i(1, 5000) : genPos(1e-3, 1e6)));
      d.hh.push_back(empty ? TEST : (G::pct(10) ? 0. : genPos(1e-6, 1e9)));
      double g = genVal(0);
      d.gg.push_back(empty ? TEST : g);
    }
    c.dirs.push_back(d);
  }
  // variance-covariance matrix of the variables: symmetric by nature
  c.vars.assign((size_t)(c.nvar * c.nvar), 0.);
  for (int i = 0; i < c.nvar; i++)
    for (int j = 0; j <= i; j++) c.vars[(size_t)(i * c.nvar + j)] = c.vars[(size_t)(j * c.nvar + i)] = genVal(0);
  for (int i = 0; i < c.nvar; i++) c.names.push_back(genName(i));
  if (c.computed)
  {
    int n = G::sz(4, 20);
    for (int k = 0; k < c.ndim; k++)
      for (int i = 0; i < n; i++) c.data.push_back(G::u(0., 100.));
    for (int k = 0; k < c.nvar; k++)
      for (int i = 0; i < n; i++) c.data.push_back(G::pct(10) ? TEST : (c.calc == 5 ? (double)G::i(0, 9) : G::r(-50, 50, 16)));
  }
  c.fo = genFOpt();
  return c;
}
static bool cmpVario(const std::string& cls, const Vario& x, const Vario& y, Ctx& ctx)
{
  CHECK_EQ_INT(cls, "ndim", x.getDimensionNumber(), y.getDimensionNumber());
  CHECK_EQ_INT(cls, "nvar", x.getVariableNumber(), y.getVariableNumber());
  CHECK_EQ_INT(cls, "ndir", x.getDirectionNumber(), y.getDirectionNumber());
  CHECK_EQ_DBL(cls, "scale", x.getVarioParam().getScale(), y.getVarioParam().getScale());
  int nvar = x.getVariableNumber(), ndim = x.getDimensionNumber();
  for (int i = 0; i < nvar; i++)
  {
    if (x.getVariableName(i) != y.getVariableName(i))
    {
      ctx.fail(cls + ":get:variable-name", "variable " + fmt("%d", i) + ": '" + x.getVariableName(i) + "' before, '" + y.getVariableName(i) + "' after reload");
      return false;
    }
    for (int j = 0; j < nvar; j++) CHECK_EQ_DBL(cls, "var", x.getVar(i, j), y.getVar(i, j));
  }
  for (int id = 0; id < x.getDirectionNumber(); id++)
  {
    const DirParam &a = x.getDirParam(id), &b = y.getDirParam(id);
    CHECK_EQ_INT(cls, "npas", a.getLagNumber(), b.getLagNumber());
    CHECK_EQ_INT(cls, "optcode", a.getOptionCode(), b.getOptionCode());
    CHECK_EQ_DBL(cls, "tolcode", a.getTolCode(), b.getTolCode());
    CHECK_EQ_DBL(cls, "dpas", a.getDPas(), b.getDPas());
    CHECK_EQ_DBL(cls, "toldis", a.getTolDist(), b.getTolDist());
    CHECK_EQ_INT(cls, "grid-definition", a.isDefinedForGrid(), b.isDefinedForGrid());
    if (!a.isDefinedForGrid()) CHECK_EQ_DBL(cls, "tolangle", a.getTolAngle(), b.getTolAngle());
    else if (!sameVecI(cls, "grincr", a.getGrincrs(), b.getGrincrs(), ctx)) return false;
    if (!sameVecD(cls, "codir", a.getCodirs(), b.getCodirs(), ctx)) return false;
    CHECK_EQ_INT(cls, "dir-ndim", a.getNDim(), ndim);
    CHECK_EQ_INT(cls, "dir-ndim-reloaded", b.getNDim(), ndim);
    CHECK_EQ_INT(cls, "dir-size", x.getDirSize(id), y.getDirSize(id));
    for (int i = 0; i < x.getDirSize(id); i++)
    {
      double sx = x.getSwByIndex(id, i), sy = y.getSwByIndex(id, i);
      double hx = x.getHhByIndex(id, i), hy = y.getHhByIndex(id, i);
      double gx = x.getGgByIndex(id, i), gy = y.getGgByIndex(id, i);
      // the writer replaces undefined values by 0 (lags without pairs): own key
      if ((isNAv(sx) && sy == 0) || (isNAv(hx) && hy == 0) || (isNAv(gx) && gy == 0))
      {
        ctx.fail("vario-na-written-as-zero:" + cls, fmt("direction %d entry %d: (sw,hh,gg) = (%s,%s,%s) before, (%s,%s,%s) after reload", id, i, dstr(sx).c_str(),
                                                        dstr(hx).c_str(), dstr(gx).c_str(), dstr(sy).c_str(), dstr(hy).c_str(), dstr(gy).c_str()));
        return false;
      }
      CHECK_EQ_DBL(cls, "sw", sx, sy);
      CHECK_EQ_DBL(cls, "hh", hx, hy);
      CHECK_EQ_DBL(cls, "gg", gx, gy);
    }
    // queries
    for (int i = 0; i < nvar; i++)
      for (int j = 0; j <= i; j++)
        for (int compress = 0; compress < 2; compress++)
        {
          if (!sameVecD(cls, "getGgVec", x.getGgVec(id, i, j, false, false, compress != 0), y.getGgVec(id, i, j, false, false, compress != 0), ctx, ":query:")) return false;
          if (!sameVecD(cls, "getHhVec", x.getHhVec(id, i, j, compress != 0), y.getHhVec(id, i, j, compress != 0), ctx, ":query:")) return false;
          if (!sameVecD(cls, "getSwVec", x.getSwVec(id, i, j, compress != 0), y.getSwVec(id, i, j, compress != 0), ctx, ":query:")) return false;
        }
  }
  return true;
}
static void runVario(const VarioCase& c, Ctx& ctx)
{
  resetGlobals(c.ndim);
  // arrays of an asymmetric calculation (2*npas+1 lags) have their own class key: the calculation type is not stored
  std::string cls = calcAsym(c.calc) ? "VarioAsym" : "Vario";
  ctx.label("class:" + cls);
  ctx.label(std::string("calc:") + calcName(c.calc));
  ctx.label(c.grid ? "dirs:grid" : (c.computed ? "dirs:computed" : "dirs:filled"));
  SpaceRN space((unsigned int)c.ndim);
  VarioParam vp(c.scale);
  std::unique_ptr<DbGrid> grid;
  if (c.grid)
  {
    VectorInt nx;
    VectorDouble dx, x0;
    for (int d = 0; d < c.ndim; d++) { nx.push_back(5); dx.push_back(1.5 + d); x0.push_back(10. * d); }
    grid.reset(DbGrid::create(nx, dx, x0));
    if (!grid) { ctx.label("build-refused"); return; }
  }
  ctx.at("Vario:build");
  for (const auto& d : c.dirs)
  {
    if (c.grid)
    {
      DirParam dp(grid.get(), d.npas, toVI(d.grincr), &space);
      vp.addDir(dp);
    }
    else
    {
      DirParam dp(d.npas, d.dpas, d.toldis, d.tolang, d.optcode, 0, TEST, TEST, d.tolcode, VectorDouble(), toVD(d.codir), TEST, &space);
      vp.addDir(dp);
    }
  }
  std::unique_ptr<Vario> x;
  std::unique_ptr<Db> db;
  bool hasNA = false;
  if (c.computed)
  {
    int n = (int)c.data.size() / (c.ndim + c.nvar);
    VectorString names, locs;
    for (int k = 0; k < c.ndim; k++) { names.push_back(fmt("x%d", k + 1)); locs.push_back(fmt("x%d", k + 1)); }
    for (int k = 0; k < c.nvar; k++) { names.push_back(c.names[(size_t)k]); locs.push_back(fmt("z%d", k + 1)); }
    db.reset(Db::createFromSamples(n, ELoadBy::COLUMN, toVD(c.data), names, locs, false));
    if (!db) { ctx.label("build-refused"); return; }
    ctx.at("Vario:computeFromDb");
    x.reset(Vario::computeFromDb(vp, db.get(), ECalcVario::fromValue(c.calc)));
    if (!x) { ctx.label("build-refused"); return; }
  }
  else
  {
    x.reset(Vario::create(vp));
    if (!x) { ctx.label("build-refused"); return; }
    x->setNVar(c.nvar);
    x->setCalculByName(calcName(c.calc));
    x->internalVariableResize();
    x->internalDirectionResize(x->getDirectionNumber(), true);
    x->setVars(toVD(c.vars));
    x->setVariableNames(toVS(c.names));
    for (int id = 0; id < x->getDirectionNumber(); id++)
    {
      const VDir& d = c.dirs[(size_t)id];
      int n = x->getDirSize(id);
      if (n > (int)d.sw.size()) { ctx.label("build-refused"); return; }
      for (int i = 0; i < n; i++)
      {
        x->setSwByIndex(id, i, d.sw[(size_t)i]);
        x->setHhByIndex(id, i, d.hh[(size_t)i]);
        x->setGgByIndex(id, i, d.gg[(size_t)i]);
      }
    }
  }
  for (int id = 0; id < x->getDirectionNumber(); id++)
    for (int i = 0; i < x->getDirSize(id); i++) hasNA = hasNA || isNAv(x->getGgByIndex(id, i)) || isNAv(x->getHhByIndex(id, i));
  ctx.label(hasNA ? "empty-lags:yes" : "empty-lags:no");
  bool ok = roundTrip<Vario>(cls, "Vario", "nf_Vario", *x, []() { VarioParam v0; return new Vario(v0); },
                             [](const std::string& p) { return Vario::createFromNF(p, false); },
                             [&](const Vario& a, const Vario& b, Ctx& cx) { return cmpVario(cls, a, b, cx); }, c.fo, ctx);
  if (!ok) return;
  ctx.nontrivial((c.nvar >= 2 || c.dirs.size() >= 2) && (c.ndim >= 2));
  Hash h;
  h.add(c.ndim).add(c.nvar).add(c.calc).add(c.grid ? 1 : 0).add(c.computed ? 1 : 0).add(c.fo.mode).addq(c.scale);
  for (auto& d : c.dirs)
  {
    h.add(d.npas).add(d.optcode).addq(d.dpas).addq(d.tolang);
    for (double v : d.codir) h.addq(v);
    for (int v : d.grincr) h.add(v);
  }
  ctx.sig = h.h;
}
VERIF_SUB(vario, VarioCase, genVario, runVario);

// ====================================================================== polygons, lines, faults
struct Ring
{
  std::vector<double> x, y;
  double zmin = TEST, zmax = TEST;
  template<class A> void io(A& a) { a("x", x)("y", y)("zmin", zmin)("zmax", zmax); }
};
struct PolyCase
{
  int kind = 0; // 0 Polygons, 1 PolyLine2D, 2 PolyElem, 3 Faults
  std::vector<Ring> rings;
  std::vector<double> q; // queries: nq * 3, in units of the bounding box
  FOpt fo;
  template<class A> void io(A& a) { a("kind", kind)("rings", rings)("q", q)("fo", fo); }
};
static Ring genRing(bool closedShape, double L, double ox, double oy)
{
  Ring r;
  int n = G::sz(closedShape ? 3 : 1, 8);
  double cx = ox + L * G::u(0.2, 0.8), cy = oy + L * G::u(0.2, 0.8);
  bool full = G::b();
  for (int i = 0; i < n; i++)
  {
    double x, y;
    if (closedShape)
    {
      // star-shaped around (cx,cy): a simple polygon
      double ang = 2. * 3.14159265358979323846 * (i + G::u(0.1, 0.9)) / n;
      double rad = L * G::u(0.05, 0.2);
      x = cx + rad * std::cos(ang);
      y = cy + rad * std::sin(ang);
    }
    else
    {
      x = ox + L * (i + G::u(0., 1.)) / n;
      y = oy + L * G::u(0., 1.);
    }
    if (!full)
    {
      x = strtod(fmt("%.15g", x).c_str(), nullptr);
      y = strtod(fmt("%.15g", y).c_str(), nullptr);
    }
    r.x.push_back(x);
    r.y.push_back(y);
  }
  if (closedShape && G::pct(50)) { r.x.push_back(r.x[0]); r.y.push_back(r.y[0]); }
  int zl = G::i(0, 3);
  if (zl & 1) r.zmin = G::pct(20) ? genVal(0) : G::r(-10, 0, 8);
  if (zl & 2) r.zmax = G::pct(20) ? std::fabs(genVal(0)) + (isNAv(r.zmin) ? 0. : std::fabs(r.zmin)) : G::r(0, 10, 8);
  return r;
}
static PolyCase genPoly()
{
  PolyCase c;
  c.kind = G::pick<int>({0, 0, 0, 1, 2, 3});
  double L = G::pick<double>({1., 100., 1e4, 1e-3});
  double ox = G::pct(50) ? 0. : G::r(-10000, 10000, 4), oy = G::pct(50) ? 0. : G::r(-10000, 10000, 4);
  int nr = (c.kind == 0) ? (G::pct(5) ? 0 : G::sz(1, 4)) : (c.kind == 3 ? (G::pct(5) ? 0 : G::sz(1, 4)) : 1);
  for (int k = 0; k < nr; k++) c.rings.push_back(genRing(c.kind == 0 || c.kind == 2, L, ox, oy));
  for (int k = 0; k < 8; k++)
  {
    c.q.push_back(ox + L * G::u(0., 1.));
    c.q.push_back(oy + L * G::u(0., 1.));
    c.q.push_back(G::r(-12, 12, 4));
  }
  c.fo = genFOpt();
  return c;
}
static bool cmpLine2D(const std::string& cls, const PolyLine2D& a, const PolyLine2D& b, Ctx& ctx)
{
  CHECK_EQ_INT(cls, "npoints", a.getNPoints(), b.getNPoints());
  if (!sameVecD(cls, "x", a.getX(), b.getX(), ctx)) return false;
  if (!sameVecD(cls, "y", a.getY(), b.getY(), ctx)) return false;
  return true;
}
// the surface is a sum of cross products of coordinates: its error is (coordinate error) x (extent), not relative
static double surfaceTol(const VectorDouble& x, const VectorDouble& y)
{
  if (x.empty()) return 0;
  double mx = 0, ex = 0;
  double x0 = x[0], x1 = x[0], y0 = y[0], y1 = y[0];
  for (size_t i = 0; i < x.size(); i++)
  {
    mx = std::max(mx, std::max(std::fabs(x[i]), std::fabs(y[i])));
    x0 = std::min(x0, x[i]); x1 = std::max(x1, x[i]); y0 = std::min(y0, y[i]); y1 = std::max(y1, y[i]);
  }
  ex = (x1 - x0) + (y1 - y0);
  return 1e-13 * mx * ex * (double)x.size();
}
static bool cmpElem(const std::string& cls, const PolyElem& a, const PolyElem& b, Ctx& ctx)
{
  CHECK_EQ_DBL(cls, "zmin", a.getZmin(), b.getZmin());
  CHECK_EQ_DBL(cls, "zmax", a.getZmax(), b.getZmax());
  return cmpLine2D(cls, a, b, ctx);
}
static void runPoly(const PolyCase& c, Ctx& ctx)
{
  resetGlobals();
  Hash h;
  h.add(c.kind).add(c.fo.mode).add((int)c.rings.size());
  bool zl = false;
  for (auto& r : c.rings)
  {
    for (double v : r.x) h.addq(v);
    for (double v : r.y) h.addq(v);
    h.addq(r.zmin).addq(r.zmax);
    zl = zl || !isNAv(r.zmin) || !isNAv(r.zmax);
  }
  bool ok = false;
  if (c.kind == 0)
  {
    ctx.label("class:Polygons");
    ctx.label(zl ? "zlimits:yes" : "zlimits:no");
    Polygons x;
    for (auto& r : c.rings)
    {
      PolyElem e(toVD(r.x), toVD(r.y), r.zmin, r.zmax);
      x.addPolyElem(e);
    }
    ok = roundTrip<Polygons>("Polygons", "Polygon", "nf_Polygons", x, []() { return new Polygons(); },
                             [](const std::string& p) { return Polygons::createFromNF(p, false); },
                             [&](const Polygons& a, const Polygons& b, Ctx& cx) {
                               auto& ctx = cx;
                               CHECK_EQ_INT("Polygons", "npolyelem", a.getPolyElemNumber(), b.getPolyElemNumber());
                               for (int k = 0; k < a.getPolyElemNumber(); k++)
                                 if (!cmpElem("Polygons", a.getPolyElem(k), b.getPolyElem(k), cx)) return false;
                               for (size_t q = 0; q + 2 < c.q.size(); q += 3)
                                 for (int nested = 0; nested < 2; nested++)
                                 {
                                   VectorDouble p2 = {c.q[q], c.q[q + 1]}, p3 = {c.q[q], c.q[q + 1], c.q[q + 2]};
                                   CHECK_EQ_INT("Polygons", "inside2D", a.inside(p2, nested != 0), b.inside(p2, nested != 0));
                                   CHECK_EQ_INT("Polygons", "inside3D", a.inside(p3, nested != 0), b.inside(p3, nested != 0));
                                 }
                               if (a.getPolyElemNumber() > 0)
                               {
                                 double tol = 0;
                                 for (int k = 0; k < a.getPolyElemNumber(); k++) tol += surfaceTol(a.getPolyElem(k).getX(), a.getPolyElem(k).getY());
                                 double sa = a.getSurface(), sb = b.getSurface();
                                 if (!eqv(sa, sb, 1e-12) && std::fabs(sa - sb) > tol) { cx.fail("Polygons:query:surface", fmt("surface: %.17g before, %.17g after reload", sa, sb)); return false; }
                               }
                               return true;
                             }, c.fo, ctx);
    ctx.nontrivial(ok && c.rings.size() >= 2 && zl);
  }
  else if (c.kind == 1)
  {
    ctx.label("class:PolyLine2D");
    if (c.rings.empty()) { ctx.label("build-refused"); return; }
    PolyLine2D x(toVD(c.rings[0].x), toVD(c.rings[0].y));
    ok = roundTrip<PolyLine2D>("PolyLine2D", "PolyLine2D", "nf_PolyLine2D", x, []() { return new PolyLine2D(); },
                               [](const std::string& p) { return PolyLine2D::createFromNF(p, false); },
                               [&](const PolyLine2D& a, const PolyLine2D& b, Ctx& cx) {
                                 if (!cmpLine2D("PolyLine2D", a, b, cx)) return false;
                                 auto& ctx = cx;
                                 CHECK_QRY_DBL("PolyLine2D", "xmin", a.getXmin(), b.getXmin(), kRel);
                                 CHECK_QRY_DBL("PolyLine2D", "ymax", a.getYmax(), b.getYmax(), kRel);
                                 return true;
                               }, c.fo, ctx);
    ctx.nontrivial(ok && x.getNPoints() >= 2);
  }
  else if (c.kind == 2)
  {
    ctx.label("class:PolyElem");
    if (c.rings.empty()) { ctx.label("build-refused"); return; }
    const Ring& r = c.rings[0];
    PolyElem x(toVD(r.x), toVD(r.y), r.zmin, r.zmax);
    ok = roundTrip<PolyElem>("PolyElem", "PolyElem", nullptr, x, []() { return new PolyElem(); },
                             [](const std::string& p) { return PolyElem::createFromNF(p, false); },
                             [&](const PolyElem& a, const PolyElem& b, Ctx& cx) {
                               if (!cmpElem("PolyElem", a, b, cx)) return false;
                               auto& ctx = cx;
                               for (size_t q = 0; q + 2 < c.q.size(); q += 3)
                                 CHECK_EQ_INT("PolyElem", "inside3D", a.inside3D(c.q[q + 2]), b.inside3D(c.q[q + 2]));
                               {
                                 double sa = a.getSurface(), sb = b.getSurface();
                                 if (!eqv(sa, sb, 1e-12) && std::fabs(sa - sb) > surfaceTol(a.getX(), a.getY())) { cx.fail("PolyElem:query:surface", fmt("surface: %.17g before, %.17g after reload", sa, sb)); return false; }
                               }
                               return true;
                             }, c.fo, ctx);
    ctx.nontrivial(ok && zl);
  }
  else
  {
    ctx.label("class:Faults");
    Faults x;
    for (auto& r : c.rings)
    {
      PolyLine2D l(toVD(r.x), toVD(r.y));
      x.addFault(l);
    }
    ok = roundTrip<Faults>("Faults", "Faults", "nf_Faults", x, []() { return new Faults(); },
                           [](const std::string& p) { return Faults::createFromNF(p, false); },
                           [&](const Faults& a, const Faults& b, Ctx& cx) {
                             auto& ctx = cx;
                             CHECK_EQ_INT("Faults", "nfaults", a.getNFaults(), b.getNFaults());
                             for (int k = 0; k < a.getNFaults(); k++)
                               if (!cmpLine2D("Faults", a.getFault(k), b.getFault(k), cx)) return false;
                             for (size_t q = 0; q + 5 < c.q.size(); q += 3)
                               CHECK_EQ_INT("Faults", "isSplitByFault", a.isSplitByFault(c.q[q], c.q[q + 1], c.q[q + 3], c.q[q + 4]),
                                            b.isSplitByFault(c.q[q], c.q[q + 1], c.q[q + 3], c.q[q + 4]));
                             return true;
                           }, c.fo, ctx);
    ctx.nontrivial(ok && c.rings.size() >= 2);
  }
  ctx.sig = h.h;
}
VERIF_SUB(polygons, PolyCase, genPoly, runPoly);

// ====================================================================== Table ============
struct TableCase
{
  int nrow = 1, ncol = 1;
  std::vector<double> v; // by row
  FOpt fo;
  template<class A> void io(A& a) { a("nrow", nrow)("ncol", ncol)("v", v)("fo", fo); }
};
static TableCase genTable()
{
  TableCase c;
  c.nrow = G::pct(5) ? 0 : G::sz(1, 8);
  c.ncol = G::pct(5) ? 0 : G::sz(1, 6);
  int na = G::pick<int>({0, 20, 50});
  for (int i = 0; i < c.nrow * c.ncol; i++) c.v.push_back(genVal(na));
  c.fo = genFOpt();
  return c;
}
static void runTable(const TableCase& c, Ctx& ctx)
{
  resetGlobals();
  ctx.label("class:Table");
  std::unique_ptr<Table> x(Table::create(c.nrow, c.ncol));
  if (!x) { ctx.label("build-refused"); return; }
  bool na = false;
  for (int i = 0; i < c.nrow; i++)
    for (int j = 0; j < c.ncol; j++) { x->setValue(i, j, c.v[(size_t)(i * c.ncol + j)]); na = na || isNAv(c.v[(size_t)(i * c.ncol + j)]); }
  bool ok = roundTrip<Table>("Table", "Table", "nf_Table", *x, []() { return new Table(); },
                             [](const std::string& p) { return Table::createFromNF(p, false); },
                             [](const Table& a, const Table& b, Ctx& cx) {
                               auto& ctx = cx;
                               CHECK_EQ_INT("Table", "nrows", a.getNRows(), b.getNRows());
                               CHECK_EQ_INT("Table", "ncols", a.getNCols(), b.getNCols());
                               for (int i = 0; i < a.getNRows(); i++)
                                 for (int j = 0; j < a.getNCols(); j++) CHECK_EQ_DBL("Table", "value", a.getValue(i, j), b.getValue(i, j));
                               return true;
                             }, c.fo, ctx);
  ctx.nontrivial(ok && c.nrow >= 2 && c.ncol >= 2 && na);
  Hash h;
  h.add(c.nrow).add(c.ncol).add(c.fo.mode);
  for (double v : c.v) h.addq(v);
  ctx.sig = h.h;
}
VERIF_SUB(table, TableCase, genTable, runTable);

// ====================================================================== fracture environment
struct FracCase
{
  std::vector<double> env;  // 6
  std::vector<double> fam;  // nfam * 10
  std::vector<double> flt;  // nfault * (2 + 4 * nfamPerFault)
  int nfam = 1, nfault = 1, nfamPerFault = 1;
  FOpt fo;
  template<class A> void io(A& a) { a("env", env)("fam", fam)("flt", flt)("nfam", nfam)("nfault", nfault)("nfamPerFault", nfamPerFault)("fo", fo); }
};
static FracCase genFrac()
{
  FracCase c;
  for (int i = 0; i < 6; i++) c.env.push_back(genVal(0));
  c.nfam = G::pct(10) ? 0 : G::sz(1, 3);
  c.nfault = G::pct(20) ? 0 : G::sz(1, 3);
  c.nfamPerFault = G::pct(85) ? c.nfam : G::i(0, 3);
  for (int i = 0; i < c.nfam * 10; i++) c.fam.push_back(genVal(0));
  for (int i = 0; i < c.nfault * (2 + 4 * c.nfamPerFault); i++) c.flt.push_back(genVal(0));
  c.fo = genFOpt();
  // no file of this class can be read back today (two-word tag): half of the cases exercise the text only,
  // so that the rest of the claim keeps being searched while that defect is recorded
  if (G::b()) c.fo.mode = -1;
  return c;
}
static void runFrac(const FracCase& c, Ctx& ctx)
{
  resetGlobals();
  // a fault described for no family writes empty vector records, which have their own reading rule: own class key
  std::string cls = (c.nfault > 0 && c.nfamPerFault == 0) ? "FracEnvironEmptyFault" : "FracEnviron";
  ctx.label("class:" + cls);
  std::unique_ptr<FracEnviron> x(FracEnviron::create(c.env[0], c.env[1], c.env[2], c.env[3], c.env[4], c.env[5]));
  if (!x) { ctx.label("build-refused"); return; }
  for (int k = 0; k < c.nfam; k++)
  {
    const double* f = &c.fam[(size_t)(k * 10)];
    x->addFamily(FracFamily(f[0], f[1], f[2], f[3], f[4], f[5], f[6], f[7], f[8], f[9]));
  }
  int per = 2 + 4 * c.nfamPerFault;
  for (int k = 0; k < c.nfault; k++)
  {
    const double* f = &c.flt[(size_t)(k * per)];
    FracFault ft(f[0], f[1]);
    for (int j = 0; j < c.nfamPerFault; j++) ft.addFaultPerFamily(f[2 + 4 * j], f[3 + 4 * j], f[4 + 4 * j], f[5 + 4 * j]);
    x->addFault(ft);
  }
  bool ok = roundTrip<FracEnviron>(cls, "FracEnviron", "nf_FracEnviron", *x, []() { return new FracEnviron(); },
                                   [](const std::string& p) { return FracEnviron::createFromNF(p, false); },
                                   [cls](const FracEnviron& a, const FracEnviron& b, Ctx& cx) {
                                     auto& ctx = cx;
                                     CHECK_EQ_INT(cls, "nfamilies", a.getNFamilies(), b.getNFamilies());
                                     CHECK_EQ_INT(cls, "nfaults", a.getNFaults(), b.getNFaults());
                                     CHECK_EQ_DBL(cls, "xmax", a.getXmax(), b.getXmax());
                                     CHECK_EQ_DBL(cls, "ymax", a.getYmax(), b.getYmax());
                                     CHECK_EQ_DBL(cls, "deltax", a.getDeltax(), b.getDeltax());
                                     CHECK_EQ_DBL(cls, "deltay", a.getDeltay(), b.getDeltay());
                                     CHECK_EQ_DBL(cls, "mean", a.getMean(), b.getMean());
                                     CHECK_EQ_DBL(cls, "stdev", a.getStdev(), b.getStdev());
                                     for (int k = 0; k < a.getNFamilies(); k++)
                                     {
                                       const FracFamily &fa = a.getFamily(k), &fb = b.getFamily(k);
                                       CHECK_EQ_DBL(cls, "family-orient", fa.getOrient(), fb.getOrient());
                                       CHECK_EQ_DBL(cls, "family-dorient", fa.getDorient(), fb.getDorient());
                                       CHECK_EQ_DBL(cls, "family-theta0", fa.getTheta0(), fb.getTheta0());
                                       CHECK_EQ_DBL(cls, "family-alpha", fa.getAlpha(), fb.getAlpha());
                                       CHECK_EQ_DBL(cls, "family-ratcst", fa.getRatcst(), fb.getRatcst());
                                       CHECK_EQ_DBL(cls, "family-prop1", fa.getProp1(), fb.getProp1());
                                       CHECK_EQ_DBL(cls, "family-prop2", fa.getProp2(), fb.getProp2());
                                       CHECK_EQ_DBL(cls, "family-aterm", fa.getAterm(), fb.getAterm());
                                       CHECK_EQ_DBL(cls, "family-bterm", fa.getBterm(), fb.getBterm());
                                       CHECK_EQ_DBL(cls, "family-range", fa.getRange(), fb.getRange());
                                     }
                                     for (int k = 0; k < a.getNFaults(); k++)
                                     {
                                       const FracFault &fa = a.getFault(k), &fb = b.getFault(k);
                                       CHECK_EQ_DBL(cls, "fault-coord", fa.getCoord(), fb.getCoord());
                                       CHECK_EQ_DBL(cls, "fault-orient", fa.getOrient(), fb.getOrient());
                                       CHECK_EQ_INT(cls, "fault-nfamilies", fa.getNFamilies(), fb.getNFamilies());
                                       for (int j = 0; j < fa.getNFamilies(); j++)
                                       {
                                         CHECK_EQ_DBL(cls, "fault-thetal", fa.getThetal(j), fb.getThetal(j));
                                         CHECK_EQ_DBL(cls, "fault-thetar", fa.getThetar(j), fb.getThetar(j));
                                         CHECK_EQ_DBL(cls, "fault-rangel", fa.getRangel(j), fb.getRangel(j));
                                         CHECK_EQ_DBL(cls, "fault-ranger", fa.getRanger(j), fb.getRanger(j));
                                       }
                                     }
                                     // xextend = xmax + 2 deltax may cancel: the 15 digits are those of its two terms
                                     if (std::fabs(a.getXextend() - b.getXextend()) > 1e-13 * (std::fabs(a.getXmax()) + 2. * std::fabs(a.getDeltax())))
                                     {
                                       ctx.fail(std::string(cls) + ":query:xextend", fmt("xextend: %.17g before, %.17g after reload", a.getXextend(), b.getXextend()));
                                       return false;
                                     }
                                     return true;
                                   }, c.fo, ctx);
  ctx.nontrivial(ok && c.nfam + c.nfault >= 2);
  Hash h;
  h.add(c.nfam).add(c.nfault).add(c.nfamPerFault).add(c.fo.mode);
  for (double v : c.env) h.addq(v);
  for (double v : c.fam) h.addq(v);
  ctx.sig = h.h;
}
VERIF_SUB(frac, FracCase, genFrac, runFrac);

// ====================================================================== anamorphoses =====
struct AnamCase
{
  int kind = 0;   // 0 Hermite, 1 Empirical, 2 DiscreteDD, 3 DiscreteIR
  bool fit = true; // fitted on generated data / parameters given through reset()
  std::vector<double> data;   // fit
  int nbpoly = 5;
  int ndisc = 10;
  std::vector<double> bounds; // 8: pymin,pzmin,pymax,pzmax,aymin,azmin,aymax,azmax
  double coef = 1;            // r / s coefficient
  double mu = 1;
  double sigma2e = TEST;
  std::vector<double> psi;    // hermite coefficients (reset)
  std::vector<double> zd, yd; // empirical discretisation (reset)
  std::vector<double> zcut;   // discrete: cutoffs
  std::vector<double> stats;  // discrete (reset): nclass * nelem
  std::vector<double> pca;    // DD (reset): 2 * ncut*ncut
  std::vector<double> q;      // queries in (0,1): positions in the data / gaussian range
  bool derived = true;        // discrete: also compare the derived mean / variance (a recorded defect lives there)
  FOpt fo;
  template<class A> void io(A& a)
  {
    a("kind", kind)("fit", fit)("data", data)("nbpoly", nbpoly)("ndisc", ndisc)("bounds", bounds)("coef", coef)("mu", mu)("sigma2e", sigma2e)
     ("psi", psi)("zd", zd)("yd", yd)("zcut", zcut)("stats", stats)("pca", pca)("q", q)("derived", derived)("fo", fo);
  }
};
static AnamCase genAnam()
{
  AnamCase c;
  c.kind = G::i(0, 3);
  c.fit = G::pct(60);
  if (c.kind == 2) c.fit = false; // (AnamDiscreteDD::fitFromArray needs a PCA computed on a Db first, else it reads a null matrix: not a reload question)
  int n = G::sz(12, 60);
  double scale = G::pick<double>({1., 1e-3, 1e3, 37.5});
  for (int i = 0; i < n; i++) c.data.push_back(scale * std::exp(G::u(-1.5, 1.5)) * (1. + 1e-3 * i));
  c.nbpoly = G::sz(2, 20);
  c.ndisc = G::sz(3, 30);
  // bounds: ordered y in [-10,10], z positive, optionally NA
  double py0 = G::u(-4., -1.), py1 = G::u(1., 4.), pz0 = genPos(1e-3, 1.), pz1 = pz0 * genPos(10., 1e3);
  c.bounds = {py0, pz0, py1, pz1, py0 - G::u(0., 5.), pz0 * G::u(0.1, 1.), py1 + G::u(0., 5.), pz1 * genPos(1., 10.)};
  if (G::pct(25)) for (auto& b : c.bounds) if (G::pct(30)) b = TEST;
  c.coef = G::pct(40) ? 1. : strtod(fmt("%.15g", G::u(0.05, 1.)).c_str(), nullptr);
  if (G::b() && c.coef < 1) c.coef = G::u(0.05, 1.);
  c.mu = genPos(0.1, 10.);
  c.sigma2e = G::pct(50) ? TEST : genPos(1e-6, 1.);
  for (int i = 0; i < c.nbpoly; i++) c.psi.push_back((i == 0 ? 1. : 1. / (i * i)) * genVal(0) * 1e-0);
  for (auto& v : c.psi) if (std::fabs(v) > 1e6) v = G::r(-5, 5, 8);
  double z = genPos(1e-3, 1.), y = G::u(-4., -3.);
  for (int i = 0; i < c.ndisc; i++)
  {
    c.zd.push_back(z);
    c.yd.push_back(y);
    z += genPos(1e-3, 10.);
    y += G::u(0.01, 0.5);
  }
  int ncut = G::sz(1, 5);
  // cutoffs inside the range of the data, increasing
  std::vector<double> sorted = c.data;
  std::sort(sorted.begin(), sorted.end());
  for (int k = 0; k < ncut; k++)
  {
    double v = sorted[(size_t)((k + 1) * (sorted.size() - 1) / (size_t)(ncut + 1))] * 1.0001;
    if (!c.zcut.empty() && v <= c.zcut.back()) v = c.zcut.back() * 1.01;
    c.zcut.push_back(G::b() ? v : strtod(fmt("%.15g", v).c_str(), nullptr));
  }
  int nclass = ncut + 1;
  for (int i = 0; i < nclass * 6; i++) c.stats.push_back(G::pct(10) ? genVal(0) : genPos(1e-3, 1e3));
  for (int i = 0; i < 2 * ncut * ncut; i++) c.pca.push_back(genVal(0));
  for (int i = 0; i < 8; i++) c.q.push_back(G::u(0.02, 0.98));
  c.derived = G::b();
  c.fo = genFOpt();
  return c;
}
static bool cmpContinuous(const std::string& cls, const AnamContinuous& a, const AnamContinuous& b, Ctx& ctx)
{
  CHECK_EQ_DBL(cls, "azmin", a.getAzmin(), b.getAzmin());
  CHECK_EQ_DBL(cls, "azmax", a.getAzmax(), b.getAzmax());
  CHECK_EQ_DBL(cls, "aymin", a.getAymin(), b.getAymin());
  CHECK_EQ_DBL(cls, "aymax", a.getAymax(), b.getAymax());
  CHECK_EQ_DBL(cls, "pzmin", a.getPzmin(), b.getPzmin());
  CHECK_EQ_DBL(cls, "pzmax", a.getPzmax(), b.getPzmax());
  CHECK_EQ_DBL(cls, "pymin", a.getPymin(), b.getPymin());
  CHECK_EQ_DBL(cls, "pymax", a.getPymax(), b.getPymax());
  CHECK_EQ_DBL(cls, "mean", a.getMean(), b.getMean());
  // (recomputed from the coefficients by AnamHermite: a sum of squares of values rounded to 15 digits)
  if (!eqv(a.getVariance(), b.getVariance(), 1e-12)) { ctx.fail(cls + ":get:variance", fmt("variance: %s before, %s after reload", dstr(a.getVariance()).c_str(), dstr(b.getVariance()).c_str())); return false; }
  return true;
}
// transforms at generated arguments; tolerance: the polynomial / interpolation is Lipschitz in its coefficients
static bool cmpTransforms(const std::string& cls, const AnamContinuous& a, const AnamContinuous& b, const AnamCase& c, double zlo, double zhi, bool alsoRaw, Ctx& ctx)
{
  for (double u : c.q)
  {
    double y = -3.5 + 7. * u;
    double za = 0, zb = 0;
    try { za = a.transformToRawValue(y); } catch (const std::exception&) { ctx.label("query-refused-by-original"); continue; }
    zb = b.transformToRawValue(y);
    double scale = std::max(std::fabs(zlo), std::fabs(zhi));
    // where the transform is extremely steep (extrapolation between two nearly equal bounds) the 15 digits kept for the bounds move
    // the value by slope * 1e-15: the local sensitivity to the argument is part of the tolerance
    double sens = 0;
    try { sens = std::fabs(a.transformToRawValue(y + 1e-14 * std::max(1., std::fabs(y))) - za); } catch (const std::exception&) { sens = 0; }
    if (!std::isfinite(sens)) sens = 0;
    if (!eqv(za, zb, 1e-11) && !(std::fabs(za - zb) <= 1e-11 * scale + 10. * sens))
    {
      ctx.fail(cls + ":query:transformToRawValue", fmt("y=%.17g: z=%.17g before, %.17g after reload", y, za, zb));
      return false;
    }
    if (!alsoRaw) continue;
    double z = zlo + (zhi - zlo) * u;
    double ya = 0, yb = 0;
    try { ya = a.rawToTransformValue(z); } catch (const std::exception&) { ctx.label("query-refused-by-original"); continue; }
    yb = b.rawToTransformValue(z);
    // (the inverse is found iteratively with a stopping rule near 1e-8: compared well above it)
    if (!eqv(ya, yb, 1e-6) && !(std::fabs(ya - yb) <= 1e-6))
    {
      ctx.fail(cls + ":query:rawToTransformValue", fmt("z=%.17g: y=%.17g before, %.17g after reload", z, ya, yb));
      return false;
    }
  }
  return true;
}
static bool cmpDiscrete(const std::string& cls, const AnamDiscrete& a, const AnamDiscrete& b, Ctx& ctx)
{
  CHECK_EQ_INT(cls, "ncut", a.getNCut(), b.getNCut());
  CHECK_EQ_INT(cls, "nclass", a.getNClass(), b.getNClass());
  CHECK_EQ_INT(cls, "nelem", a.getNElem(), b.getNElem());
  if (!sameVecD(cls, "zcut", a.getZCut(), b.getZCut(), ctx)) return false;
  for (int i = 0; i < a.getNClass(); i++)
    for (int j = 0; j < a.getNElem(); j++) CHECK_EQ_DBL(cls, "stats", a.getStats().getValue(i, j), b.getStats().getValue(i, j));
  return true;
}
static void runAnam(const AnamCase& c, Ctx& ctx)
{
  resetGlobals();
  ctx.label(c.fit ? "built:fit" : "built:reset");
  Hash h;
  h.add(c.kind).add(c.fit ? 1 : 0).add(c.fo.mode);
  double zlo = *std::min_element(c.data.begin(), c.data.end()), zhi = *std::max_element(c.data.begin(), c.data.end());
  const std::vector<double>& B = c.bounds;
  bool ok = false;
  if (c.kind == 0)
  {
    std::unique_ptr<AnamHermite> x(AnamHermite::create(c.nbpoly, true, 1.));
    ctx.at("AnamHermite:build");
    if (c.fit)
    {
      if (x->fitFromArray(toVD(c.data)) != 0) { ctx.label("build-refused"); return; }
      if (c.coef < 1.) x->setRCoef(c.coef);
    }
    else
      x->reset(B[0], B[1], B[2], B[3], B[4], B[5], B[6], B[7], c.coef, toVD(c.psi));
    // a point -> block coefficient r < 1 has its own class key (the coefficients are written already multiplied by r^n)
    const std::string cls = x->getRCoef() < 1. ? "AnamHermiteBlock" : "AnamHermite";
    ctx.label("class:" + cls);
    h.add(x->getNbPoly()).addq(x->getRCoef());
    for (double v : x->getPsiHns()) h.addq(v);
    ok = roundTrip<AnamHermite>(cls, "AnamHermite", "nf_AnamHermite", *x, []() { return new AnamHermite(); },
                                [](const std::string& p) { return AnamHermite::createFromNF(p, false); },
                                [&](const AnamHermite& a, const AnamHermite& b, Ctx& cx) {
                                  auto& ctx = cx;
                                  if (!cmpContinuous(cls, a, b, cx)) return false;
                                  CHECK_EQ_INT(cls, "nbpoly", a.getNbPoly(), b.getNbPoly());
                                  CHECK_EQ_DBL(cls, "rcoef", a.getRCoef(), b.getRCoef());
                                  {
                                    // coefficient n is returned multiplied by r^n: (n+1) roundings of 15 digits
                                    VectorDouble pa = a.getPsiHns(), pb = b.getPsiHns();
                                    if (pa.size() != pb.size()) { cx.fail(cls + ":get:psihn", "numbers of coefficients differ"); return false; }
                                    for (size_t ih = 0; ih < pa.size(); ih++)
                                      if (!eqv(pa[ih], pb[ih], kRel * (double)(ih + 2)))
                                      {
                                        cx.fail(cls + ":get:psihn", fmt("psihn[%d]: %.17g before, %.17g after reload", (int)ih, pa[ih], pb[ih]));
                                        return false;
                                      }
                                  }
                                  double lo = zlo, hi = zhi;
                                  if (!c.fit) { lo = 0; hi = 0; for (double v : a.getPsiHns()) hi += std::fabs(v) * 50.; }
                                  return cmpTransforms(cls, a, b, c, lo, hi, c.fit, cx);
                                }, c.fo, ctx);
    ctx.nontrivial(ok && x->getNbPoly() >= 2 && x->getRCoef() < 1.);
  }
  else if (c.kind == 1)
  {
    ctx.label("class:AnamEmpirical");
    std::unique_ptr<AnamEmpirical> x(AnamEmpirical::create(c.ndisc, c.sigma2e));
    ctx.at("AnamEmpirical:build");
    if (c.fit)
    {
      if (x->fitFromArray(toVD(c.data)) != 0) { ctx.label("build-refused"); return; }
    }
    else
      x->reset(c.ndisc, B[0], B[1], B[2], B[3], B[4], B[5], B[6], B[7], c.sigma2e, toVD(c.zd), toVD(c.yd));
    h.add(x->getNDisc()).addq(x->getSigma2e());
    for (double v : x->getZDisc()) h.addq(v);
    ok = roundTrip<AnamEmpirical>("AnamEmpirical", "AnamEmpirical", "nf_AnamEmpirical", *x, []() { return new AnamEmpirical(); },
                                  [](const std::string& p) { return AnamEmpirical::createFromNF(p, false); },
                                  [&](const AnamEmpirical& a, const AnamEmpirical& b, Ctx& cx) {
                                    auto& ctx = cx;
                                    if (!cmpContinuous("AnamEmpirical", a, b, cx)) return false;
                                    CHECK_EQ_INT("AnamEmpirical", "ndisc", a.getNDisc(), b.getNDisc());
                                    CHECK_EQ_DBL("AnamEmpirical", "sigma2e", a.getSigma2e(), b.getSigma2e());
                                    if (!sameVecD("AnamEmpirical", "zdisc", a.getZDisc(), b.getZDisc(), cx)) return false;
                                    if (!sameVecD("AnamEmpirical", "ydisc", a.getYDisc(), b.getYDisc(), cx)) return false;
                                    double lo = zlo, hi = zhi;
                                    if (!c.fit) { lo = c.zd.front(); hi = c.zd.back(); }
                                    return cmpTransforms("AnamEmpirical", a, b, c, lo, hi, true, cx);
                                  }, c.fo, ctx);
    ctx.nontrivial(ok && x->getNDisc() >= 2);
  }
  else if (c.kind == 2)
  {
    ctx.label("class:AnamDiscreteDD");
    std::unique_ptr<AnamDiscreteDD> x(AnamDiscreteDD::create(c.mu, c.coef < 1. ? c.coef : 0.));
    int ncut = (int)c.zcut.size();
    ctx.at("AnamDiscreteDD:build");
    if (c.fit)
    {
      x->setZCut(toVD(c.zcut));
      (void)x->fitFromArray(toVD(c.data));
    }
    else
    {
      MatrixSquareGeneral z2f(ncut), f2z(ncut);
      for (int i = 0; i < ncut; i++)
        for (int j = 0; j < ncut; j++) { z2f.setValue(i, j, c.pca[(size_t)(i * ncut + j)]); f2z.setValue(i, j, c.pca[(size_t)(ncut * ncut + i * ncut + j)]); }
      int nelem = x->getNElem();
      VectorDouble st;
      for (int i = 0; i < (ncut + 1) * nelem; i++) st.push_back(c.stats[(size_t)i % c.stats.size()]);
      x->reset(ncut, c.coef < 1. ? c.coef : 0., c.mu, toVD(c.zcut), z2f, f2z, st);
    }
    h.add(ncut).addq(x->getMu()).addq(x->getSCoef());
    for (double v : c.zcut) h.addq(v);
    ok = roundTrip<AnamDiscreteDD>("AnamDiscreteDD", "AnamDiscreteDD", "nf_AnamDiscreteDD", *x, []() { return new AnamDiscreteDD(); },
                                   [](const std::string& p) { return AnamDiscreteDD::createFromNF(p, false); },
                                   [&](const AnamDiscreteDD& a, const AnamDiscreteDD& b, Ctx& cx) {
                                     auto& ctx = cx;
                                     if (!cmpDiscrete("AnamDiscreteDD", a, b, cx)) return false;
                                     CHECK_EQ_DBL("AnamDiscreteDD", "scoef", a.getSCoef(), b.getSCoef());
                                     CHECK_EQ_DBL("AnamDiscreteDD", "mu", a.getMu(), b.getMu());
                                     MatrixSquareGeneral az = a.getPcaZ2Fs(), bz = b.getPcaZ2Fs(), af = a.getPcaF2Zs(), bf = b.getPcaF2Zs();
                                     CHECK_EQ_INT("AnamDiscreteDD", "pca-size", az.getNRows(), bz.getNRows());
                                     for (int i = 0; i < az.getNRows(); i++)
                                       for (int j = 0; j < az.getNCols(); j++)
                                       {
                                         CHECK_EQ_DBL("AnamDiscreteDD", "pca-z2f", az.getValue(i, j), bz.getValue(i, j));
                                         CHECK_EQ_DBL("AnamDiscreteDD", "pca-f2z", af.getValue(i, j), bf.getValue(i, j));
                                       }
                                     return true;
                                   }, c.fo, ctx);
    if (ok && c.derived)
    {
      // derived statistics, checked last (a recorded defect lives here: they are not recomputed on reload)
      std::string s1;
      AnamDiscreteDD y;
      if (ser(*x, s1) && deser(y, s1))
      {
        if (!eqv(x->getMean(), y.getMean(), 1e-12)) ctx.fail("AnamDiscreteDD:query:mean", fmt("mean: %s before, %s after reload", dstr(x->getMean()).c_str(), dstr(y.getMean()).c_str()));
        else if (!eqv(x->getVariance(), y.getVariance(), 1e-11)) ctx.fail("AnamDiscreteDD:query:variance", fmt("variance: %s before, %s after reload", dstr(x->getVariance()).c_str(), dstr(y.getVariance()).c_str()));
      }
    }
    ctx.nontrivial(ok && ncut >= 2);
  }
  else
  {
    ctx.label("class:AnamDiscreteIR");
    std::unique_ptr<AnamDiscreteIR> x(AnamDiscreteIR::create(c.coef < 1. ? c.coef : 0.));
    int ncut = (int)c.zcut.size();
    ctx.at("AnamDiscreteIR:build");
    if (c.fit)
    {
      x->setZCut(toVD(c.zcut));
      (void)x->fitFromArray(toVD(c.data));
    }
    else
    {
      int nelem = x->getNElem();
      VectorDouble st;
      for (int i = 0; i < (ncut + 1) * nelem; i++) st.push_back(c.stats[(size_t)i % c.stats.size()]);
      x->reset(ncut, c.coef < 1. ? c.coef : 0., toVD(c.zcut), st);
    }
    h.add(ncut).addq(x->getRCoef());
    for (double v : c.zcut) h.addq(v);
    ok = roundTrip<AnamDiscreteIR>("AnamDiscreteIR", "AnamDiscreteIR", "nf_AnamDiscreteIR", *x, []() { return new AnamDiscreteIR(); },
                                   [](const std::string& p) { return AnamDiscreteIR::createFromNF(p, false); },
                                   [&](const AnamDiscreteIR& a, const AnamDiscreteIR& b, Ctx& cx) {
                                     auto& ctx = cx;
                                     if (!cmpDiscrete("AnamDiscreteIR", a, b, cx)) return false;
                                     CHECK_EQ_DBL("AnamDiscreteIR", "rcoef", a.getRCoef(), b.getRCoef());
                                     // behaviour: factors of generated grades
                                     VectorInt ifacs;
                                     for (int k = 1; k <= a.getNCut(); k++) ifacs.push_back(k);
                                     for (double u : c.q)
                                     {
                                       double z = zlo + (zhi - zlo) * u;
                                       if (!sameVecD("AnamDiscreteIR", "z2factor", a.z2factor(z, ifacs), b.z2factor(z, ifacs), cx, ":query:", 1e-12)) return false;
                                     }
                                     return true;
                                   }, c.fo, ctx);
    if (ok && c.derived)
    {
      // derived statistics, checked last (a recorded defect lives here: they are not recomputed on reload)
      std::string s1;
      AnamDiscreteIR y;
      if (ser(*x, s1) && deser(y, s1))
      {
        if (!eqv(x->getMean(), y.getMean(), 1e-12)) ctx.fail("AnamDiscreteIR:query:mean", fmt("mean: %s before, %s after reload", dstr(x->getMean()).c_str(), dstr(y.getMean()).c_str()));
        else if (!eqv(x->getVariance(), y.getVariance(), 1e-11)) ctx.fail("AnamDiscreteIR:query:variance", fmt("variance: %s before, %s after reload", dstr(x->getVariance()).c_str(), dstr(y.getVariance()).c_str()));
      }
    }
    ctx.nontrivial(ok && ncut >= 2);
  }
  ctx.sig = h.h;
}
VERIF_SUB(anam, AnamCase, genAnam, runAnam);

// ====================================================================== lithotype rules ==
struct RuleCase
{
  int kind = 0; // 0 Rule, 1 RuleShift, 2 RuleShadow
  std::vector<std::string> nodes; // prefix description: "S" (threshold on Y1), "T" (on Y2), "F<k>"
  double rho = 0;
  std::vector<double> shift; // 2 or 3
  double slope = 0, dsup = 0, down = 0;
  std::vector<double> props; // one weight per facies
  std::vector<double> gaus;  // queries: pairs (y1,y2)
  FOpt fo;
  template<class A> void io(A& a)
  {
    a("kind", kind)("nodes", nodes)("rho", rho)("shift", shift)("slope", slope)("dsup", dsup)("down", down)("props", props)("gaus", gaus)("fo", fo);
  }
};
static void genTree(std::vector<std::string>& out, int depth, int& nfac, bool onlyS)
{
  bool leaf = depth >= 3 || (depth > 0 && G::pct(40)) || nfac >= 7;
  if (leaf)
  {
    nfac++;
    out.push_back(fmt("F%d", nfac));
    return;
  }
  out.push_back((onlyS || G::b()) ? "S" : "T");
  genTree(out, depth + 1, nfac, onlyS);
  genTree(out, depth + 1, nfac, onlyS);
}
static RuleCase genRule()
{
  RuleCase c;
  c.kind = G::pick<int>({0, 0, 1, 2});
  int nfac = 0;
  if (c.kind == 2) { c.nodes = {"S", "T", "F1", "F2", "F3"}; nfac = 3; }
  else genTree(c.nodes, 0, nfac, c.kind == 1);
  c.rho = (c.kind == 0 && G::pct(50)) ? strtod(fmt("%.15g", G::u(-0.9, 0.9)).c_str(), nullptr) : 0.;
  if (c.kind == 0 && G::pct(30)) c.rho = G::u(-0.9, 0.9);
  int ns = G::i(2, 3);
  for (int i = 0; i < ns; i++) c.shift.push_back(i == 0 ? genPos(0.1, 100.) : genVal(0));
  for (auto& v : c.shift) if (std::fabs(v) > 1e6) v = 1.5;
  c.slope = genPos(0.1, 80.);
  c.dsup = genPos(1e-3, 100.);
  c.down = genPos(1e-3, 100.);
  for (int i = 0; i < nfac; i++) c.props.push_back(G::u(0.05, 1.));
  for (int i = 0; i < 16; i++) c.gaus.push_back(G::u(-3., 3.));
  c.fo = genFOpt();
  return c;
}
static bool cmpRuleBase(const std::string& cls, const Rule& a, const Rule& b, const RuleCase& c, Ctx& ctx)
{
  CHECK_EQ_INT(cls, "mode", a.getModeRule().getValue(), b.getModeRule().getValue());
  CHECK_EQ_DBL(cls, "rho", a.getRho(), b.getRho());
  CHECK_EQ_INT(cls, "nfacies", a.getFaciesNumber(), b.getFaciesNumber());
  CHECK_EQ_INT(cls, "ngrf", a.getGRFNumber(), b.getGRFNumber());
  CHECK_EQ_INT(cls, "ny1", a.getY1Number(), b.getY1Number());
  CHECK_EQ_INT(cls, "ny2", a.getY2Number(), b.getY2Number());
  // behaviour: same proportions (they have no slot in the format) then facies of generated gaussian pairs
  VectorDouble props;
  double tot = 0;
  int nf = a.getFaciesNumber();
  for (int i = 0; i < nf; i++) tot += c.props[(size_t)i % c.props.size()];
  for (int i = 0; i < nf; i++) props.push_back(c.props[(size_t)i % c.props.size()] / tot);
  int ra = a.setProportions(props), rb = b.setProportions(props);
  CHECK_EQ_INT(cls, "setProportions", ra, rb);
  if (ra != 0) return true;
  for (size_t q = 0; q + 1 < c.gaus.size(); q += 2)
    if (a.getFaciesFromGaussian(c.gaus[q], c.gaus[q + 1]) != b.getFaciesFromGaussian(c.gaus[q], c.gaus[q + 1]))
    {
      ctx.fail(cls + ":query:facies-from-gaussian", fmt("(y1,y2)=(%.17g,%.17g): facies %d before, %d after reload", c.gaus[q], c.gaus[q + 1],
                                                        a.getFaciesFromGaussian(c.gaus[q], c.gaus[q + 1]), b.getFaciesFromGaussian(c.gaus[q], c.gaus[q + 1])));
      return false;
    }
  for (int f = 1; f <= nf; f++)
    if (!sameVecD(cls, "thresholds", a.getThresh(f), b.getThresh(f), ctx, ":query:", 1e-9)) return false;
  return true;
}
static void runRule(const RuleCase& c, Ctx& ctx)
{
  resetGlobals();
  Hash h;
  h.add(c.kind).add(c.fo.mode).addq(c.rho);
  for (auto& n : c.nodes) h.add(n);
  bool ok = false;
  int nfac = 0;
  for (auto& n : c.nodes) if (n[0] == 'F') nfac++;
  if (c.kind == 0)
  {
    ctx.label("class:Rule");
    ctx.at("Rule:build");
    std::unique_ptr<Rule> x(Rule::createFromNames(toVS(c.nodes), c.rho));
    if (!x || x->getMainNode() == nullptr) { ctx.label("build-refused"); return; }
    ok = roundTrip<Rule>("Rule", "Rule", "nf_Rule", *x, []() { return new Rule(); }, [](const std::string& p) { return Rule::createFromNF(p, false); },
                         [&](const Rule& a, const Rule& b, Ctx& cx) { return cmpRuleBase("Rule", a, b, c, cx); }, c.fo, ctx);
    ctx.nontrivial(ok && nfac >= 3 && c.rho != 0);
  }
  else if (c.kind == 1)
  {
    ctx.label("class:RuleShift");
    ctx.at("RuleShift:build");
    std::unique_ptr<RuleShift> x(RuleShift::createFromNames(toVS(c.nodes), toVD(c.shift)));
    if (!x || x->getMainNode() == nullptr) { ctx.label("build-refused"); return; }
    for (double v : c.shift) h.addq(v);
    ok = roundTrip<RuleShift>("RuleShift", "RuleShift", nullptr, *x, []() { return new RuleShift(); },
                              [](const std::string& p) { return loadByTag<RuleShift>(ASerializable::buildFileName(1, p), "RuleShift"); },
                              [&](const RuleShift& a, const RuleShift& b, Ctx& cx) {
                                auto& ctx = cx;
                                CHECK_EQ_DBL("RuleShift", "slope", a.getSlope(), b.getSlope());
                                CHECK_EQ_DBL("RuleShift", "shdown", a.getShDown(), b.getShDown());
                                CHECK_EQ_DBL("RuleShift", "shdsup", a.getShDsup(), b.getShDsup());
                                for (size_t i = 0; i < a.getShift().size(); i++) CHECK_EQ_DBL("RuleShift", "shift", a.getShift((int)i), b.getShift((int)i));
                                return cmpRuleBase("RuleShift", a, b, c, cx);
                              }, c.fo, ctx);
    ctx.nontrivial(ok && nfac >= 2);
  }
  else
  {
    ctx.label("class:RuleShadow");
    ctx.at("RuleShadow:build");
    std::unique_ptr<RuleShadow> x(new RuleShadow(c.slope, c.dsup, c.down, toVD(c.shift)));
    h.addq(c.slope).addq(c.dsup).addq(c.down);
    for (double v : c.shift) h.addq(v);
    ok = roundTrip<RuleShadow>("RuleShadow", "RuleShadow", nullptr, *x, []() { return new RuleShadow(); },
                               [](const std::string& p) { return loadByTag<RuleShadow>(ASerializable::buildFileName(1, p), "RuleShadow"); },
                               [&](const RuleShadow& a, const RuleShadow& b, Ctx& cx) {
                                 auto& ctx = cx;
                                 CHECK_EQ_DBL("RuleShadow", "slope", a.getSlope(), b.getSlope());
                                 CHECK_EQ_DBL("RuleShadow", "shdown", a.getShDown(), b.getShDown());
                                 CHECK_EQ_DBL("RuleShadow", "shdsup", a.getShDsup(), b.getShDsup());
                                 for (size_t i = 0; i < a.getShift().size(); i++) CHECK_EQ_DBL("RuleShadow", "shift", a.getShift((int)i), b.getShift((int)i));
                                 return cmpRuleBase("RuleShadow", a, b, c, cx);
                               }, c.fo, ctx);
    ctx.nontrivial(ok);
  }
  ctx.sig = h.h;
}
VERIF_SUB(rule, RuleCase, genRule, runRule);

// ====================================================================== grid exchange formats
struct GridFmtCase
{
  int fmt = 0; // 0 Zycor (2-D, not rotated, one variable), 1 IfpEn (2-D/3-D, rotation about z)
  GridGeom g;
  int ncol = 1;
  std::vector<double> vals; // ncol * ntot
  template<class A> void io(A& a) { a("fmt", fmt)("g", g)("ncol", ncol)("vals", vals); }
};
static GridFmtCase genGridFmt()
{
  GridFmtCase c;
  c.fmt = G::i(0, 1);
  int ndim = (c.fmt == 0) ? 2 : G::i(2, 3);
  for (int i = 0; i < ndim; i++)
  {
    c.g.nx.push_back(G::sz(2, 5));
    c.g.dx.push_back(G::b() ? G::lu(1e-2, 1e4) : (double)G::i(1, 50) * 0.5);
    c.g.x0.push_back(G::pct(30) ? 0. : G::r(-100000, 100000, 4));
    c.g.angles.push_back(0.);
  }
  if (c.fmt == 1 && G::pct(50)) c.g.angles[0] = G::pick<double>({30., 45., -20., 12.5, 90.});
  c.ncol = (c.fmt == 0) ? 1 : G::i(1, 3);
  int na = G::pick<int>({0, 20});
  for (int i = 0; i < c.ncol * c.g.ntot(); i++)
  {
    double v;
    if (G::pct(na)) v = TEST;
    else switch (G::i(0, 4))
    {
      case 0: v = (double)G::i(-5, 5); break;       // facies-like integers (3 is the IfpEn null value)
      case 1: v = G::lu(1e-20, 1e20) * (G::b() ? 1 : -1); break;
      case 2: v = genFull01(); break;
      case 3: v = G::r(-100, 100, 8); break;
      default: v = 0.; break;
    }
    c.vals.push_back(v);
  }
  return c;
}
// printed precision: "%g"-like, 6 significant digits
static bool eq6(double a, double b) { return eqv(a, b, 1e-5); }
static void runGridFmt(const GridFmtCase& c, Ctx& ctx)
{
  resetGlobals(c.g.ndim());
  // several variables in one IfpEn file have their own class key (a recorded defect: read back by sample instead of by column)
  const std::string cls = c.fmt == 0 ? "GridZycor" : (c.ncol > 1 ? "GridIfpEnMulti" : "GridIfpEn");
  ctx.label("class:" + cls);
  VectorString names;
  for (int k = 0; k < c.ncol; k++) names.push_back(fmt("v%d", k + 1));
  ctx.at(cls + ":build");
  std::unique_ptr<DbGrid> x(DbGrid::create(toVI(c.g.nx), toVD(c.g.dx), toVD(c.g.x0), toVD(c.g.angles), ELoadBy::COLUMN, toVD(c.vals), names, VectorString(), false, false));
  if (!x || x->getColumnNumber() != c.ncol) { ctx.label("build-refused"); return; }
  std::string path = scratchDir() + "/grid." + (c.fmt == 0 ? "zyc" : "ifp");
  unlink(path.c_str());
  VectorInt cols;
  for (int k = 0; k < c.ncol; k++) cols.push_back(x->getUIDByColIdx(k));
  std::unique_ptr<DbGrid> y;
  ctx.at(cls + ":write");
  bool threeIsNull = false;
  if (c.fmt == 0)
  {
    GridZycor w(path.c_str(), x.get());
    w.setCols(cols);
    if (!w.isAuthorized()) { ctx.label("not-authorized"); return; }
    if (w.writeInFile() != 0) { ctx.fail(cls + ":write", "writeInFile failed on an authorised grid"); return; }
    ctx.at(cls + ":read");
    GridZycor r(path.c_str());
    y.reset(r.readGridFromFile());
  }
  else
  {
    GridIfpEn w(path.c_str(), x.get());
    w.setCols(cols);
    if (!w.isAuthorized()) { ctx.label("not-authorized"); return; }
    if (w.writeInFile() != 0) { ctx.fail(cls + ":write", "writeInFile failed on an authorised grid"); return; }
    ctx.at(cls + ":read");
    GridIfpEn r(path.c_str());
    y.reset(r.readGridFromFile());
    threeIsNull = true;
  }
  std::string content;
  if (readFile(path, content)) dumpSeed(c.fmt == 0 ? "zycor" : "ifpen", content);
  unlink(path.c_str());
  if (!y) { ctx.fail(cls + ":read", "the reader refused the file written by the writer"); return; }
  // geometry (the formats describe the horizontal plane; IfpEn always returns a 3-D grid)
  int nd = c.g.ndim();
  if (y->getNDim() < nd && !(c.fmt == 1)) { ctx.fail(cls + ":geometry:ndim", fmt("space dimension %d before, %d after", nd, y->getNDim())); return; }
  for (int i = 0; i < std::min(nd, y->getNDim()); i++)
  {
    if (x->getNX(i) != y->getNX(i)) { ctx.fail(cls + ":geometry:nx", fmt("axis %d: %d nodes before, %d after", i, x->getNX(i), y->getNX(i))); return; }
    if (i >= 2) continue; // the vertical mesh and origin have no slot in IfpEn
    // Zycor prints the origin and the far corner with 6 decimals: dx = (xf - x0)/(nx-1)
    double tolx0 = (c.fmt == 0) ? 1e-6 : 1e-5 * std::fabs(x->getX0(i));
    double toldx = (c.fmt == 0) ? 2e-6 / (x->getNX(i) - 1) : 1e-5 * x->getDX(i);
    if (std::fabs(x->getX0(i) - y->getX0(i)) > tolx0) { ctx.fail(cls + ":geometry:x0", fmt("axis %d: origin %.17g before, %.17g after", i, x->getX0(i), y->getX0(i))); return; }
    if (std::fabs(x->getDX(i) - y->getDX(i)) > toldx) { ctx.fail(cls + ":geometry:dx", fmt("axis %d: mesh %.17g before, %.17g after", i, x->getDX(i), y->getDX(i))); return; }
  }
  if (c.fmt == 1 && !eq6(x->getAngle(0), y->getAngle(0))) { ctx.fail(cls + ":geometry:angle", fmt("angle %.17g before, %.17g after", x->getAngle(0), y->getAngle(0))); return; }
  if (y->getSampleNumber() != x->getSampleNumber()) { ctx.fail(cls + ":geometry:nech", fmt("%d nodes before, %d after", x->getSampleNumber(), y->getSampleNumber())); return; }
  int ncolOut = y->getColumnNumber();
  int firstOut = ncolOut - c.ncol; // readers may add coordinates in front
  if (firstOut < 0) { ctx.fail(cls + ":values:ncol", fmt("%d variables before, %d columns after", c.ncol, ncolOut)); return; }
  for (int k = 0; k < c.ncol; k++)
    for (int ie = 0; ie < x->getSampleNumber(); ie++)
    {
      double a = x->getValueByColIdx(ie, k), b = y->getValueByColIdx(ie, firstOut + k);
      if (eq6(a, b)) continue;
      if (threeIsNull && !isNAv(a) && std::fabs(a - 3.) < 1e-5 && isNAv(b))
      {
        ctx.fail("ifpen-value-3-is-null:" + cls, fmt("node %d variable %d: %.17g before, NA after (the writer declares FLOAT_NULL_VALUE 3 but writes NA as 1.234e+30)", ie, k, a));
        return;
      }
      ctx.fail(cls + ":values", fmt("node %d variable %d: %s before, %s after", ie, k, dstr(a).c_str(), dstr(b).c_str()));
      return;
    }
  ctx.nontrivial(c.g.ntot() >= 4);
  Hash h;
  h.add(c.fmt).add(c.ncol);
  gridSig(h, c.g);
  for (double v : c.vals) h.addq(v);
  ctx.sig = h.h;
}
VERIF_SUB(gridfmt, GridFmtCase, genGridFmt, runGridFmt);

VERIF_MAIN()
