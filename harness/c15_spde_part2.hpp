// placeholder
