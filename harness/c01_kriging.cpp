// C01 — kriging output is the solution of the documented (co)kriging system.  DESIGN.md §5 C01.
// Oracle (krig_common.hpp): Sigma, X, Sigma0, X0, sigma00 assembled from Model::eval (plain bi-point evaluation
// on a Model the library never sees) and the harness's own drift monomials over exactly the neighbourhood
// samples (neighbourhood = definition of C06), solved in long double with Eigen full-pivot LU.  Checks:
// estim / stdev / varz of kriging() against the oracle (kappa-scaled), residual of krigtest().wgt and .zam in
// the oracle's system, krigtest().var / nbgh (and lhs / rhs in the sub-property krigtest_fields).
#include "verif.hpp"
#include "geo_common.hpp"
#include "krig_common.hpp"
#include "Matrix/MatrixRectangular.hpp"

using namespace vf;
using namespace vfkrig;

struct RunOpt
{
  bool fields = false;   // also compare krigtest().lhs / .rhs and the meaning of iech0 = 0
  bool rotateBlocks = true;
};

// debugging aid (C01_DEBUG=1): let the library's messages through
static void dbgMsg(const char* s) { vf::diag(std::string("LIB: ") + s); }
static void dbgOn()
{
  if (getenv("C01_DEBUG")) { redefine_message(dbgMsg); redefine_error(dbgMsg); }
}
static std::string topo(const KCase& c) { return c.heterotopic() ? "heterotopic" : "isotopic"; }

// library matrix -> long double matrix
template<class M> static MatL toL(const M& m)
{
  MatL r(m.getNRows(), m.getNCols());
  for (int i = 0; i < m.getNRows(); i++)
    for (int j = 0; j < m.getNCols(); j++) r(i, j) = (LD)m.getValue(i, j);
  return r;
}
static LD maxAbs(const MatL& m)
{
  LD s = 0;
  for (int i = 0; i < m.rows(); i++)
    for (int j = 0; j < m.cols(); j++) s = std::max(s, fabsl(m(i, j)));
  return s;
}
static std::string setText(const std::vector<int>& v)
{
  std::string s = "{";
  for (size_t i = 0; i < v.size() && i < 30; i++) s += (i ? "," : "") + std::to_string(v[i]);
  return s + (v.size() > 30 ? ",...}" : "}");
}

static void runC01(const KCase& c, Ctx& ctx, const RunOpt& ro)
{
  labelCase(c, ctx);
  ctx.sig = signature(c);
  World w;
  if (!buildWorld(c, w, ctx)) return;
  std::string V = c.variant();
  int nt = c.ntarg(), nv = c.nvar;

  // the oracle's own model (never given to the library)
  Ctx dummy;
  std::unique_ptr<Model> om = buildModel(c, dummy);
  if (!om) { ctx.fail("harness:model", "second model construction failed"); return; }
  om->setField(Oracle::fieldOf(c, w.dbout.get()));
  Oracle orc(c, om.get());
  double eta = etaIn(c);

  bool wantVarz = c.flagVarz != 0;
  KOut out = runKriging(c, w, ctx, wantVarz);
  if (out.err != 0) { ctx.fail(c.key("kriging-error"), "kriging() returns an error on a valid configuration"); return; }
  if (!out.cols) { ctx.fail(c.key("kriging-columns"), "kriging() did not create the documented result columns Kriging.<var>.estim/stdev/varz"); return; }

  int nChecked = 0, nIll = 0, maxNb = 0, nNaT = 0;
  double kapMax = 0;
  std::string deferredKey, deferredMsg;
  for (int k = 0; k < nt; k++)
  {
    TargetGeom g = orc.geom(k, w, ro.rotateBlocks);
    NbRef nr = refNeigh(c, g.x0.data());
    if (!c.ftdef(k))
    {
      // no drift value at the target: there is no kriging system, hence no estimate
      ctx.label("target:undefined-extdrift");
      for (int tv = 0; tv < nv; tv++)
      {
        double e = out.estim[(size_t)(k * nv + tv)], s = out.stdev[(size_t)(k * nv + tv)];
        if ((!isNA(e) || !isNA(s)) && deferredKey.empty())
        {
          // reported after the other targets have been checked (recorded finding: the search goes on behind it)
          deferredKey = c.key("extdrift-undefined-target");
          deferredMsg = fmt("target %d has an undefined external drift but gets estim %.12g stdev %.12g instead of undefined values", k, e, s);
        }
      }
      nNaT++;
      continue;
    }
    if (nr.ambiguous) { ctx.label("target:ambiguous-neigh"); continue; }
    if (nr.empty()) { ctx.label("target:empty-neigh"); continue; }

    // ---- krigtest on this target (iech0 = 0 means "all targets, report the last one": only usable when nt == 1)
    bool haveKt = (k >= 1 || nt == 1);
    Krigtest_Res kt;
    std::vector<int> nbUse = nr.nb;
    if (haveKt)
    {
      kt = runKrigtest(c, w, ctx, k);
      std::vector<int> nbl;
      for (int i : kt.nbgh) nbl.push_back(i);
      std::vector<int> sorted = nbl;
      std::sort(sorted.begin(), sorted.end());
      if (sorted != nr.nb)
      {
        ctx.fail(c.key("nbgh"), fmt("target %d: krigtest().nbgh = %s, neighbourhood by definition = %s", k, setText(sorted).c_str(), setText(nr.nb).c_str()));
        return;
      }
      nbUse = nbl;
    }
    Sys S;
    orc.solve(k, g, nbUse, S);
    maxNb = std::max(maxNb, (int)nbUse.size());
    kapMax = std::max(kapMax, S.solved ? S.kappa : 1e300);
    if (!S.solved || !(S.kappa <= kKappaMax))
    {
      nIll++;
      if (!S.solved && getenv("C01_DEBUG")) diag(fmt("SING ndim %d nvar %d order %d nfex %d n %d moving %d nmaxi %d radius %d nb %d nu %d nfeq %d het %d kappa %g", c.ndim, c.nvar, c.order, c.nfex, c.n(), c.moving, c.nmaxi, c.hasRadius, (int)nbUse.size(), S.nu, S.nfeq, (int)c.heterotopic(), S.kappa));
      if (!S.solved) ctx.label(S.nu < S.nfeq ? "singular:fewer-data-than-drift-eq" : (S.nu < S.nfeq + nv ? "singular:barely-enough-data" : "singular:other"));
      continue;
    }
    double ek = epsK(S.kappa, eta);
    double er = std::max(1e-9, ek);
    nChecked++;

    // ---- kriging() outputs
    for (int tv = 0; tv < nv; tv++)
    {
      double e = out.estim[(size_t)(k * nv + tv)], s = out.stdev[(size_t)(k * nv + tv)];
      LD tolE = (LD)ek * S.scaleE[(size_t)tv] + floorE(S, eta);
      if (isNA(e) || std::isnan(e))
      {
        ctx.fail(c.key("estim-na"), fmt("target %d var %d: estimate undefined (%g) although the system is regular (kappa %.3g, %d unknowns); oracle %.12Lg", k, tv, e, S.kappa, S.N, S.estim[(size_t)tv]));
        return;
      }
      if (fabsl((LD)e - S.estim[(size_t)tv]) > tolE)
      {
        ctx.fail(c.key("estim"), fmt("target %d var %d: estim %.15g, oracle %.15Lg (diff %.3Lg, tol %.3Lg, kappa %.3g, N %d, %s)", k, tv, e, S.estim[(size_t)tv], fabsl((LD)e - S.estim[(size_t)tv]), tolE, S.kappa, S.N, topo(c).c_str()));
        return;
      }
      LD tolV = (LD)ek * S.scaleV[(size_t)tv] + floorV(S, eta, tv);
      LD vo = std::max((LD)0, S.var[(size_t)tv]);
      if (isNA(s) || std::isnan(s) || s < 0)
      {
        ctx.fail(c.key("stdev-na"), fmt("target %d var %d: stdev %g although the system is regular (kappa %.3g); oracle variance %.12Lg", k, tv, s, S.kappa, S.var[(size_t)tv]));
        return;
      }
      if (fabsl((LD)s * s - vo) > tolV)
      {
        ctx.fail(c.key("stdev"), fmt("target %d var %d: stdev^2 %.15g, oracle variance %.15Lg (diff %.3Lg, tol %.3Lg, kappa %.3g, sigma00 %.12Lg, %s)", k, tv, s * s, S.var[(size_t)tv], fabsl((LD)s * s - vo), tolV, S.kappa, S.C00(tv, tv), topo(c).c_str()));
        return;
      }
      if (wantVarz)
      {
        double z = out.varz[(size_t)(k * nv + tv)];
        if (isNA(z) || std::isnan(z) || fabsl((LD)z - S.varz[(size_t)tv]) > tolV)
        {
          ctx.fail(c.key("varz"), fmt("target %d var %d: varz %.15g, oracle %.15Lg (tol %.3Lg, kappa %.3g)", k, tv, z, S.varz[(size_t)tv], tolV, S.kappa));
          return;
        }
      }
    }

    // ---- krigtest() outputs
    if (!haveKt) continue;
    if (kt.wgt.getNRows() != S.N || kt.wgt.getNCols() != nv || kt.zam.getNRows() != S.N || kt.zam.getNCols() != 1 ||
        kt.var.getNRows() != nv || kt.nech != S.N || kt.neq != nv * (int)nbUse.size() + S.nfeq)
    {
      ctx.fail(c.key("krigtest-dims"), fmt("target %d: wgt %dx%d zam %dx%d nech %d neq %d; expected %d reduced equations, %d full", k, kt.wgt.getNRows(), kt.wgt.getNCols(), kt.zam.getNRows(), kt.zam.getNCols(), kt.nech, kt.neq, S.N, nv * (int)nbUse.size() + S.nfeq));
      return;
    }
    MatL W = toL(kt.wgt), Z = toL(kt.zam);
    MatL R = S.A * W - S.B;
    for (int tv = 0; tv < nv; tv++)
    {
      LD res = R.col(tv).cwiseAbs().maxCoeff();
      LD bound = (LD)er * (S.normA * W.col(tv).cwiseAbs().maxCoeff() + S.B.col(tv).cwiseAbs().maxCoeff()) +
                 (LD)epsIn(eta) * (LD)S.covScale * ((LD)1 + W.col(tv).cwiseAbs().sum());
      if (!(res <= bound))
      {
        int rmax = 0;
        R.col(tv).cwiseAbs().maxCoeff(&rmax);
        ctx.fail(c.key("wgt-residual"), fmt("target %d var %d: |A w - b| = %.3Lg at row %d (%s) > %.3Lg (kappa %.3g, N %d, %s); max|w - oracle| = %.3Lg", k, tv, res, rmax, rmax < S.nu ? "covariance" : "drift", bound, S.kappa, S.N, topo(c).c_str(), (W.col(tv) - S.sol.col(tv)).cwiseAbs().maxCoeff()));
        return;
      }
    }
    {
      MatL Rz = S.A * Z - S.zext;
      LD res = Rz.cwiseAbs().maxCoeff();
      LD bound = (LD)er * (S.normA * Z.cwiseAbs().maxCoeff() + S.zext.cwiseAbs().maxCoeff()) + (LD)epsIn(eta) * (LD)S.covScale * Z.cwiseAbs().sum();
      if (!(res <= bound))
      {
        ctx.fail(c.key("zam-residual"), fmt("target %d: |A zam - (z - m)| = %.3Lg > %.3Lg (kappa %.3g, %s)", k, res, bound, S.kappa, topo(c).c_str()));
        return;
      }
    }
    {
      MatL C = toL(kt.var);
      LD tol = std::max((LD)1e-9, (LD)10 * eta) * std::max((LD)1e-300, maxAbs(S.C00));
      for (int a = 0; a < nv; a++)
        for (int b = 0; b < nv; b++)
          if (!(fabsl(C(a, b) - S.C00(a, b)) <= tol))
          {
            ctx.fail(c.key("var0"), fmt("target %d: krigtest().var(%d,%d) = %.15Lg, sigma00 from the model = %.15Lg", k, a, b, C(a, b), S.C00(a, b)));
            return;
          }
    }
    if (ro.fields)
    {
      // lhs / rhs as documented in Krigtest_Res: the kriging system of the target
      // the library compresses (and fills its exported copies) only when some (sample, variable) pair of this
      // very neighbourhood is undefined
      std::string T = (S.nu == nv * (int)nbUse.size()) ? "isotopic" : "heterotopic";
      MatL Lh = toL(kt.lhs), Rh = toL(kt.rhs);
      if (Lh.rows() != S.N || Rh.rows() != S.N || Rh.cols() != nv)
      {
        ctx.fail("krigtest-lhs-dims:" + T, fmt("lhs %dx%d rhs %dx%d for %d equations", (int)Lh.rows(), (int)Lh.cols(), (int)Rh.rows(), (int)Rh.cols(), S.N));
        return;
      }
      LD covScale = 0, tolRel = std::max((LD)1e-9, (LD)10 * eta);
      for (int a = 0; a < S.nu; a++)
        for (int b = 0; b < S.nu; b++) covScale = std::max(covScale, fabsl(S.A(a, b)));
      for (int a = 0; a < S.N; a++)
        for (int b = 0; b < S.N; b++)
        {
          LD sc = (a < S.nu && b < S.nu) ? covScale : fabsl(S.A(a, b));
          if (!(fabsl(Lh(a, b) - S.A(a, b)) <= tolRel * sc + 1e-300L))
          {
            ctx.fail("krigtest-lhs:" + T, fmt("target %d: krigtest().lhs(%d,%d) = %.15Lg, system assembled from the model = %.15Lg (%s part; max|lhs| = %.3Lg)", k, a, b, Lh(a, b), S.A(a, b), (a < S.nu && b < S.nu) ? "covariance" : "drift", maxAbs(Lh)));
            return;
          }
        }
      LD rScale = 0;
      for (int a = 0; a < S.nu; a++)
        for (int tv = 0; tv < nv; tv++) rScale = std::max(rScale, fabsl(S.B(a, tv)));
      rScale = std::max(rScale, covScale);
      for (int a = 0; a < S.N; a++)
        for (int tv = 0; tv < nv; tv++)
        {
          LD sc = (a < S.nu) ? rScale : fabsl(S.B(a, tv));
          if (!(fabsl(Rh(a, tv) - S.B(a, tv)) <= tolRel * sc + 1e-300L))
          {
            ctx.fail("krigtest-rhs:" + T, fmt("target %d: krigtest().rhs(%d,%d) = %.15Lg, assembled = %.15Lg (max|rhs| = %.3Lg)", k, a, tv, Rh(a, tv), S.B(a, tv), maxAbs(Rh)));
            return;
          }
        }
    }
  }

  if (ro.fields && nt >= 2)
  {
    // krigtest(iech0 = 0) is documented as "rank of the target sample": it must describe target 0
    TargetGeom g0 = orc.geom(0, w, ro.rotateBlocks), gl = orc.geom(nt - 1, w, ro.rotateBlocks);
    NbRef n0 = refNeigh(c, g0.x0.data()), nl = refNeigh(c, gl.x0.data());
    if (!n0.ambiguous && !nl.ambiguous && !n0.empty() && !nl.empty())
    {
      Krigtest_Res kt = runKrigtest(c, w, ctx, 0);
      Sys S0, Sl;
      orc.solve(0, g0, n0.nb, S0);
      orc.solve(nt - 1, gl, nl.nb, Sl);
      if (S0.solved && Sl.solved && S0.kappa <= kKappaMax && Sl.kappa <= kKappaMax && kt.wgt.getNRows() > 0)
      {
        MatL W = toL(kt.wgt);
        auto resid = [&](const Sys& S) -> LD {
          if (W.rows() != S.N) return (LD)INFINITY;
          MatL R = S.A * W - S.B;
          LD bound = (LD)std::max(1e-9, epsK(S.kappa, eta)) * (S.normA * maxAbs(W) + maxAbs(S.B)) + (LD)epsIn(eta) * (LD)S.covScale * ((LD)1 + W.cwiseAbs().sum());
          return maxAbs(R) / std::max(bound, (LD)1e-300);
        };
        LD r0 = resid(S0), rl = resid(Sl);
        // distinguishable only if the weights of the last target do not solve the system of target 0
        LD cross = (Sl.N == S0.N) ? maxAbs(S0.A * Sl.sol - S0.B) : (LD)INFINITY;
        if (r0 > 1 && cross > 1e-6 * (maxAbs(S0.B) + 1e-300L))
        {
          ctx.fail(rl <= 1 ? "krigtest-target0:last" : "krigtest-target0:other",
                   fmt("krigtest(iech0=0) with %d targets: weights do not solve the system of target 0 (normalised residual %.3Lg)%s", nt, r0, rl <= 1 ? "; they solve the system of the LAST target" : ""));
          return;
        }
        ctx.nontrivial(true);
      }
    }
  }

  if (!deferredKey.empty()) { ctx.fail(deferredKey, deferredMsg); return; }
  if (kapMax > 0) ctx.label(fmt("kappa:1e%02d", kapMax > 1e29 ? 99 : (int)std::floor(std::log10(kapMax) / 2) * 2));
  if (nChecked == 0 && nIll > 0) ctx.inconclusive("ill-conditioned");
  if (nIll > 0) ctx.label("some-targets-illcond");
  ctx.nontrivial(nChecked > 0 && nontrivial(c, maxNb));
}

// ------------------------------------------------------------------ cross-validation -----
// xvalid(): every active sample is estimated from the others (leave-one-out); the documented outputs are
// Z*-Z or Z* ("esterr"/"estim") and (Z*-Z)/S or S ("stderr"/"stdev").  Oracle: the kriging system of the
// target x_i over the neighbourhood of x_i deprived of sample i.  In a unique neighbourhood the library uses
// the inverse of the complete system instead (monovariate only): same quantity by a different route.
struct XCase
{
  KCase k;
  int est = 1, std = 1;
  template<class A> void io(A& a) { a("k", k)("est", est)("std", std); }
};
static std::string xkey(const std::string& what, const std::string& V)
{
  const std::string pre = "xvalid-unique-naF:";
  if (V.rfind(pre, 0) == 0) return pre + what + ":" + V.substr(pre.size());
  return what + ":" + V;
}
static XCase genXvalid()
{
  XCase x;
  GenOpt o;
  o.verrPct = 0; // with measurement errors the two routes of the library estimate different things (noisy / noise-free datum)
  o.onDataPct = 0;
  o.nMax = 30;
  bool uniq = G::pct(45);
  o.movingPct = uniq ? 0 : 100;
  if (uniq) o.nvarMax = 1;
  x.k = genCase(o);
  x.est = G::pick<int>({1, -1});
  x.std = G::pick<int>({1, -1});
  return x;
}
static void runXvalid(const XCase& x, Ctx& ctx)
{
  const KCase& c = x.k;
  labelCase(c, ctx);
  ctx.label(fmt("xvalid:est%+d:std%+d", x.est, x.std));
  ctx.sig = Hash().add(signature(c)).add(x.est).add(x.std).h;
  World w;
  if (!buildWorld(c, w, ctx)) return;
  std::string V = std::string("xvalid:") + c.family() + ":" + (c.moving ? "moving" : "unique");
  int n = c.n(), nv = c.nvar;
  {
    // recorded finding: the unique-neighbourhood route addresses the inverse matrix as if the samples without
    // external drift were part of the system; everything observed there is keyed "xvalid-unique-naF:..."
    bool naF = false;
    for (int i = 0; i < n; i++) naF = naF || (c.active(i) && c.anyDef(i) && !c.fdef(i));
    if (naF && !c.moving) V = "xvalid-unique-naF:" + V;
  }
  Ctx dummy;
  std::unique_ptr<Model> om = buildModel(c, dummy);
  if (!om) { ctx.fail("harness:model", "second model construction failed"); return; }
  om->setField(Oracle::fieldOf(c, w.dbin.get()));
  Oracle orc(c, om.get());
  double eta = etaIn(c);

  ctx.at(V);
  dbgOn();
  int err = xvalid(w.dbin.get(), w.model.get(), w.neigh.get(), false, x.est, x.std, 0);
  if (err != 0) { ctx.fail(xkey("xvalid-error", V), "xvalid() returns an error on a valid configuration"); return; }
  std::vector<VectorDouble> E, Sd;
  for (int v = 0; v < nv; v++)
  {
    std::string base = "Xvalid.z" + std::to_string(v + 1);
    std::string ne = base + (x.est > 0 ? ".esterr" : ".estim"), ns = base + (x.std > 0 ? ".stderr" : ".stdev");
    if (w.dbin->getUID(ne) < 0 || w.dbin->getUID(ns) < 0)
    {
      ctx.fail(xkey("xvalid-columns", V), "xvalid() did not create the documented columns " + ne + " / " + ns);
      return;
    }
    E.push_back(w.dbin->getColumn(ne, false));
    Sd.push_back(w.dbin->getColumn(ns, false));
  }
  int nChecked = 0, nIll = 0, maxNb = 0;
  KCase cx = c; // targets = the data themselves
  cx.block = 0;
  cx.targ = c.data;
  cx.ftar = c.fdat;
  Oracle orx(cx, om.get());
  for (int i = 0; i < n; i++)
  {
    if (!c.active(i) || !c.anyDef(i) || !c.fdef(i)) continue;
    TargetGeom g;
    g.x0.assign(c.data.p(i), c.data.p(i) + c.ndim);
    NbRef nr = refNeigh(c, g.x0.data(), i);
    if (nr.ambiguous) { ctx.label("target:ambiguous-neigh"); continue; }
    if (nr.empty()) { ctx.label("target:empty-neigh"); continue; }
    Sys S;
    orx.solve(i, g, nr.nb, S);
    maxNb = std::max(maxNb, (int)nr.nb.size());
    if (!S.solved || !(S.kappa <= kKappaMax)) { nIll++; continue; }
    // the unique-neighbourhood route inverts the complete system (with sample i): gate on it as well
    double kap = S.kappa;
    if (!c.moving)
    {
      NbRef all = refNeigh(c, g.x0.data());
      Sys Sa;
      orx.solve(i, g, all.nb, Sa);
      if (!Sa.solved || !(Sa.kappa <= kKappaMax)) { nIll++; continue; }
      kap = std::max(kap, Sa.kappa);
    }
    double ek = epsK(kap, eta);
    nChecked++;
    for (int v = 0; v < nv; v++)
    {
      if (!c.zdef(i, v)) continue; // Z*-Z undefined; with est = -1 the moving route still gives Z*, the unique one nothing
      LD z = (LD)c.z[(size_t)(i * nv + v)];
      LD eo = S.estim[(size_t)v], vo = S.var[(size_t)v];
      LD tolE = (LD)ek * (S.scaleE[(size_t)v] + fabsl(z)) + floorE(S, eta);
      LD tolV = (LD)ek * S.scaleV[(size_t)v] + floorV(S, eta, v);
      double e = E[(size_t)v][i], s = Sd[(size_t)v][i];
      LD want = (x.est > 0) ? eo - z : eo;
      if (isNA(e) || std::isnan(e) || fabsl((LD)e - want) > tolE)
      {
        ctx.fail(xkey("esterr", V), fmt("sample %d var %d: %s = %.15g, leave-one-out kriging gives %.15Lg (tol %.3Lg, kappa %.3g, %d neighbours)", i, v, x.est > 0 ? "Z*-Z" : "Z*", e, want, tolE, kap, (int)nr.nb.size()));
        return;
      }
      if (x.std < 0)
      {
        if (isNA(s) || std::isnan(s) || s < 0 || fabsl((LD)s * s - std::max((LD)0, vo)) > tolV)
        {
          ctx.fail(xkey("stdev", V), fmt("sample %d var %d: S^2 = %.15g, leave-one-out kriging variance %.15Lg (tol %.3Lg, kappa %.3g)", i, v, s * s, vo, tolV, kap));
          return;
        }
      }
      else
      {
        // (Z*-Z)/S: meaningful only when S is well above its own error
        if (vo <= 0 || tolV > 1e-3 * vo) { ctx.label("stderr:variance-too-small"); continue; }
        LD sd = sqrtl(vo);
        LD wantS = (eo - z) / sd;
        LD tolS = tolE / sd + fabsl(wantS) * tolV / (2 * vo) * 2;
        if (isNA(s) || std::isnan(s) || fabsl((LD)s - wantS) > tolS)
        {
          ctx.fail(xkey("stderr", V), fmt("sample %d var %d: (Z*-Z)/S = %.15g, leave-one-out kriging gives %.15Lg (tol %.3Lg, kappa %.3g)", i, v, s, wantS, tolS, kap));
          return;
        }
      }
    }
  }
  if (nChecked == 0 && nIll > 0) ctx.inconclusive("ill-conditioned");
  ctx.nontrivial(nChecked > 0 && maxNb >= 2);
}

// ------------------------------------------------------------------ linear combinations --
// kriging(..., matLC): the outputs are the kriging of the combinations sum_j M(i,j) Z_j.  Kriging being linear,
// the oracle combines the right-hand sides / solutions of the ordinary system: b' = B M', l' = sol M',
// sigma00' = M sigma00 M', estimate' = M estimate.
struct MCase
{
  KCase k;
  int nlc = 1;
  std::vector<double> lc; // nlc * nvar
  template<class A> void io(A& a) { a("k", k)("nlc", nlc)("lc", lc); }
};
static MCase genMatLC()
{
  MCase m;
  GenOpt o;
  o.nvarMin = 2;
  o.heteroPct = 50;
  o.nMax = 30;
  m.k = genCase(o);
  m.nlc = G::i(1, m.k.nvar);
  for (int i = 0; i < m.nlc * m.k.nvar; i++) m.lc.push_back(G::pct(25) ? 0. : G::r(-2, 2, 4));
  m.lc[0] = (m.lc[0] == 0.) ? 1. : m.lc[0];
  return m;
}
static void runMatLC(const MCase& mc, Ctx& ctx)
{
  const KCase& c = mc.k;
  labelCase(c, ctx);
  ctx.label("matLC:" + std::to_string(mc.nlc));
  ctx.sig = Hash().add(signature(c)).add(mc.nlc).h;
  World w;
  if (!buildWorld(c, w, ctx)) return;
  int nt = c.ntarg(), nv = c.nvar, nl = mc.nlc;
  Ctx dummy;
  std::unique_ptr<Model> om = buildModel(c, dummy);
  if (!om) { ctx.fail("harness:model", "second model construction failed"); return; }
  om->setField(Oracle::fieldOf(c, w.dbout.get()));
  Oracle orc(c, om.get());
  double eta = etaIn(c);
  MatrixRectangular M(nl, nv);
  for (int i = 0; i < nl; i++)
    for (int j = 0; j < nv; j++) M.setValue(i, j, mc.lc[(size_t)(i * nv + j)]);
  bool wantVarz = c.flagVarz != 0;
  ctx.at("kriging-matLC:" + c.variant());
  VectorInt nd;
  for (int v : c.ndisc) nd.push_back(v);
  int err = kriging(w.dbin.get(), w.dbout.get(), w.model.get(), w.neigh.get(), c.block ? EKrigOpt::BLOCK : EKrigOpt::POINT, true, true,
                    wantVarz, nd, VectorInt(), &M);
  if (err != 0) { ctx.fail(c.key("matlc-kriging-error"), "kriging(matLC) returns an error on a valid configuration"); return; }
  std::vector<VectorDouble> E, Sd, Vz;
  for (int i = 0; i < nl; i++)
  {
    std::string base = (nl == 1) ? std::string("Kriging.LC") : "Kriging.LC-" + std::to_string(i + 1);
    if (w.dbout->getUID(base + ".estim") < 0 || w.dbout->getUID(base + ".stdev") < 0 || (wantVarz && w.dbout->getUID(base + ".varz") < 0))
    {
      ctx.fail(c.key("matlc-columns"), "kriging(matLC) did not create the columns " + base + ".estim/.stdev/.varz");
      return;
    }
    E.push_back(w.dbout->getColumn(base + ".estim", false));
    Sd.push_back(w.dbout->getColumn(base + ".stdev", false));
    if (wantVarz) Vz.push_back(w.dbout->getColumn(base + ".varz", false));
  }
  int nChecked = 0, nIll = 0, maxNb = 0;
  for (int k = 0; k < nt; k++)
  {
    TargetGeom g = orc.geom(k, w, true);
    NbRef nr = refNeigh(c, g.x0.data());
    if (!c.ftdef(k) || nr.ambiguous || nr.empty()) continue;
    Sys S;
    orc.solve(k, g, nr.nb, S);
    maxNb = std::max(maxNb, (int)nr.nb.size());
    if (!S.solved || !(S.kappa <= kKappaMax)) { nIll++; continue; }
    double ek = epsK(S.kappa, eta);
    nChecked++;
    for (int i = 0; i < nl; i++)
    {
      LD est = 0, scE = 0, c00 = 0, lb = 0, lbAbs = 0, vz = 0, l1 = 0;
      for (int j = 0; j < nv; j++)
      {
        LD m = (LD)mc.lc[(size_t)(i * nv + j)];
        est += m * S.estim[(size_t)j];
        scE += fabsl(m) * S.scaleE[(size_t)j];
        for (int q = 0; q < nv; q++) c00 += m * S.C00(j, q) * (LD)mc.lc[(size_t)(i * nv + q)];
      }
      for (int r = 0; r < S.N; r++)
      {
        LD sl = 0, bl = 0;
        for (int j = 0; j < nv; j++)
        {
          LD m = (LD)mc.lc[(size_t)(i * nv + j)];
          sl += m * S.sol(r, j);
          bl += m * S.B(r, j);
        }
        lb += sl * bl;
        lbAbs += fabsl(sl * bl);
        vz += (r < S.nu ? 1 : -1) * sl * bl;
        l1 += fabsl(sl);
      }
      LD mabs = 0;
      for (int j = 0; j < nv; j++) mabs += fabsl((LD)mc.lc[(size_t)(i * nv + j)]);
      LD tolE = (LD)ek * scE + mabs * floorE(S, eta);
      LD tolV = (LD)ek * (fabsl(c00) + lbAbs) + (LD)10 * (LD)epsIn(eta) * (LD)S.covScale * mabs * mabs * ((LD)1 + 2 * l1);
      double e = E[(size_t)i][k], s = Sd[(size_t)i][k];
      if (isNA(e) || std::isnan(e) || fabsl((LD)e - est) > tolE)
      {
        ctx.fail(c.key("matlc-estim"), fmt("target %d combination %d: estim %.15g, oracle %.15Lg (tol %.3Lg, kappa %.3g)", k, i, e, est, tolE, S.kappa));
        return;
      }
      LD vo = std::max((LD)0, c00 - lb);
      if (isNA(s) || std::isnan(s) || s < 0 || fabsl((LD)s * s - vo) > tolV)
      {
        ctx.fail(c.key("matlc-stdev"), fmt("target %d combination %d: stdev^2 %.15g, oracle variance %.15Lg (tol %.3Lg, kappa %.3g, sigma00 %.12Lg)", k, i, s * s, c00 - lb, tolV, S.kappa, c00));
        return;
      }
      if (wantVarz)
      {
        double z = Vz[(size_t)i][k];
        if (isNA(z) || std::isnan(z) || fabsl((LD)z - vz) > tolV)
        {
          ctx.fail(c.key("matlc-varz"), fmt("target %d combination %d: varz %.15g, oracle %.15Lg (tol %.3Lg, kappa %.3g)", k, i, z, vz, tolV, S.kappa));
          return;
        }
      }
    }
  }
  if (nChecked == 0 && nIll > 0) ctx.inconclusive("ill-conditioned");
  ctx.nontrivial(nChecked > 0 && maxNb >= 2);
}

// ------------------------------------------------------------------ sub-properties -------
static GenOpt optFamily(int fam)
{
  GenOpt o;
  o.family = fam;
  return o;
}
static KCase genSK() { return genCase(optFamily(0)); }
static KCase genOK() { return genCase(optFamily(1)); }
static KCase genUK() { return genCase(optFamily(2)); }
static KCase genED() { return genCase(optFamily(3)); }
static KCase genCok()
{
  GenOpt o;
  o.nvarMin = 2;
  o.heteroPct = 75;
  return genCase(o);
}
static KCase genMoving()
{
  GenOpt o;
  o.movingPct = 100;
  o.farPct = 5;
  return genCase(o);
}
// bench neighbourhood (NeighBench): samples within +-width of the target along the last coordinate; the targets of one call
// lie in different benches
static KCase genBench()
{
  GenOpt o;
  o.movingPct = 0;
  o.farPct = 5;
  KCase c = genCase(o);
  c.moving = 2;
  double lo = 1e300, hi = -1e300;
  for (int i = 0; i < c.n(); i++) { lo = std::min(lo, c.data.at(i, c.ndim - 1)); hi = std::max(hi, c.data.at(i, c.ndim - 1)); }
  double ext = (hi > lo) ? hi - lo : 1.;
  c.hasRadius = 1;
  c.radius = ext * G::u(0.1, 0.7);
  return c;
}
static KCase genBlock()
{
  GenOpt o;
  o.blockMode = 1;
  o.nMax = 30;
  return genCase(o);
}
static KCase genBlockRot()
{
  GenOpt o;
  o.blockMode = 2;
  o.nMax = 30;
  return genCase(o);
}
static KCase genVerr()
{
  GenOpt o;
  o.verrPct = 100;
  return genCase(o);
}
static KCase genIntrinsic()
{
  GenOpt o;
  o.family = G::pick<int>({1, 2, 2, 3});
  o.intrinsicPct = 100;
  return genCase(o);
}
static KCase genFields()
{
  GenOpt o;
  o.heteroPct = 85; // the exported matrices are filled today only for heterotopic neighbourhoods (finding)
  if (G::pct(60)) o.nvarMin = 2;
  o.nMax = 24;
  return genCase(o);
}
static KCase genEDna()
{
  GenOpt o;
  o.family = 3;
  o.naFtargPct = 35;
  return genCase(o);
}
static void runStd(const KCase& c, Ctx& ctx) { runC01(c, ctx, RunOpt()); }
static void runFields(const KCase& c, Ctx& ctx)
{
  RunOpt ro;
  ro.fields = true;
  runC01(c, ctx, ro);
}

VERIF_SUB(sk, KCase, genSK, runStd);
VERIF_SUB(ok, KCase, genOK, runStd);
VERIF_SUB(uk, KCase, genUK, runStd);
VERIF_SUB(extdrift, KCase, genED, runStd);
VERIF_SUB(cokriging, KCase, genCok, runStd);
VERIF_SUB(moving, KCase, genMoving, runStd);
VERIF_SUB(bench, KCase, genBench, runStd);
VERIF_SUB(block, KCase, genBlock, runStd);
VERIF_SUB(block_rotated, KCase, genBlockRot, runStd);
VERIF_SUB(verr, KCase, genVerr, runStd);
VERIF_SUB(intrinsic, KCase, genIntrinsic, runStd);
VERIF_SUB(krigtest_fields, KCase, genFields, runFields);
VERIF_SUB(extdrift_undefined, KCase, genEDna, runStd);
VERIF_SUB(xvalid, XCase, genXvalid, runXvalid);
VERIF_SUB(matlc, MCase, genMatLC, runMatLC);
VERIF_MAIN()
