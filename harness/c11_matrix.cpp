// C11 — matrix and vector classes compute what linear algebra defines, in every storage.
// Oracle: the same matrix kept as a std::vector<long double> and naive loops written here
// (no Eigen, no csparse: those are the implementation under test).  DESIGN.md §5 C11.
#include "verif.hpp"

#include "Matrix/AMatrix.hpp"
#include "Matrix/MatrixRectangular.hpp"
#include "Matrix/MatrixSquareGeneral.hpp"
#include "Matrix/MatrixSquareSymmetric.hpp"
#include "Matrix/MatrixSparse.hpp"
#include "Matrix/MatrixFactory.hpp"
#include "Matrix/NF_Triplet.hpp"
#include "LinearOp/CholeskyDense.hpp"
#include "LinearOp/CholeskySparse.hpp"
#include "Basic/VectorHelper.hpp"
#include "Basic/VectorNumT.hpp"
#include "Enum/EOperator.hpp"
#include "Basic/Utilities.hpp"
#include "geoslib_define.h"

#include <memory>
#include <algorithm>
#include <numeric>

using namespace vf;
typedef long double LD;

// ------------------------------------------------------------------ reference matrix ----
struct Ref
{
  int nr = 0, nc = 0;
  std::vector<LD> a; // row-major
  Ref() {}
  Ref(int r, int c) : nr(r), nc(c), a((size_t)r * (size_t)c, 0.L) {}
  LD& at(int i, int j) { return a[(size_t)i * (size_t)nc + (size_t)j]; }
  LD at(int i, int j) const { return a[(size_t)i * (size_t)nc + (size_t)j]; }
  Ref t() const
  {
    Ref r(nc, nr);
    for (int i = 0; i < nr; i++)
      for (int j = 0; j < nc; j++) r.at(j, i) = at(i, j);
    return r;
  }
};
static Ref mul(const Ref& x, const Ref& y)
{
  Ref r(x.nr, y.nc);
  for (int i = 0; i < x.nr; i++)
    for (int j = 0; j < y.nc; j++)
    {
      LD s = 0;
      for (int k = 0; k < x.nc; k++) s += x.at(i, k) * y.at(k, j);
      r.at(i, j) = s;
    }
  return r;
}
static Ref refFrom(int nr, int nc, const std::vector<double>& v)
{
  Ref r(nr, nc);
  for (size_t k = 0; k < r.a.size(); k++) r.a[k] = v[k];
  return r;
}

// kinds of storage
enum Kind { RECT = 0, SQGEN = 1, SYM = 2, SPCS = 3, SPEIG = 4 };
static const char* kindName(int k)
{
  static const char* n[] = {"rect", "sqgen", "sym", "sparse-cs", "sparse-eigen"};
  return n[k];
}

static std::unique_ptr<AMatrix> build(int kind, const Ref& r)
{
  std::unique_ptr<AMatrix> m;
  switch (kind)
  {
    case RECT: m.reset(new MatrixRectangular(r.nr, r.nc)); break;
    case SQGEN: m.reset(new MatrixSquareGeneral(r.nr)); break;
    case SYM: m.reset(new MatrixSquareSymmetric(r.nr)); break;
    case SPCS:
    case SPEIG:
    {
      NF_Triplet T;
      for (int i = 0; i < r.nr; i++)
        for (int j = 0; j < r.nc; j++)
          if (r.at(i, j) != 0) T.add(i, j, (double)r.at(i, j));
      // force() appends an explicit zero at the last corner so that trailing empty rows/columns
      // are kept; it must not be called when that entry exists (duplicate triplets are not
      // summed by the cs back-end and are outside the generated domain)
      if (r.at(r.nr - 1, r.nc - 1) == 0) T.force(r.nr, r.nc);
      m.reset(MatrixSparse::createFromTriplet(T, r.nr, r.nc, kind == SPEIG ? 1 : 0));
      return m;
    }
  }
  for (int i = 0; i < r.nr; i++)
    for (int j = 0; j < r.nc; j++) m->setValue(i, j, (double)r.at(i, j));
  return m;
}

static double tolFor(LD scale) { return 1e-11 * (double)std::max((LD)1., scale); }

static LD maxAbs(const Ref& r)
{
  LD m = 0;
  for (auto v : r.a) m = std::max(m, fabsl(v));
  return m;
}

// compare the library matrix with the reference, element by element
static bool sameMat(const AMatrix& m, const Ref& r, Ctx& ctx, const std::string& key, const std::string& where,
                    LD scale = -1)
{
  if (m.getNRows() != r.nr || m.getNCols() != r.nc)
  {
    ctx.fail(key, where + fmt(": shape %dx%d, expected %dx%d", m.getNRows(), m.getNCols(), r.nr, r.nc));
    return false;
  }
  double tol = tolFor(scale < 0 ? maxAbs(r) : scale);
  for (int i = 0; i < r.nr; i++)
    for (int j = 0; j < r.nc; j++)
    {
      double got = m.getValue(i, j);
      double exp = (double)r.at(i, j);
      if (!(std::fabs(got - exp) <= tol))
      {
        ctx.fail(key, where + fmt(": element (%d,%d) = %.17g, expected %.17g", i, j, got, exp));
        return false;
      }
    }
  return true;
}
static bool sameVec(const VectorDouble& v, const std::vector<LD>& r, Ctx& ctx, const std::string& key,
                    const std::string& where, LD scale = -1)
{
  if (v.size() != r.size())
  {
    ctx.fail(key, where + fmt(": size %d, expected %d", (int)v.size(), (int)r.size()));
    return false;
  }
  LD s = scale;
  if (s < 0) { s = 0; for (auto x : r) s = std::max(s, fabsl(x)); }
  double tol = tolFor(s);
  for (size_t k = 0; k < r.size(); k++)
    if (!(std::fabs(v[k] - (double)r[k]) <= tol))
    {
      ctx.fail(key, where + fmt(": element %d = %.17g, expected %.17g", (int)k, v[k], (double)r[k]));
      return false;
    }
  return true;
}

// small "exact" values: integers and dyadic rationals
static double genVal() { return (double)G::i(-16, 16) / (double)G::pick<int>({1, 1, 2, 4}); }
static double genNonZeroPow2() { return G::pick<double>({1., 2., 4., -2., 0.5, -0.25, -1.}); }
static std::vector<double> genVec(int n)
{
  std::vector<double> v((size_t)n);
  for (auto& x : v) x = genVal();
  return v;
}
static std::vector<double> genMatVals(int nr, int nc, int kind, int zeroPct)
{
  std::vector<double> v((size_t)nr * (size_t)nc);
  for (int i = 0; i < nr; i++)
    for (int j = 0; j < nc; j++)
    {
      double x = G::pct(zeroPct) ? 0. : genVal();
      if (kind == SYM && j < i) x = v[(size_t)j * (size_t)nc + (size_t)i];
      v[(size_t)i * (size_t)nc + (size_t)j] = x;
    }
  return v;
}
// the cs back-end cannot represent a matrix without any stored entry (null arrays, see
// known finding C11-cs-empty): sparse operands always get at least one non-zero
static void ensureNonZero(std::vector<double>& v)
{
  for (auto x : v) if (x != 0) return;
  if (!v.empty()) v[0] = 1.;
}
static VectorDouble toVD(const std::vector<double>& v) { return VectorDouble(v.begin(), v.end()); }

// =================================================================== dense_seq ==========
struct Op
{
  int code = 0, i = 0, j = 0, k = 0;
  double v = 0, w = 0;
  std::vector<double> vec;
  template<class A> void io(A& a) { a("code", code)("i", i)("j", j)("k", k)("v", v)("w", w)("vec", vec); }
};
struct SeqCase
{
  int kind = 0, nr = 1, nc = 1;
  std::vector<double> init;
  std::vector<Op> ops;
  template<class A> void io(A& a) { a("kind", kind)("nr", nr)("nc", nc)("init", init)("ops", ops); }
};

enum
{
  O_SET = 0, O_UPD, O_SETROW, O_SETCOL, O_SETDIAG, O_SETDIAGC, O_TRANSP, O_ADDSC, O_ADDSCD, O_PRODSC,
  O_MULROW, O_MULCOL, O_DIVROW, O_DIVCOL, O_ADDMAT, O_FILL, O_LINCOMB, O_SETID, O_PRODIN, O_COPYCTOR, O_NOPS
};
static const char* opName(int c)
{
  static const char* n[] = {"setValue", "updValue", "setRow", "setColumn", "setDiagonal", "setDiagonalToConstant",
                            "transposeInPlace", "addScalar", "addScalarDiag", "prodScalar", "multiplyRow",
                            "multiplyColumn", "divideRow", "divideColumn", "addMatInPlace", "fill",
                            "linearCombination", "setIdentity", "prodMatInPlace", "clone"};
  return (c >= 0 && c < O_NOPS) ? n[c] : "?";
}

static SeqCase genSeq()
{
  SeqCase c;
  c.kind = G::i(0, 2);
  c.nr = G::sz(1, 7);
  c.nc = (c.kind == RECT) ? G::sz(1, 7) : c.nr;
  c.init = genMatVals(c.nr, c.nc, c.kind, 20);
  int nops = G::sz(1, 12);
  int nr = c.nr, nc = c.nc;
  for (int t = 0; t < nops; t++)
  {
    Op o;
    bool square = nr == nc;
    bool sym = c.kind == SYM;
    for (;;)
    {
      o.code = G::i(0, O_NOPS - 1);
      bool needSquare = (o.code == O_SETDIAG || o.code == O_SETDIAGC || o.code == O_ADDSCD || o.code == O_PRODIN);
      bool breaksSym = (o.code == O_SETROW || o.code == O_SETCOL || o.code == O_MULROW || o.code == O_MULCOL ||
                        o.code == O_DIVROW || o.code == O_DIVCOL || o.code == O_PRODIN);
      if (needSquare && !square) continue;
      if (breaksSym && sym) continue;
      break;
    }
    o.i = G::i(0, nr - 1);
    o.j = G::i(0, nc - 1);
    o.v = genVal();
    o.w = genVal();
    switch (o.code)
    {
      case O_UPD: o.k = G::pick<int>({1, 2, 8, 9}); break; // ADD, PRODUCT, MIN, MAX
      case O_SETROW: o.vec = genVec(nc); break;
      case O_SETCOL: o.vec = genVec(nr); break;
      case O_SETDIAG: o.vec = genVec(nr); break;
      case O_MULROW: o.vec = genVec(nr); break;
      case O_MULCOL: o.vec = genVec(nc); break;
      case O_DIVROW: o.vec.resize((size_t)nr); for (auto& x : o.vec) x = genNonZeroPow2(); break;
      case O_DIVCOL: o.vec.resize((size_t)nc); for (auto& x : o.vec) x = genNonZeroPow2(); break;
      case O_ADDMAT: o.vec = genMatVals(nr, nc, c.kind, 20); break;
      case O_LINCOMB: o.vec = genMatVals(nr, nc, c.kind, 20); o.k = G::i(0, 1); break;
      case O_PRODIN: o.vec = genMatVals(nr, nc, SQGEN, 20); o.k = G::i(0, 1); break;
      case O_TRANSP: std::swap(nr, nc); break;
      default: break;
    }
    c.ops.push_back(o);
  }
  return c;
}

static void applyRef(Ref& r, const Op& o, int kind)
{
  bool sym = kind == SYM;
  switch (o.code)
  {
    case O_SET:
      r.at(o.i, o.j) = o.v;
      if (sym) r.at(o.j, o.i) = o.v;
      break;
    case O_UPD:
    {
      LD old = r.at(o.i, o.j), nv = old;
      if (o.k == 1) nv = old + o.v;
      if (o.k == 2) nv = old * o.v;
      if (o.k == 8) nv = std::min(old, (LD)o.v);
      if (o.k == 9) nv = std::max(old, (LD)o.v);
      r.at(o.i, o.j) = nv;
      if (sym) r.at(o.j, o.i) = nv;
      break;
    }
    case O_SETROW: for (int j = 0; j < r.nc; j++) r.at(o.i, j) = o.vec[(size_t)j]; break;
    case O_SETCOL: for (int i = 0; i < r.nr; i++) r.at(i, o.j) = o.vec[(size_t)i]; break;
    case O_SETDIAG:
      // documented: "Reset the contents of a matrix by setting all terms to 0 and update diagonal terms"
      for (auto& x : r.a) x = 0;
      for (int i = 0; i < r.nr; i++) r.at(i, i) = o.vec[(size_t)i];
      break;
    case O_SETDIAGC:
      for (auto& x : r.a) x = 0;
      for (int i = 0; i < r.nr; i++) r.at(i, i) = o.v;
      break;
    case O_TRANSP: r = r.t(); break;
    case O_ADDSC: for (auto& x : r.a) x += o.v; break;
    case O_ADDSCD: for (int i = 0; i < r.nr; i++) r.at(i, i) += o.v; break;
    case O_PRODSC: for (auto& x : r.a) x *= o.v; break;
    case O_MULROW: for (int i = 0; i < r.nr; i++) for (int j = 0; j < r.nc; j++) r.at(i, j) *= o.vec[(size_t)i]; break;
    case O_MULCOL: for (int i = 0; i < r.nr; i++) for (int j = 0; j < r.nc; j++) r.at(i, j) *= o.vec[(size_t)j]; break;
    case O_DIVROW: for (int i = 0; i < r.nr; i++) for (int j = 0; j < r.nc; j++) r.at(i, j) /= o.vec[(size_t)i]; break;
    case O_DIVCOL: for (int i = 0; i < r.nr; i++) for (int j = 0; j < r.nc; j++) r.at(i, j) /= o.vec[(size_t)j]; break;
    case O_ADDMAT: for (size_t k = 0; k < r.a.size(); k++) r.a[k] = o.v * r.a[k] + o.w * o.vec[k]; break;
    case O_FILL: for (auto& x : r.a) x = o.v; break;
    case O_LINCOMB:
    {
      // this = v * mat1 (+ w * this_old when k==1)
      Ref old = r;
      for (size_t k = 0; k < r.a.size(); k++) r.a[k] = (LD)o.v * o.vec[k] + (o.k ? (LD)o.w * old.a[k] : 0.L);
      break;
    }
    case O_SETID:
      for (int i = 0; i < r.nr; i++) for (int j = 0; j < r.nc; j++) r.at(i, j) = (i == j) ? (LD)o.v : 0.L;
      break;
    case O_PRODIN:
    {
      Ref y = refFrom(r.nr, r.nc, o.vec);
      r = mul(r, o.k ? y.t() : y);
      break;
    }
    default: break;
  }
}

static void applyLib(std::unique_ptr<AMatrix>& m, const Op& o, int kind)
{
  switch (o.code)
  {
    case O_SET: m->setValue(o.i, o.j, o.v); break;
    case O_UPD: m->updValue(o.i, o.j, EOperator::fromValue(o.k), o.v); break;
    case O_SETROW: m->setRow(o.i, toVD(o.vec)); break;
    case O_SETCOL: m->setColumn(o.j, toVD(o.vec)); break;
    case O_SETDIAG: m->setDiagonal(toVD(o.vec)); break;
    case O_SETDIAGC: m->setDiagonalToConstant(o.v); break;
    case O_TRANSP: m->transposeInPlace(); break;
    case O_ADDSC: m->addScalar(o.v); break;
    case O_ADDSCD: m->addScalarDiag(o.v); break;
    case O_PRODSC: m->prodScalar(o.v); break;
    case O_MULROW: m->multiplyRow(toVD(o.vec)); break;
    case O_MULCOL: m->multiplyColumn(toVD(o.vec)); break;
    case O_DIVROW: m->divideRow(toVD(o.vec)); break;
    case O_DIVCOL: m->divideColumn(toVD(o.vec)); break;
    case O_ADDMAT:
    {
      auto y = build(kind, refFrom(m->getNRows(), m->getNCols(), o.vec));
      m->addMatInPlace(*y, o.v, o.w);
      break;
    }
    case O_FILL: m->fill(o.v); break;
    case O_LINCOMB:
    {
      auto y = build(kind, refFrom(m->getNRows(), m->getNCols(), o.vec));
      if (o.k)
      {
        std::unique_ptr<AMatrix> self(dynamic_cast<AMatrix*>(m->clone()));
        m->linearCombination(o.v, y.get(), o.w, self.get());
      }
      else
        m->linearCombination(o.v, y.get());
      break;
    }
    case O_SETID: m->setIdentity(o.v); break;
    case O_PRODIN:
    {
      auto y = build(SQGEN, refFrom(m->getNRows(), m->getNCols(), o.vec));
      m->prodMatInPlace(y.get(), o.k != 0);
      break;
    }
    case O_COPYCTOR:
    {
      std::unique_ptr<AMatrix> c2(dynamic_cast<AMatrix*>(m->clone()));
      m = std::move(c2);
      break;
    }
    default: break;
  }
}

// read-only observers, all compared with loops over the reference
static void observe(const AMatrix& m, const Ref& r, const std::vector<double>& x, const std::vector<double>& y,
                    Ctx& ctx, const std::string& kn)
{
  // rows / columns / values
  for (int i = 0; i < r.nr; i++)
  {
    std::vector<LD> e((size_t)r.nc);
    for (int j = 0; j < r.nc; j++) e[(size_t)j] = r.at(i, j);
    if (!sameVec(m.getRow(i), e, ctx, "getRow:" + kn, fmt("getRow(%d)", i))) return;
  }
  for (int j = 0; j < r.nc; j++)
  {
    std::vector<LD> e((size_t)r.nr);
    for (int i = 0; i < r.nr; i++) e[(size_t)i] = r.at(i, j);
    if (!sameVec(m.getColumn(j), e, ctx, "getColumn:" + kn, fmt("getColumn(%d)", j))) return;
  }
  {
    std::vector<LD> bycol, byrow;
    for (int j = 0; j < r.nc; j++) for (int i = 0; i < r.nr; i++) bycol.push_back(r.at(i, j));
    for (int i = 0; i < r.nr; i++) for (int j = 0; j < r.nc; j++) byrow.push_back(r.at(i, j));
    if (!sameVec(m.getValues(true), bycol, ctx, "getValues:" + kn, "getValues(byCol=true)")) return;
    if (!sameVec(m.getValues(false), byrow, ctx, "getValues:" + kn, "getValues(byCol=false)")) return;
  }
  if (r.nr == r.nc)
    for (int shift = -(r.nr - 1); shift <= r.nr - 1; shift++)
    {
      std::vector<LD> e;
      for (int k = 0; k < r.nr; k++)
      {
        int i = k + (shift < 0 ? -shift : 0), j = k + (shift > 0 ? shift : 0);
        if (i < r.nr && j < r.nc) e.push_back(r.at(i, j));
      }
      // getDiagonal(shift): "main or secondary diagonal"; the documentation does not say which side a
      // negative shift designates, so for shift<0 either secondary diagonal at that distance is accepted
      if (shift >= 0) { if (!sameVec(m.getDiagonal(shift), e, ctx, "getDiagonal:" + kn, fmt("getDiagonal(%d)", shift))) return; }
      else
      {
        Ctx tmp;
        std::vector<LD> e2;
        for (int k = 0; k + (-shift) < r.nr; k++) e2.push_back(r.at(k, k - shift));
        if (!sameVec(m.getDiagonal(shift), e, tmp, "x", "x") && !sameVec(m.getDiagonal(shift), e2, tmp, "x", "x"))
        {
          ctx.fail("getDiagonal:" + kn, fmt("getDiagonal(%d) is neither secondary diagonal at distance %d", shift, -shift));
          return;
        }
      }
    }
  // products with vectors; x has nc entries, y has nr entries
  LD sc = maxAbs(r) * 16 * std::max(r.nr, r.nc);
  {
    std::vector<LD> mx((size_t)r.nr, 0), mty((size_t)r.nc, 0);
    for (int i = 0; i < r.nr; i++) for (int j = 0; j < r.nc; j++)
    {
      mx[(size_t)i] += r.at(i, j) * x[(size_t)j];
      mty[(size_t)j] += r.at(i, j) * y[(size_t)i];
    }
    ctx.at("prodMatVec:" + kn);
    if (!sameVec(m.prodMatVec(toVD(x), false), mx, ctx, "prodMatVec:" + kn, "prodMatVec(x)", sc)) return;
    ctx.at("prodMatVecT:" + kn);
    if (!sameVec(m.prodMatVec(toVD(y), true), mty, ctx, "prodMatVecT:" + kn, "prodMatVec(y,transpose)", sc)) return;
    ctx.at("prodVecMat:" + kn);
    if (!sameVec(m.prodVecMat(toVD(y), false), mty, ctx, "prodVecMat:" + kn, "prodVecMat(y)", sc)) return;
    ctx.at("prodVecMatT:" + kn);
    if (!sameVec(m.prodVecMat(toVD(x), true), mx, ctx, "prodVecMatT:" + kn, "prodVecMat(x,transpose)", sc)) return;
    VectorDouble out((size_t)r.nr, 7.), outT((size_t)r.nc, 7.);
    ctx.at("prodMatVecInPlace:" + kn);
    m.prodMatVecInPlace(toVD(x), out, false);
    if (!sameVec(out, mx, ctx, "prodMatVecInPlace:" + kn, "prodMatVecInPlace(x,out)", sc)) return;
    ctx.at("prodMatVecInPlaceT:" + kn);
    m.prodMatVecInPlace(toVD(y), outT, true);
    if (!sameVec(outT, mty, ctx, "prodMatVecInPlaceT:" + kn, "prodMatVecInPlace(y,out,transpose)", sc)) return;
    VectorDouble o2((size_t)r.nc, 7.), o2T((size_t)r.nr, 7.);
    ctx.at("prodVecMatInPlace:" + kn);
    m.prodVecMatInPlace(toVD(y), o2, false);
    if (!sameVec(o2, mty, ctx, "prodVecMatInPlace:" + kn, "prodVecMatInPlace(y,out)", sc)) return;
    ctx.at("prodVecMatInPlaceT:" + kn);
    m.prodVecMatInPlace(toVD(x), o2T, true);
    if (!sameVec(o2T, mx, ctx, "prodVecMatInPlaceT:" + kn, "prodVecMatInPlace(x,out,transpose)", sc)) return;
    // constvect / vect flavour (checked sizes)
    VectorDouble o3((size_t)r.nr, 7.);
    VectorDouble xv = toVD(x);
    constvect xs(xv.data(), xv.size());
    vect ys(o3.data(), o3.size());
    ctx.at("prodMatVecInPlaceSpan:" + kn);
    if (m.prodMatVecInPlace(xs, ys, false) != 0)
      ctx.fail("prodMatVecInPlaceSpan:" + kn, "prodMatVecInPlace(constvect,vect) refused consistent sizes");
    else if (!sameVec(o3, mx, ctx, "prodMatVecInPlaceSpan:" + kn, "prodMatVecInPlace(constvect,vect)", sc)) return;
    VectorDouble o4((size_t)r.nr, 3.);
    vect y4(o4.data(), o4.size());
    std::vector<LD> mx3 = mx;
    for (auto& e : mx3) e += 3.;
    ctx.at("addProdMatVecInPlace:" + kn);
    if (m.addProdMatVecInPlace(xs, y4, false) != 0)
      ctx.fail("addProdMatVecInPlace:" + kn, "addProdMatVecInPlace refused consistent sizes");
    else if (!sameVec(o4, mx3, ctx, "addProdMatVecInPlace:" + kn, "addProdMatVecInPlace(x, y=3)", sc)) return;
    VectorDouble o5((size_t)r.nc, 3.);
    VectorDouble yv = toVD(y);
    constvect ysp(yv.data(), yv.size());
    vect y5(o5.data(), o5.size());
    std::vector<LD> mty3 = mty;
    for (auto& e : mty3) e += 3.;
    ctx.at("addProdMatVecInPlaceT:" + kn);
    if (m.addProdMatVecInPlace(ysp, y5, true) != 0)
      ctx.fail("addProdMatVecInPlaceT:" + kn, "addProdMatVecInPlace(transpose) refused consistent sizes");
    else if (!sameVec(o5, mty3, ctx, "addProdMatVecInPlaceT:" + kn, "addProdMatVecInPlace(y, out=3, transpose)", sc)) return;
  }
  // transpose()
  {
    ctx.at("transpose:" + kn);
    std::unique_ptr<AMatrix> t(m.transpose());
    if (!t) { ctx.fail("transpose:" + kn, "transpose() returned null"); return; }
    if (!sameMat(*t, r.t(), ctx, "transpose:" + kn, "transpose()")) return;
  }
  // triplet round trip
  {
    ctx.at("triplet:" + kn);
    NF_Triplet T = m.getMatrixToTriplet();
    Ref z(r.nr, r.nc);
    bool bad = false;
    for (int k = 0; k < T.getNumber(); k++)
    {
      int i = T.getRow(k), j = T.getCol(k);
      if (i < 0 || i >= r.nr || j < 0 || j >= r.nc) { bad = true; break; }
      z.at(i, j) += T.getValue(k);
    }
    if (bad) { ctx.fail("triplet:" + kn, "getMatrixToTriplet returned an index outside the matrix"); return; }
    for (size_t k = 0; k < z.a.size(); k++)
      if (fabsl(z.a[k] - r.a[k]) > tolFor(maxAbs(r)))
      {
        ctx.fail("triplet:" + kn, fmt("triplet content differs at flat index %d: %.17g vs %.17g", (int)k, (double)z.a[k], (double)r.a[k]));
        return;
      }
  }
  // simple reductions
  if (!r.a.empty())
  {
    LD mn = r.a[0], mxv = r.a[0];
    for (auto v : r.a) { mn = std::min(mn, v); mxv = std::max(mxv, v); }
    if (!close(m.getMinimum(), (double)mn, 1e-12, 1e-12)) ctx.fail("getMinimum:" + kn, fmt("getMinimum %.17g expected %.17g", m.getMinimum(), (double)mn));
    if (!close(m.getMaximum(), (double)mxv, 1e-12, 1e-12)) ctx.fail("getMaximum:" + kn, fmt("getMaximum %.17g expected %.17g", m.getMaximum(), (double)mxv));
  }
}

static void runSeq(const SeqCase& c, Ctx& ctx)
{
  Ref r = refFrom(c.nr, c.nc, c.init);
  auto m = build(c.kind, r);
  std::string kn = kindName(c.kind);
  ctx.label(std::string("kind:") + kn);
  if (!sameMat(*m, r, ctx, "build:" + kn, "after construction")) return;
  bool nt = c.nr != c.nc;
  int step = 0;
  for (auto& o : c.ops)
  {
    applyRef(r, o, c.kind);
    ctx.at(std::string(opName(o.code)) + ":" + kn);
    applyLib(m, o, c.kind);
    ctx.label(std::string("op:") + opName(o.code));
    if (!sameMat(*m, r, ctx, std::string(opName(o.code)) + ":" + kn, fmt("step %d %s", step, opName(o.code)))) return;
    if (o.code == O_TRANSP || o.code == O_PRODIN || (c.kind == SYM && (o.code == O_SET || o.code == O_UPD) && o.i != o.j)) nt = true;
    step++;
  }
  // vectors for the observers come from the case (deterministic function of it)
  std::vector<double> x((size_t)r.nc), y((size_t)r.nr);
  for (int j = 0; j < r.nc; j++) x[(size_t)j] = (double)((j * 7 + c.nr * 3) % 11 - 5) / 2.;
  for (int i = 0; i < r.nr; i++) y[(size_t)i] = (double)((i * 5 + c.nc * 2) % 13 - 6) / 4.;
  ctx.at("observers:" + kn);
  observe(*m, r, x, y, ctx, kn);
  ctx.nontrivial(nt);
  Hash h;
  h.add(c.kind).add(c.nr).add(c.nc);
  for (auto& o : c.ops) h.add(o.code);
  ctx.sig = h.h;
}
VERIF_SUB(dense_seq, SeqCase, genSeq, runSeq);

// =================================================================== sparse_seq =========
// Both sparse back-ends are driven with the same operations and compared with the reference.
// Element writes only address stored entries (the cs back-end documents that it cannot create
// an entry); addScalar is applied only when every entry is stored (its effect on structural
// zeros is not a linear-algebra notion).
enum
{
  S_SET = 0, S_UPD, S_TRANSP, S_PRODSC, S_MULROW, S_MULCOL, S_DIVROW, S_DIVCOL, S_ADDMAT, S_ADDSCD, S_SETDIAG,
  S_SETDIAGC, S_COPY, S_NOPS
};
static const char* sopName(int c)
{
  static const char* n[] = {"setValue", "updValue", "transposeInPlace", "prodScalar", "multiplyRow", "multiplyColumn",
                            "divideRow", "divideColumn", "addMatInPlace", "addScalarDiag", "setDiagonal",
                            "setDiagonalToConstant", "clone"};
  return (c >= 0 && c < S_NOPS) ? n[c] : "?";
}
static SeqCase genSparseSeq()
{
  SeqCase c;
  c.kind = SPCS; // both back-ends are run
  c.nr = G::sz(1, 8);
  c.nc = G::pct(30) ? c.nr : G::sz(1, 8);
  int zp = G::pick<int>({0, 30, 60, 85});
  c.init = genMatVals(c.nr, c.nc, RECT, zp);
  ensureNonZero(c.init);
  int nops = G::sz(1, 10);
  int nr = c.nr, nc = c.nc;
  for (int t = 0; t < nops; t++)
  {
    Op o;
    for (;;)
    {
      o.code = G::i(0, S_NOPS - 1);
      bool needSquare = (o.code == S_ADDSCD || o.code == S_SETDIAG || o.code == S_SETDIAGC);
      if (needSquare && nr != nc) continue;
      break;
    }
    o.i = G::i(0, nr - 1);
    o.j = G::i(0, nc - 1);
    o.v = genVal();
    o.w = genVal();
    switch (o.code)
    {
      case S_UPD: o.k = G::pick<int>({1, 2}); break;
      case S_MULROW: o.vec = genVec(nr); break;
      case S_MULCOL: o.vec = genVec(nc); break;
      case S_DIVROW: o.vec.resize((size_t)nr); for (auto& x : o.vec) x = genNonZeroPow2(); break;
      case S_DIVCOL: o.vec.resize((size_t)nc); for (auto& x : o.vec) x = genNonZeroPow2(); break;
      case S_ADDMAT: o.vec = genMatVals(nr, nc, RECT, G::pick<int>({0, 50, 80})); ensureNonZero(o.vec); break;
      case S_SETDIAG: o.vec = genVec(nr); break;
      case S_TRANSP: std::swap(nr, nc); break;
      default: break;
    }
    c.ops.push_back(o);
  }
  return c;
}

static void runSparseSeq(const SeqCase& c, Ctx& ctx)
{
  Ref r = refFrom(c.nr, c.nc, c.init);
  std::unique_ptr<AMatrix> ms[2] = {build(SPCS, r), build(SPEIG, r)};
  bool nt = false;
  for (int b = 0; b < 2; b++)
    if (!sameMat(*ms[b], r, ctx, std::string("build:") + kindName(SPCS + b), "after construction")) return;
  int step = 0;
  for (auto& o : c.ops)
  {
    // writes are addressed to entries that are non-zero in the reference (hence stored)
    Op q = o;
    bool skip = false;
    if (o.code == S_SET || o.code == S_UPD)
    {
      if (r.at(o.i, o.j) == 0) skip = true;
      if (o.code == S_SET && o.v == 0) skip = true;
    }
    if (o.code == S_ADDSCD)
    {
      // every diagonal entry must be stored for the operation to be storage-independent
      for (int i = 0; i < r.nr; i++) if (r.at(i, i) == 0) skip = true;
    }
    if (skip) { ctx.label("sparse-op-skipped(structural zero)"); continue; }
    // reference
    switch (o.code)
    {
      case S_SET: r.at(o.i, o.j) = o.v; break;
      case S_UPD: r.at(o.i, o.j) = (o.k == 1) ? r.at(o.i, o.j) + o.v : r.at(o.i, o.j) * o.v; break;
      case S_TRANSP: r = r.t(); break;
      case S_PRODSC: q.code = O_PRODSC; applyRef(r, q, RECT); break;
      case S_MULROW: q.code = O_MULROW; applyRef(r, q, RECT); break;
      case S_MULCOL: q.code = O_MULCOL; applyRef(r, q, RECT); break;
      case S_DIVROW: q.code = O_DIVROW; applyRef(r, q, RECT); break;
      case S_DIVCOL: q.code = O_DIVCOL; applyRef(r, q, RECT); break;
      case S_ADDMAT: q.code = O_ADDMAT; applyRef(r, q, RECT); break;
      case S_ADDSCD: q.code = O_ADDSCD; applyRef(r, q, RECT); break;
      case S_SETDIAG: q.code = O_SETDIAG; applyRef(r, q, RECT); break;
      case S_SETDIAGC: q.code = O_SETDIAGC; applyRef(r, q, RECT); break;
      default: break;
    }
    for (int b = 0; b < 2; b++)
    {
      int kind = SPCS + b;
      MatrixSparse* sp = dynamic_cast<MatrixSparse*>(ms[b].get());
      ctx.at(std::string(sopName(o.code)) + ":" + kindName(kind));
      switch (o.code)
      {
        case S_SET: sp->setValue(o.i, o.j, o.v); break;
        case S_UPD: sp->updValue(o.i, o.j, EOperator::fromValue(o.k), o.v); break;
        case S_TRANSP: sp->transposeInPlace(); break;
        case S_PRODSC: sp->prodScalar(o.v); break;
        case S_MULROW: sp->multiplyRow(toVD(o.vec)); break;
        case S_MULCOL: sp->multiplyColumn(toVD(o.vec)); break;
        case S_DIVROW: sp->divideRow(toVD(o.vec)); break;
        case S_DIVCOL: sp->divideColumn(toVD(o.vec)); break;
        case S_ADDMAT:
        {
          auto y = build(kind, refFrom(sp->getNRows(), sp->getNCols(), o.vec));
          sp->addMatInPlace(*dynamic_cast<MatrixSparse*>(y.get()), o.v, o.w);
          break;
        }
        case S_ADDSCD: sp->addScalarDiag(o.v); break;
        case S_SETDIAG: sp->setDiagonal(toVD(o.vec)); break;
        case S_SETDIAGC: sp->setDiagonalToConstant(o.v); break;
        case S_COPY:
        {
          std::unique_ptr<AMatrix> c2(new MatrixSparse(*sp));
          ms[b] = std::move(c2);
          break;
        }
      }
      if (!sameMat(*ms[b], r, ctx, std::string(sopName(o.code)) + ":" + kindName(kind),
                   fmt("step %d %s on %s", step, sopName(o.code), kindName(kind))))
        return;
    }
    ctx.label(std::string("op:") + sopName(o.code));
    if (o.code == S_TRANSP || o.code == S_ADDMAT) nt = true;
    step++;
  }
  std::vector<double> x((size_t)r.nc), y((size_t)r.nr);
  for (int j = 0; j < r.nc; j++) x[(size_t)j] = (double)((j * 7 + c.nr * 3) % 11 - 5) / 2.;
  for (int i = 0; i < r.nr; i++) y[(size_t)i] = (double)((i * 5 + c.nc * 2) % 13 - 6) / 4.;
  for (int b = 0; b < 2 && !ctx.failed(); b++) observe(*ms[b], r, x, y, ctx, kindName(SPCS + b));
  // extractDiag on square matrices
  if (r.nr == r.nc && !ctx.failed())
    for (int b = 0; b < 2; b++)
    {
      std::vector<LD> d;
      for (int i = 0; i < r.nr; i++) d.push_back(r.at(i, i));
      sameVec(dynamic_cast<MatrixSparse*>(ms[b].get())->extractDiag(1), d, ctx,
              std::string("extractDiag:") + kindName(SPCS + b), "extractDiag(1)");
    }
  ctx.nontrivial(nt || c.nr != c.nc);
  Hash h;
  h.add(c.nr).add(c.nc);
  for (auto& o : c.ops) h.add(o.code);
  int nz = 0;
  for (auto v : c.init) nz += (v != 0);
  h.add(nz);
  ctx.sig = h.h;
}
VERIF_SUB(sparse_seq, SeqCase, genSparseSeq, runSparseSeq);

// =================================================================== matprod ============
// products between matrices of every storage, with and without transposition
struct ProdCase
{
  int kx = 0, ky = 0, kout = 0; // storage of x, y and of the receiving matrix
  int n1 = 1, n2 = 1, n3 = 1;   // op(x) is n1 x n2, op(y) is n2 x n3
  int tx = 0, ty = 0;
  int form = 0; // 0 prodMatMatInPlace, 1 prodNormMatMat (A M At / At M A), 2 prodNormMatVec, 3 MatrixFactory::prodMatMat
  std::vector<double> xv, yv, dv;
  template<class A> void io(A& a)
  {
    a("kx", kx)("ky", ky)("kout", kout)("n1", n1)("n2", n2)("n3", n3)("tx", tx)("ty", ty)("form", form)("xv", xv)("yv", yv)("dv", dv);
  }
};
static ProdCase genProd()
{
  ProdCase c;
  c.form = G::i(0, 3);
  c.n1 = G::sz(1, 7);
  c.n2 = G::sz(1, 7);
  c.n3 = G::sz(1, 7);
  c.tx = G::i(0, 1);
  c.ty = G::i(0, 1);
  int zp = G::pick<int>({0, 40, 75});
  if (c.form == 0 || c.form == 3)
  {
    // storage classes: dense rect / sparse cs / sparse eigen (square kinds when shapes allow)
    c.kx = G::pick<int>({RECT, RECT, SPCS, SPEIG});
    c.ky = G::pick<int>({RECT, RECT, SPCS, SPEIG});
    if (c.n1 == c.n2 && c.kx == RECT && G::b()) c.kx = G::pick<int>({SQGEN, SYM});
    if (c.n2 == c.n3 && c.ky == RECT && G::b()) c.ky = G::pick<int>({SQGEN, SYM});
    bool sparseBoth = (c.kx >= SPCS && c.ky >= SPCS);
    if (sparseBoth) { c.ky = c.kx; c.kout = c.kx; } // one back-end at a time
    else c.kout = RECT;
    int xr = c.tx ? c.n2 : c.n1, xc = c.tx ? c.n1 : c.n2;
    int yr = c.ty ? c.n3 : c.n2, yc = c.ty ? c.n2 : c.n3;
    c.xv = genMatVals(xr, xc, c.kx, zp);
    c.yv = genMatVals(yr, yc, c.ky, zp);
    if (c.kx >= SPCS) ensureNonZero(c.xv);
    if (c.ky >= SPCS) ensureNonZero(c.yv);
  }
  else
  {
    // A is n1 x n2 ; transpose=false: A M At (M n2 x n2) ; transpose=true: At M A (M n1 x n1)
    c.kx = G::pick<int>({RECT, SPCS, SPEIG});
    c.ky = (c.kx == RECT) ? G::pick<int>({SQGEN, SYM}) : c.kx;
    c.kout = (c.kx == RECT) ? G::pick<int>({SQGEN, SYM}) : c.kx;
    c.xv = genMatVals(c.n1, c.n2, RECT, zp);
    int nm = c.tx ? c.n1 : c.n2;
    c.yv = genMatVals(nm, nm, SYM, zp); // symmetric M so that a symmetric receiver is legitimate
    if (c.kx >= SPCS) { ensureNonZero(c.xv); ensureNonZero(c.yv); }
    if (c.form == 2) { c.dv = G::b() ? genVec(nm) : std::vector<double>(); }
  }
  return c;
}
static void runProd(const ProdCase& c, Ctx& ctx)
{
  ctx.label(fmt("form:%d", c.form));
  ctx.label(fmt("storage:%s*%s->%s", kindName(c.kx), kindName(c.ky), kindName(c.kout)));
  std::string kn = fmt("%sx%s", kindName(c.kx), kindName(c.ky));
  ctx.at(fmt("matprod:form%d:%s:t%d%d", c.form, kn.c_str(), c.tx, c.ty));
  if (c.form == 0 || c.form == 3)
  {
    int xr = c.tx ? c.n2 : c.n1, xc = c.tx ? c.n1 : c.n2;
    int yr = c.ty ? c.n3 : c.n2, yc = c.ty ? c.n2 : c.n3;
    Ref rx = refFrom(xr, xc, c.xv), ry = refFrom(yr, yc, c.yv);
    auto x = build(c.kx, rx), y = build(c.ky, ry);
    Ref e = mul(c.tx ? rx.t() : rx, c.ty ? ry.t() : ry);
    LD sc = maxAbs(rx) * maxAbs(ry) * c.n2;
    if (c.form == 0)
    {
      std::unique_ptr<AMatrix> out;
      if (c.kout >= SPCS) out.reset(new MatrixSparse(c.n1, c.n3, c.kout == SPEIG ? 1 : 0));
      else out.reset(new MatrixRectangular(c.n1, c.n3));
      out->prodMatMatInPlace(x.get(), y.get(), c.tx != 0, c.ty != 0);
      sameMat(*out, e, ctx, fmt("prodMatMatInPlace:%s:t%d%d", kn.c_str(), c.tx, c.ty), "prodMatMatInPlace", sc);
    }
    else
    {
      std::unique_ptr<AMatrix> out(MatrixFactory::prodMatMat(x.get(), y.get(), c.tx != 0, c.ty != 0));
      if (!out) { ctx.fail("factoryProdMatMat:" + kn, "MatrixFactory::prodMatMat returned null on consistent sizes"); return; }
      sameMat(*out, e, ctx, fmt("factoryProdMatMat:%s:t%d%d", kn.c_str(), c.tx, c.ty), "MatrixFactory::prodMatMat", sc);
    }
    ctx.nontrivial(c.tx || c.ty || c.kx >= SPCS || c.ky >= SPCS || c.n1 != c.n3);
  }
  else
  {
    Ref ra = refFrom(c.n1, c.n2, c.xv);
    int nm = c.tx ? c.n1 : c.n2;
    int nout = c.tx ? c.n2 : c.n1;
    Ref rm = refFrom(nm, nm, c.yv);
    if (c.form == 2)
    {
      for (auto& v : rm.a) v = 0;
      for (int i = 0; i < nm; i++) rm.at(i, i) = c.dv.empty() ? 1.L : (LD)c.dv[(size_t)i];
    }
    Ref e = c.tx ? mul(mul(ra.t(), rm), ra) : mul(mul(ra, rm), ra.t());
    LD sc = maxAbs(ra) * maxAbs(ra) * std::max((LD)1, maxAbs(rm)) * nm * nm;
    auto a = build(c.kx, ra);
    std::string key = fmt("%s:%s:t%d", c.form == 1 ? "prodNormMatMat" : "prodNormMatVec", kindName(c.kx), c.tx);
    if (c.kx >= SPCS)
    {
      MatrixSparse out(nout, nout, c.kx == SPEIG ? 1 : 0);
      const MatrixSparse* as = dynamic_cast<const MatrixSparse*>(a.get());
      if (c.form == 1)
      {
        auto m = build(c.kx, rm);
        out.prodNormMatMatInPlace(as, dynamic_cast<const MatrixSparse*>(m.get()), c.tx != 0);
        sameMat(out, e, ctx, key, "sparse prodNormMatMatInPlace", sc);
        std::unique_ptr<MatrixSparse> o2(prodNormMatMat(as, dynamic_cast<const MatrixSparse*>(m.get()), c.tx != 0));
        if (!ctx.failed() && o2) sameMat(*o2, e, ctx, key + ":free", "sparse prodNormMatMat()", sc);
      }
      else
      {
        out.prodNormMatVecInPlace(as, toVD(c.dv), c.tx != 0);
        sameMat(out, e, ctx, key, "sparse prodNormMatVecInPlace", sc);
        std::unique_ptr<MatrixSparse> o2(prodNormMat(as, toVD(c.dv), c.tx != 0));
        if (!ctx.failed() && o2) sameMat(*o2, e, ctx, key + ":free", "sparse prodNormMat()", sc);
      }
    }
    else
    {
      std::unique_ptr<AMatrix> out;
      if (c.kout == SYM) out.reset(new MatrixSquareSymmetric(nout));
      else out.reset(new MatrixSquareGeneral(nout));
      if (c.form == 1)
      {
        auto m = build(c.ky, rm);
        out->prodNormMatMatInPlace(a.get(), m.get(), c.tx != 0);
        sameMat(*out, e, ctx, key + ":" + kindName(c.kout), "dense prodNormMatMatInPlace", sc);
        if (!ctx.failed())
        {
          std::unique_ptr<MatrixSquareGeneral> o2(prodNormMatMat(dynamic_cast<const AMatrixDense*>(a.get()),
                                                                 dynamic_cast<const AMatrixDense*>(m.get()), c.tx != 0));
          if (o2) sameMat(*o2, e, ctx, key + ":free", "dense prodNormMatMat()", sc);
        }
        if (!ctx.failed())
        {
          MatrixSquareSymmetric s2(nout);
          // documented: this = t(Y) X Y for transpose=false, Y X t(Y) for transpose=true
          s2.normMatrix(*a, *dynamic_cast<AMatrixSquare*>(m.get()), c.tx == 0);
          sameMat(s2, e, ctx, key + ":normMatrix", "MatrixSquareSymmetric::normMatrix", sc);
        }
        // the same product without the middle matrix (an empty x): t(Y) Y for transpose=false, Y t(Y) for transpose=true
        for (int tr = 0; tr < 2 && !ctx.failed(); tr++)
        {
          Ref e0 = tr ? mul(ra, ra.t()) : mul(ra.t(), ra);
          MatrixSquareSymmetric s3(e0.nr);
          s3.normMatrix(*a, MatrixSquareGeneral(), tr != 0);
          sameMat(s3, e0, ctx, key + fmt(":normMatrix-nox:t%d", tr), "MatrixSquareSymmetric::normMatrix without x");
        }
      }
      else
      {
        out->prodNormMatVecInPlace(*a, toVD(c.dv), c.tx != 0);
        sameMat(*out, e, ctx, key + ":" + kindName(c.kout), "dense prodNormMatVecInPlace", sc);
        if (!ctx.failed())
        {
          std::unique_ptr<MatrixSquareGeneral> o2(prodNormMat(*dynamic_cast<const AMatrixDense*>(a.get()), toVD(c.dv), c.tx != 0));
          if (o2) sameMat(*o2, e, ctx, key + ":free", "dense prodNormMat()", sc);
        }
      }
    }
    ctx.nontrivial(c.n1 != c.n2 || c.kx >= SPCS);
  }
  Hash h;
  h.add(c.form).add(c.kx).add(c.ky).add(c.kout).add(c.n1).add(c.n2).add(c.n3).add(c.tx).add(c.ty);
  ctx.sig = h.h;
}
VERIF_SUB(matprod, ProdCase, genProd, runProd);

// =================================================================== solve ==============
// inversion, linear solve, Cholesky (dense and both sparse back-ends), eigen-decomposition on
// well-conditioned matrices built as  B Bt + n I  (SPD, integer entries) or a diagonally
// dominant general matrix.
struct SolveCase
{
  int n = 1, kind = 0, zeroPct = 0;
  std::vector<double> bv;   // n x n factor
  std::vector<double> rhs;  // n
  template<class A> void io(A& a) { a("n", n)("kind", kind)("zeroPct", zeroPct)("bv", bv)("rhs", rhs); }
};
static SolveCase genSolve()
{
  SolveCase c;
  c.n = G::sz(1, 8);
  c.kind = G::i(SQGEN, SPEIG);
  c.zeroPct = G::pick<int>({0, 50, 80});
  c.bv.resize((size_t)c.n * (size_t)c.n);
  for (auto& v : c.bv) v = G::pct(c.zeroPct) ? 0. : (double)G::i(-3, 3);
  c.rhs.resize((size_t)c.n);
  for (auto& v : c.rhs) v = (double)G::i(-8, 8);
  return c;
}
static Ref spdFrom(const SolveCase& c)
{
  Ref b = refFrom(c.n, c.n, c.bv);
  Ref a = mul(b, b.t());
  for (int i = 0; i < c.n; i++) a.at(i, i) += c.n;
  return a;
}
// own Cholesky (lower), long double
static bool refChol(const Ref& a, Ref& l)
{
  int n = a.nr;
  l = Ref(n, n);
  for (int j = 0; j < n; j++)
  {
    LD s = a.at(j, j);
    for (int k = 0; k < j; k++) s -= l.at(j, k) * l.at(j, k);
    if (s <= 0) return false;
    l.at(j, j) = sqrtl(s);
    for (int i = j + 1; i < n; i++)
    {
      LD t = a.at(i, j);
      for (int k = 0; k < j; k++) t -= l.at(i, k) * l.at(j, k);
      l.at(i, j) = t / l.at(j, j);
    }
  }
  return true;
}
static void runSolve(const SolveCase& c, Ctx& ctx)
{
  std::string kn = kindName(c.kind);
  ctx.label("kind:" + kn);
  Ref a = spdFrom(c);
  if (c.kind == SQGEN)
  {
    // make it non symmetric but keep strict diagonal dominance
    for (int i = 0; i < c.n; i++)
      for (int j = 0; j < i; j++) a.at(i, j) = -a.at(i, j) / 2;
    for (int i = 0; i < c.n; i++)
    {
      LD s = 0;
      for (int j = 0; j < c.n; j++) if (j != i) s += fabsl(a.at(i, j));
      a.at(i, i) = s + 1 + i;
    }
  }
  int n = c.n;
  LD amax = maxAbs(a);
  auto m = build(c.kind, a);
  VectorDouble b = toVD(c.rhs);
  LD bmax = 0;
  for (auto v : c.rhs) bmax = std::max(bmax, fabsl((LD)v));
  // ---- solve: residual
  {
    VectorDouble x((size_t)n, 0.);
    int err = m->solve(b, x);
    if (err != 0) { ctx.fail("solve:" + kn, fmt("solve returned %d on a well-conditioned matrix", err)); return; }
    LD xmax = 0;
    for (auto v : x) xmax = std::max(xmax, fabsl((LD)v));
    for (int i = 0; i < n; i++)
    {
      LD s = 0;
      for (int j = 0; j < n; j++) s += a.at(i, j) * (LD)x[(size_t)j];
      if (!(fabsl(s - (LD)c.rhs[(size_t)i]) <= 1e-10L * (amax * xmax * n + bmax)))
      {
        ctx.fail("solve:" + kn, fmt("solve: residual row %d = %.3g", i, (double)(s - (LD)c.rhs[(size_t)i])));
        return;
      }
    }
  }
  // ---- invert: A * inv = I
  {
    std::unique_ptr<AMatrix> inv(dynamic_cast<AMatrix*>(m->clone()));
    int err = inv->invert();
    if (err != 0) { ctx.fail("invert:" + kn, fmt("invert returned %d on a well-conditioned matrix", err)); return; }
    LD imax = 0;
    for (int i = 0; i < n; i++) for (int j = 0; j < n; j++) imax = std::max(imax, fabsl((LD)inv->getValue(i, j)));
    for (int i = 0; i < n; i++)
      for (int j = 0; j < n; j++)
      {
        LD s = 0;
        for (int k = 0; k < n; k++) s += a.at(i, k) * (LD)inv->getValue(k, j);
        LD e = (i == j) ? 1.L : 0.L;
        if (!(fabsl(s - e) <= 1e-10L * (amax * imax * n + 1)))
        {
          ctx.fail("invert:" + kn, fmt("A*inv(A) (%d,%d) = %.17g", i, j, (double)s));
          return;
        }
      }
  }
  Ref l;
  bool spd = (c.kind != SQGEN) && refChol(a, l);
  // ---- Cholesky
  if (spd && c.kind == SYM)
  {
    MatrixSquareSymmetric* ms = dynamic_cast<MatrixSquareSymmetric*>(m.get());
    CholeskyDense ch(ms);
    if (!ch.isReady()) { ctx.fail("choleskyDense:ready", "CholeskyDense not ready on an SPD matrix"); return; }
    for (int i = 0; i < n; i++)
      for (int j = 0; j <= i; j++)
        if (!close(ch.getLowerTriangle(i, j), (double)l.at(i, j), 1e-10, 1e-10))
        {
          ctx.fail("choleskyDense:L", fmt("L(%d,%d) = %.17g expected %.17g", i, j, ch.getLowerTriangle(i, j), (double)l.at(i, j)));
          return;
        }
    LD ld = 0;
    for (int i = 0; i < n; i++) ld += 2 * logl(l.at(i, i));
    if (!close(ch.computeLogDeterminant(), (double)ld, 1e-10, 1e-10))
      ctx.fail("choleskyDense:logdet", fmt("logdet %.17g expected %.17g", ch.computeLogDeterminant(), (double)ld));
    // L x, Lt x, inv(L) x, inv(Lt) x, solve
    VectorDouble out((size_t)n, 0.);
    constvect bs(b.data(), b.size());
    auto chk = [&](const char* what, int rcode, const std::vector<LD>& e) {
      if (rcode != 0) { ctx.fail(std::string("choleskyDense:") + what, "returned non-zero"); return; }
      sameVec(out, e, ctx, std::string("choleskyDense:") + what, what, 1e3);
    };
    std::vector<LD> e((size_t)n);
    for (int i = 0; i < n; i++) { LD s = 0; for (int k = 0; k <= i; k++) s += l.at(i, k) * (LD)b[(size_t)k]; e[(size_t)i] = s; }
    { vect os(out.data(), out.size()); chk("LX", ch.LX(bs, os), e); }
    for (int i = 0; i < n; i++) { LD s = 0; for (int k = i; k < n; k++) s += l.at(k, i) * (LD)b[(size_t)k]; e[(size_t)i] = s; }
    { vect os(out.data(), out.size()); chk("LtX", ch.LtX(bs, os), e); }
    // inv(L) b : forward substitution
    for (int i = 0; i < n; i++) { LD s = b[(size_t)i]; for (int k = 0; k < i; k++) s -= l.at(i, k) * e[(size_t)k]; e[(size_t)i] = s / l.at(i, i); }
    { vect os(out.data(), out.size()); chk("InvLX", ch.InvLX(bs, os), e); }
    for (int i = n - 1; i >= 0; i--) { LD s = b[(size_t)i]; for (int k = i + 1; k < n; k++) s -= l.at(k, i) * e[(size_t)k]; e[(size_t)i] = s / l.at(i, i); }
    { vect os(out.data(), out.size()); chk("InvLtX", ch.InvLtX(bs, os), e); }
    {
      vect os(out.data(), out.size());
      if (ch.solve(bs, os) != 0) ctx.fail("choleskyDense:solve", "solve returned non-zero");
      else
        for (int i = 0; i < n && !ctx.failed(); i++)
        {
          LD s = 0;
          for (int j = 0; j < n; j++) s += a.at(i, j) * (LD)out[(size_t)j];
          if (!(fabsl(s - (LD)b[(size_t)i]) <= 1e-9L * (amax * n * 10 + bmax)))
            ctx.fail("choleskyDense:solve", fmt("residual row %d = %.3g", i, (double)(s - (LD)b[(size_t)i])));
        }
    }
  }
  if (spd && c.kind >= SPCS)
  {
    MatrixSparse* ms = dynamic_cast<MatrixSparse*>(m.get());
    CholeskySparse ch(ms);
    std::string key = std::string("choleskySparse:") + kn;
    if (!ch.isReady()) { ctx.fail(key + ":ready", "CholeskySparse not ready on an SPD matrix"); return; }
    LD ld = 0;
    for (int i = 0; i < n; i++) ld += 2 * logl(l.at(i, i));
    if (!close(ch.computeLogDeterminant(), (double)ld, 1e-9, 1e-9))
      ctx.fail(key + ":logdet", fmt("logdet %.17g expected %.17g", ch.computeLogDeterminant(), (double)ld));
    VectorDouble out((size_t)n, 0.);
    constvect bs(b.data(), b.size());
    vect os(out.data(), out.size());
    if (ch.solve(bs, os) != 0) ctx.fail(key + ":solve", "solve returned non-zero");
    else
      for (int i = 0; i < n && !ctx.failed(); i++)
      {
        LD s = 0;
        for (int j = 0; j < n; j++) s += a.at(i, j) * (LD)out[(size_t)j];
        if (!(fabsl(s - (LD)b[(size_t)i]) <= 1e-9L * (amax * n * 10 + bmax)))
          ctx.fail(key + ":solve", fmt("residual row %d = %.3g", i, (double)(s - (LD)b[(size_t)i])));
      }
    // simulate-type products: y = inv(Lt) b must satisfy  yt A y = bt b  up to the permutation used,
    // i.e. || Lt y - b || = 0 for *some* factor with L Lt = P A Pt; the invariant norm is checked:
    if (!ctx.failed())
    {
      VectorDouble y((size_t)n, 0.);
      vect ys(y.data(), y.size());
      if (ch.InvLtX(bs, ys) == 0)
      {
        LD q = 0, bb = 0;
        for (int i = 0; i < n; i++) for (int j = 0; j < n; j++) q += (LD)y[(size_t)i] * a.at(i, j) * (LD)y[(size_t)j];
        for (int i = 0; i < n; i++) bb += (LD)b[(size_t)i] * (LD)b[(size_t)i];
        if (!(fabsl(q - bb) <= 1e-8L * (bb + 1)))
          ctx.fail(key + ":InvLtX", fmt("y=InvLtX(b): yt A y = %.17g, expected bt b = %.17g", (double)q, (double)bb));
      }
    }
  }
  // ---- eigen decomposition (symmetric dense)
  if (c.kind == SYM && !ctx.failed())
  {
    MatrixSquareSymmetric* ms = dynamic_cast<MatrixSquareSymmetric*>(m.get());
    if (ms->computeEigen() != 0) { ctx.fail("eigen:return", "computeEigen failed"); return; }
    VectorDouble ev = ms->getEigenValues();
    const MatrixSquareGeneral* V = ms->getEigenVectors();
    if ((int)ev.size() != n || V == nullptr) { ctx.fail("eigen:size", "wrong number of eigenvalues"); return; }
    for (int k = 0; k + 1 < n; k++)
      if (ev[(size_t)k] < ev[(size_t)k + 1] - 1e-9 * (double)amax)
      {
        ctx.fail("eigen:order", "eigenvalues not in decreasing order");
        return;
      }
    for (int k = 0; k < n && !ctx.failed(); k++)
    {
      for (int i = 0; i < n; i++)
      {
        LD s = 0;
        for (int j = 0; j < n; j++) s += a.at(i, j) * (LD)V->getValue(j, k);
        if (!(fabsl(s - (LD)ev[(size_t)k] * (LD)V->getValue(i, k)) <= 1e-9L * amax * n))
        {
          ctx.fail("eigen:Av=lv", fmt("A v_%d != lambda v_%d at row %d", k, k, i));
          break;
        }
      }
      for (int k2 = 0; k2 <= k && !ctx.failed(); k2++)
      {
        LD s = 0;
        for (int i = 0; i < n; i++) s += (LD)V->getValue(i, k) * (LD)V->getValue(i, k2);
        if (!(fabsl(s - (k == k2 ? 1.L : 0.L)) <= 1e-9L))
          ctx.fail("eigen:orthonormal", fmt("v_%d . v_%d = %.17g", k, k2, (double)s));
      }
    }
  }
  // determinant of dense square matrices against the reference (LU without pivoting is fine: diagonally dominant)
  if (c.kind <= SYM && !ctx.failed())
  {
    Ref u = a;
    LD det = 1;
    for (int k = 0; k < n; k++)
    {
      det *= u.at(k, k);
      for (int i = k + 1; i < n; i++)
      {
        LD f = u.at(i, k) / u.at(k, k);
        for (int j = k; j < n; j++) u.at(i, j) -= f * u.at(k, j);
      }
    }
    double got = dynamic_cast<AMatrixSquare*>(m.get())->determinant();
    if (!close(got, (double)det, 1e-9, 1e-9)) ctx.fail("determinant:" + kn, fmt("determinant %.17g expected %.17g", got, (double)det));
  }
  ctx.nontrivial(n >= 2);
  Hash h;
  h.add(c.kind).add(c.n).add(c.zeroPct);
  for (auto v : c.bv) h.add((int)v);
  ctx.sig = h.h;
}
VERIF_SUB(solve, SolveCase, genSolve, runSolve);

// =================================================================== threads ============
// The thread count must not change any result (Eigen kernels under OpenMP).
struct ThrCase
{
  int n1 = 1, n2 = 1, n3 = 1, nth = 1, seed = 1;
  template<class A> void io(A& a) { a("n1", n1)("n2", n2)("n3", n3)("nth", nth)("seed", seed); }
};
static ThrCase genThr()
{
  ThrCase c;
  c.n1 = G::i(1, 140);
  c.n2 = G::i(1, 140);
  c.n3 = G::i(1, 140);
  c.nth = G::pick<int>({2, 3, 8, 16});
  c.seed = G::i(1, 1000000);
  return c;
}
static double lcg(uint64_t& s)
{
  s = s * 6364136223846793005ull + 1442695040888963407ull;
  return (double)((int64_t)((s >> 33) % 2001) - 1000) / 64.;
}
static void runThr(const ThrCase& c, Ctx& ctx)
{
  // values are a deterministic function of the generated seed (expanded by a fixed LCG: large
  // matrices of independently shrinkable entries would make shrinking pointless here)
  uint64_t s = (uint64_t)c.seed;
  MatrixRectangular x(c.n1, c.n2), y(c.n2, c.n3);
  for (int i = 0; i < c.n1; i++) for (int j = 0; j < c.n2; j++) x.setValue(i, j, lcg(s));
  for (int i = 0; i < c.n2; i++) for (int j = 0; j < c.n3; j++) y.setValue(i, j, lcg(s));
  VectorDouble v((size_t)c.n2);
  for (auto& e : v) e = lcg(s);
  int saved = getMultiThread();
  auto compute = [&](MatrixRectangular& out, VectorDouble& mv, MatrixSquareGeneral*& nn) {
    out.prodMatMatInPlace(&x, &y);
    mv = x.prodMatVec(v);
    nn = prodNormMat(x, VectorDouble(), false);
  };
  setMultiThread(1);
  MatrixRectangular o1(c.n1, c.n3);
  VectorDouble v1;
  MatrixSquareGeneral* n1 = nullptr;
  compute(o1, v1, n1);
  setMultiThread(c.nth);
  MatrixRectangular o2(c.n1, c.n3);
  VectorDouble v2;
  MatrixSquareGeneral* n2 = nullptr;
  compute(o2, v2, n2);
  setMultiThread(saved > 0 ? saved : 1);
  // reference for a few entries (long double)
  LD sc = 16. * 16. * c.n2;
  for (int t = 0; t < 12; t++)
  {
    int i = (t * 37 + c.seed) % c.n1, j = (t * 53 + c.seed / 7) % c.n3;
    LD e = 0;
    for (int k = 0; k < c.n2; k++) e += (LD)x.getValue(i, k) * (LD)y.getValue(k, j);
    if (!(fabsl((LD)o2.getValue(i, j) - e) <= 1e-12L * sc))
    {
      ctx.fail("threads:prodMatMat:value", fmt("nth=%d (%d,%d) = %.17g expected %.17g", c.nth, i, j, o2.getValue(i, j), (double)e));
      break;
    }
  }
  for (int i = 0; i < c.n1 && !ctx.failed(); i++)
    for (int j = 0; j < c.n3; j++)
      if (!close(o1.getValue(i, j), o2.getValue(i, j), 1e-13, 1e-13 * (double)sc))
      {
        ctx.fail("threads:prodMatMat", fmt("1 thread vs %d threads differ at (%d,%d): %.17g vs %.17g", c.nth, i, j, o1.getValue(i, j), o2.getValue(i, j)));
        break;
      }
  for (size_t i = 0; i < v1.size() && !ctx.failed(); i++)
    if (!close(v1[i], v2[i], 1e-13, 1e-13 * (double)sc))
      ctx.fail("threads:prodMatVec", fmt("1 thread vs %d threads differ at %d", c.nth, (int)i));
  if (n1 && n2)
    for (int i = 0; i < c.n1 && !ctx.failed(); i++)
      for (int j = 0; j < c.n1; j++)
        if (!close(n1->getValue(i, j), n2->getValue(i, j), 1e-13, 1e-13 * (double)sc))
        {
          ctx.fail("threads:prodNormMat", fmt("1 thread vs %d threads differ at (%d,%d)", c.nth, i, j));
          break;
        }
  delete n1;
  delete n2;
  ctx.label(fmt("nth:%d", c.nth));
  ctx.nontrivial(c.n1 * c.n2 * c.n3 > 20000);
  ctx.sig = Hash().add(c.n1).add(c.n2).add(c.n3).add(c.nth).h;
}
VERIF_SUB(threads, ThrCase, genThr, runThr);

// =================================================================== vecops =============
struct VecCase
{
  std::vector<double> a, b;
  int na_a = 0; // how many entries of a are replaced by TEST (NA), at positions given by napos
  std::vector<int> napos;
  double s = 1;
  template<class A> void io(A& ar) { ar("a", a)("b", b)("napos", napos)("s", s); }
};
static VecCase genVecCase()
{
  VecCase c;
  int n = G::sz(1, 12);
  c.a.resize((size_t)n);
  c.b.resize((size_t)n);
  bool ties = G::b();
  for (auto& v : c.a) v = ties ? (double)G::i(-3, 3) : genVal();
  for (auto& v : c.b) v = genVal();
  if (G::pct(30))
  {
    int k = G::i(1, std::max(1, n / 2));
    for (int t = 0; t < k; t++) c.napos.push_back(G::i(0, n - 1));
  }
  c.s = genVal();
  return c;
}
static void runVec(const VecCase& c, Ctx& ctx)
{
  size_t n = c.a.size();
  VectorDouble a = toVD(c.a), b = toVD(c.b);
  std::vector<int> isna(n, 0);
  for (int p : c.napos) { a[(size_t)p] = TEST; isna[(size_t)p] = 1; }
  bool hasNA = !c.napos.empty();
  ctx.label(hasNA ? "with-NA" : "no-NA");
  // reference over defined values
  std::vector<LD> def;
  for (size_t i = 0; i < n; i++) if (!isna[i]) def.push_back(c.a[i]);
  auto ck = [&](const char* what, double got, LD exp, bool defined = true) {
    if (!defined)
    {
      if (!FFFF(got)) ctx.fail(std::string("VH::") + what, fmt("%s = %.17g, expected NA (no defined value)", what, got));
      return;
    }
    if (!close(got, (double)exp, 1e-10, 1e-10)) ctx.fail(std::string("VH::") + what, fmt("%s = %.17g expected %.17g", what, got, (double)exp));
  };
  if (!def.empty())
  {
    LD mn = def[0], mx = def[0], sum = 0;
    for (auto v : def) { mn = std::min(mn, v); mx = std::max(mx, v); sum += v; }
    LD mean = sum / def.size();
    LD var = 0;
    for (auto v : def) var += (v - mean) * (v - mean);
    var /= def.size();
    ck("minimum", VH::minimum(a), mn);
    ck("maximum", VH::maximum(a), mx);
    ck("mean", VH::mean(a), mean);
    if (def.size() >= 2)
    {
      ck("variance", VH::variance(a, true), var);
      ck("stdv", VH::stdv(a, true), sqrtl(var));
      ck("variance(n-1)", VH::variance(a, false), var * def.size() / (def.size() - 1));
    }
    ck("cumul", VH::cumul(a), sum);
  }
  if (!hasNA)
  {
    LD ip = 0, n2 = 0;
    for (size_t i = 0; i < n; i++) { ip += (LD)c.a[i] * c.b[i]; n2 += (LD)c.a[i] * c.a[i]; }
    ck("innerProduct", VH::innerProduct(a, b), ip);
    ck("norm", VH::norm(a), sqrtl(n2));
    // element-wise
    VectorDouble r = VH::add(a, b);
    for (size_t i = 0; i < n; i++) if (!close(r[i], c.a[i] + c.b[i], 0, 0)) ctx.fail("VH::add", "add");
    r = VH::subtract(a, b); // documented: b - a
    for (size_t i = 0; i < n; i++) if (!close(r[i], c.b[i] - c.a[i], 0, 0)) ctx.fail("VH::subtract", fmt("subtract(a,b)[%d] = %g, documented b-a = %g", (int)i, r[i], c.b[i] - c.a[i]));
    r = a;
    VH::multiplyInPlace(r, b);
    for (size_t i = 0; i < n; i++) if (!close(r[i], c.a[i] * c.b[i], 0, 0)) ctx.fail("VH::multiplyInPlace", "multiplyInPlace");
    VectorDouble t = a;
    VH::multiplyConstant(t, c.s);
    for (size_t i = 0; i < n; i++) if (!close(t[i], c.a[i] * c.s, 0, 0)) ctx.fail("VH::multiplyConstant", "multiplyConstant");
    t = a;
    VH::addConstant(t, c.s);
    for (size_t i = 0; i < n; i++) if (!close(t[i], c.a[i] + c.s, 0, 0)) ctx.fail("VH::addConstant", "addConstant");
    t = a;
    VH::cumulate(t, b, c.s); // t += s * b
    for (size_t i = 0; i < n; i++) if (!close(t[i], c.a[i] + c.s * c.b[i], 1e-15, 1e-15)) ctx.fail("VH::cumulate", "cumulate");
    // sorting / ranking
    VectorDouble so = VH::sort(a, true);
    std::vector<double> es = c.a;
    std::sort(es.begin(), es.end());
    for (size_t i = 0; i < n; i++) if (so[i] != es[i]) { ctx.fail("VH::sort", "sort ascending is not the sorted permutation"); break; }
    so = VH::sort(a, false);
    for (size_t i = 0; i < n; i++) if (so[i] != es[n - 1 - i]) { ctx.fail("VH::sort:desc", "sort descending is not the reversed sorted permutation"); break; }
    {
      // isSorted is strict (equal neighbours are "not sorted"): only asserted on distinct values
      bool distinct = std::adjacent_find(es.begin(), es.end()) == es.end();
      if (distinct && VH::isSorted(VH::sort(a, true), true) != true) ctx.fail("VH::isSorted", "sorted vector of distinct values not recognised as sorted");
      if (distinct && n >= 2 && VH::isSorted(VH::sort(a, false), true)) ctx.fail("VH::isSorted", "descending vector reported as ascending");
    }
    VectorInt ord = VH::orderRanks(a, true);
    // orderRanks: indices such that a[ord[k]] is non-decreasing and ord is a permutation
    {
      std::vector<int> seen(n, 0);
      bool okp = ord.size() == n;
      for (size_t k = 0; okp && k < n; k++)
      {
        if (ord[k] < 0 || ord[k] >= (int)n || seen[(size_t)ord[k]]++) okp = false;
        if (okp && k > 0 && c.a[(size_t)ord[k - 1]] > c.a[(size_t)ord[k]]) okp = false;
      }
      if (!okp) ctx.fail("VH::orderRanks", "orderRanks is not a sorting permutation");
    }
    VectorInt rk = VH::sortRanks(a, true);
    {
      // sortRanks: rank of each element in the sorted sequence; a[i] < a[j] => rk[i] < rk[j]; permutation
      std::vector<int> seen(n, 0);
      bool okp = rk.size() == n;
      for (size_t k = 0; okp && k < n; k++)
        if (rk[k] < 0 || rk[k] >= (int)n || seen[(size_t)rk[k]]++) okp = false;
      for (size_t i = 0; okp && i < n; i++)
        for (size_t j = 0; okp && j < n; j++)
          if (c.a[i] < c.a[j] && !(rk[i] < rk[j])) okp = false;
      if (!okp) ctx.fail("VH::sortRanks", "sortRanks is not a consistent ranking");
    }
    VectorDouble un = VH::unique(a);
    {
      std::vector<double> eu = es;
      eu.erase(std::unique(eu.begin(), eu.end()), eu.end());
      bool same = un.size() == eu.size();
      for (size_t i = 0; same && i < eu.size(); i++) same = un[i] == eu[i];
      if (!same) ctx.fail("VH::unique", "unique() is not the sorted set of distinct values");
    }
    // VectorNumT members
    VectorDouble w = a;
    ck("VectorNumT::sum", w.sum(), [&] { LD s = 0; for (auto v : c.a) s += v; return s; }());
    ck("VectorNumT::minimum", w.minimum(), *std::min_element(c.a.begin(), c.a.end()));
    ck("VectorNumT::maximum", w.maximum(), *std::max_element(c.a.begin(), c.a.end()));
    ck("VectorNumT::mean", w.mean(), [&] { LD s = 0; for (auto v : c.a) s += v; return s / n; }());
    ck("VectorNumT::norm", w.norm(), sqrtl(n2));
    ck("VectorNumT::innerProduct", w.innerProduct(b), ip);
  }
  ctx.nontrivial(n >= 2);
  Hash h;
  for (auto v : c.a) h.addq(v);
  h.add((int)c.napos.size());
  ctx.sig = h.h;
}
VERIF_SUB(vecops, VecCase, genVecCase, runVec);


// =================================================================== subsample ==========
// sub-sampling / gluing: sample, unsample, createReduce(One), copyReduce, glue in every dense storage
// (+ sparse sources where the API takes an AMatrix), index lists given or inverted
struct SubCase
{
  int kind = 0, nr = 1, nc = 1, api = 0;
  std::vector<double> vals, vals2;
  std::vector<int> rows, cols;
  int invRow = 0, invCol = 0, emptyRows = 0, emptyCols = 0, shiftRow = 0, shiftCol = 0, nr2 = 1, nc2 = 1;
  template<class A> void io(A& a)
  {
    a("kind", kind)("nr", nr)("nc", nc)("api", api)("vals", vals)("vals2", vals2)("rows", rows)("cols", cols)("invRow", invRow)("invCol", invCol)(
      "emptyRows", emptyRows)("emptyCols", emptyCols)("shiftRow", shiftRow)("shiftCol", shiftCol)("nr2", nr2)("nc2", nc2);
  }
};
static std::vector<int> genSubset(int n, bool allowEmpty)
{
  std::vector<int> v;
  for (int i = 0; i < n; i++) if (G::pct(55)) v.push_back(i);
  if (v.empty() && !allowEmpty) v.push_back(G::i(0, n - 1));
  if ((int)v.size() == n && n > 1 && G::pct(60)) v.erase(v.begin() + G::i(0, n - 1));
  return v;
}
static SubCase genSub()
{
  SubCase c;
  c.api = G::i(0, 5); // 0 sample, 1 sym sample, 2 unsample, 3 createReduce, 4 createReduceOne, 5 glue
  c.kind = G::pick<int>({RECT, RECT, SQGEN, SYM, SPCS, SPEIG});
  if (c.api == 1) c.kind = SYM;
  if (c.api >= 3 && c.kind >= SPCS) c.kind = RECT; // createReduce / glue of the factory only know the dense classes
  c.nr = G::sz(1, 7);
  c.nc = (c.kind == RECT || c.kind >= SPCS) ? G::sz(1, 7) : c.nr;
  c.vals = genMatVals(c.nr, c.nc, c.kind, 20);
  if (c.kind >= SPCS) ensureNonZero(c.vals);
  c.rows = genSubset(c.nr, false);
  c.cols = genSubset(c.nc, false);
  c.invRow = G::i(0, 1);
  c.invCol = G::i(0, 1);
  c.emptyRows = G::pct(15);
  c.emptyCols = G::pct(15);
  // an inverted list must leave something
  if (c.invRow && (int)c.rows.size() == c.nr) c.invRow = 0;
  if (c.invCol && (int)c.cols.size() == c.nc) c.invCol = 0;
  if (c.api == 5)
  {
    c.shiftRow = G::i(0, 1);
    c.shiftCol = G::i(0, 1);
    if (!c.shiftRow && !c.shiftCol) c.shiftRow = 1;
    // glue side by side needs equal numbers of rows, one above the other equal numbers of columns
    c.nr2 = (c.shiftRow && !c.shiftCol) ? G::sz(1, 5) : (c.shiftCol && !c.shiftRow ? c.nr : G::sz(1, 5));
    c.nc2 = (c.shiftRow && !c.shiftCol) ? c.nc : G::sz(1, 5);
    c.kind = RECT;
    c.vals = genMatVals(c.nr, c.nc, RECT, 20);
    c.vals2 = genMatVals(c.nr2, c.nc2, RECT, 20);
  }
  if (c.api == 2)
  {
    // unsample: 'this' is nr x nc, A has the shape of the fetched index sets
    int na = c.invRow ? c.nr - (int)c.rows.size() : (int)c.rows.size();
    int nb = c.invCol ? c.nc - (int)c.cols.size() : (int)c.cols.size();
    if (c.emptyRows) na = c.nr;
    if (c.emptyCols) nb = c.nc;
    c.kind = RECT;
    c.vals = genMatVals(c.nr, c.nc, RECT, 20);
    c.vals2 = genMatVals(na, nb, RECT, 10);
    c.nr2 = na;
    c.nc2 = nb;
  }
  return c;
}
static std::vector<int> effective(const std::vector<int>& list, int n, bool inv, bool empty)
{
  if (empty)
  {
    std::vector<int> all((size_t)n);
    for (int i = 0; i < n; i++) all[(size_t)i] = i;
    return all; // an empty list means "all" (inversion of "all" is not generated: see below)
  }
  if (!inv) return list;
  std::vector<int> out;
  for (int i = 0; i < n; i++) if (std::find(list.begin(), list.end(), i) == list.end()) out.push_back(i);
  return out;
}
static VectorInt toVI(const std::vector<int>& v) { return VectorInt(v.begin(), v.end()); }
static void runSub(const SubCase& c, Ctx& ctx)
{
  static const char* apin[] = {"sample", "symSample", "unsample", "createReduce", "createReduceOne", "glue"};
  std::string kn = kindName(c.kind);
  ctx.label(std::string("api:") + apin[c.api]);
  ctx.label("kind:" + kn);
  Ref r = refFrom(c.nr, c.nc, c.vals);
  auto m = build(c.kind, r);
  // empty list + inversion would mean "drop everything": not generated
  bool invRow = c.invRow && !c.emptyRows, invCol = c.invCol && !c.emptyCols;
  std::vector<int> er = effective(c.rows, c.nr, invRow, c.emptyRows != 0);
  std::vector<int> ec = effective(c.cols, c.nc, invCol, c.emptyCols != 0);
  VectorInt rowsArg = c.emptyRows ? VectorInt() : toVI(c.rows);
  VectorInt colsArg = c.emptyCols ? VectorInt() : toVI(c.cols);
  std::string key = std::string(apin[c.api]) + ":" + kn + fmt(":inv%d%d", invRow ? 1 : 0, invCol ? 1 : 0);
  ctx.at(key);
  if (c.api == 0)
  {
    Ref e((int)er.size(), (int)ec.size());
    for (size_t i = 0; i < er.size(); i++) for (size_t j = 0; j < ec.size(); j++) e.at((int)i, (int)j) = r.at(er[i], ec[j]);
    std::unique_ptr<MatrixRectangular> out(MatrixRectangular::sample(m.get(), rowsArg, colsArg, invRow, invCol));
    if (!out) { ctx.fail(key, "sample() returned null for valid, non-empty index sets"); return; }
    sameMat(*out, e, ctx, key, "MatrixRectangular::sample");
  }
  else if (c.api == 1)
  {
    Ref e((int)er.size(), (int)er.size());
    for (size_t i = 0; i < er.size(); i++) for (size_t j = 0; j < er.size(); j++) e.at((int)i, (int)j) = r.at(er[i], er[j]);
    std::unique_ptr<MatrixSquareSymmetric> out(MatrixSquareSymmetric::sample(dynamic_cast<MatrixSquareSymmetric*>(m.get()), rowsArg, invRow));
    if (!out) { ctx.fail(key, "MatrixSquareSymmetric::sample returned null for a valid, non-empty index set"); return; }
    sameMat(*out, e, ctx, key, "MatrixSquareSymmetric::sample");
  }
  else if (c.api == 2)
  {
    Ref a = refFrom(c.nr2, c.nc2, c.vals2);
    if ((int)er.size() != c.nr2 || (int)ec.size() != c.nc2) { ctx.label("unsample-shape-mismatch(skipped)"); return; }
    MatrixRectangular A(c.nr2, c.nc2);
    for (int i = 0; i < c.nr2; i++) for (int j = 0; j < c.nc2; j++) A.setValue(i, j, (double)a.at(i, j));
    Ref e = r;
    for (size_t i = 0; i < er.size(); i++) for (size_t j = 0; j < ec.size(); j++) e.at(er[i], ec[j]) = a.at((int)i, (int)j);
    dynamic_cast<MatrixRectangular*>(m.get())->unsample(&A, rowsArg, colsArg, invRow, invCol);
    sameMat(*m, e, ctx, key, "MatrixRectangular::unsample");
  }
  else if (c.api == 3)
  {
    // createReduce(x, selRows, selCols, flagKeepRows, flagKeepCols): empty list = all rows (flagKeep assumed true)
    Ref e((int)er.size(), (int)ec.size());
    for (size_t i = 0; i < er.size(); i++) for (size_t j = 0; j < ec.size(); j++) e.at((int)i, (int)j) = r.at(er[i], ec[j]);
    std::unique_ptr<AMatrix> out(MatrixFactory::createReduce(m.get(), rowsArg, colsArg, !invRow, !invCol));
    if (!out) { ctx.fail(key, "createReduce returned null for valid, non-empty index sets"); return; }
    sameMat(*out, e, ctx, key, "MatrixFactory::createReduce");
    if (!ctx.failed())
    {
      MatrixRectangular dst((int)er.size(), (int)ec.size());
      dst.copyReduce(m.get(), toVI(er), toVI(ec));
      sameMat(dst, e, ctx, "copyReduce:" + kn, "copyReduce");
    }
  }
  else if (c.api == 4)
  {
    int ir = c.rows[0], ic = c.cols[0];
    bool keepR = !invRow, keepC = !invCol;
    if ((!keepR && c.nr < 2) || (!keepC && c.nc < 2)) { ctx.label("reduceOne-would-be-empty(skipped)"); return; }
    std::vector<int> rr, cc;
    for (int i = 0; i < c.nr; i++) if ((i == ir) == keepR) rr.push_back(i);
    for (int j = 0; j < c.nc; j++) if ((j == ic) == keepC) cc.push_back(j);
    Ref e((int)rr.size(), (int)cc.size());
    for (size_t i = 0; i < rr.size(); i++) for (size_t j = 0; j < cc.size(); j++) e.at((int)i, (int)j) = r.at(rr[i], cc[j]);
    std::unique_ptr<AMatrix> out(MatrixFactory::createReduceOne(m.get(), ir, ic, keepR, keepC));
    if (!out) { ctx.fail(key, "createReduceOne returned null for a valid request"); return; }
    sameMat(*out, e, ctx, key, "MatrixFactory::createReduceOne");
  }
  else
  {
    Ref r2 = refFrom(c.nr2, c.nc2, c.vals2);
    auto m2 = build(RECT, r2);
    int onr = c.shiftRow ? c.nr + c.nr2 : std::max(c.nr, c.nr2);
    int onc = c.shiftCol ? c.nc + c.nc2 : std::max(c.nc, c.nc2);
    Ref e(onr, onc);
    for (int i = 0; i < c.nr; i++) for (int j = 0; j < c.nc; j++) e.at(i, j) = r.at(i, j);
    int r0 = c.shiftRow ? c.nr : 0, c0 = c.shiftCol ? c.nc : 0;
    for (int i = 0; i < c.nr2; i++) for (int j = 0; j < c.nc2; j++) e.at(r0 + i, c0 + j) = r2.at(i, j);
    key = fmt("glue:rect:shift%d%d", c.shiftRow, c.shiftCol);
    ctx.at(key);
    std::unique_ptr<MatrixRectangular> out(MatrixRectangular::glue(m.get(), m2.get(), c.shiftRow != 0, c.shiftCol != 0));
    if (!out) { ctx.fail(key, "glue returned null for compatible shapes"); return; }
    sameMat(*out, e, ctx, key, "MatrixRectangular::glue");
  }
  ctx.nontrivial(c.nr != c.nc || invRow || invCol || c.kind >= SPCS || c.api == 5);
  ctx.sig = Hash().add(c.api).add(c.kind).add(c.nr).add(c.nc).add((int)c.rows.size()).add((int)c.cols.size()).add(c.invRow).add(c.invCol).add(c.shiftRow).add(c.shiftCol).h;
}
VERIF_SUB(subsample, SubCase, genSub, runSub);

VERIF_MAIN()
