// C09 — loaders fail cleanly on malformed or truncated files (libFuzzer target, DESIGN.md §5 C09).
//
// One binary, the reader under test is selected with the environment variable FZ_TARGET
// (nf:<Class>, csv, zycor, ifpen, bmp, f2g, las).  Every iteration: reset global state, write the
// bytes to a private scratch file on tmpfs, call the public reader.  Oracle inside the target:
//   * sanitizers (ASan/UBSan), no abort/exit (messageAbort -> trap), no exception escaping the call;
//   * when the reader SUCCEEDS the object must be usable (toString + getter sweep), savable, and
//     what was saved must load again — otherwise __builtin_trap().
// Modes without fuzzing:  FZ_GEN_CORPUS=<dir>  writes valid seed files built through the API;
//                         counters are appended to FZ_STATS=<file> at exit / before a trap.
#include <fuzzer/FuzzedDataProvider.h>

#include <cstdint>
#include <cstdio>
#include <cstdlib>
#include <cstring>
#include <fstream>
#include <sstream>
#include <string>
#include <vector>
#include <unistd.h>
#include <fcntl.h>
#include <sys/stat.h>

#include "geoslib_io.h"
#include "Basic/ASerializable.hpp"
#include "Basic/OptDbg.hpp"
#include "Basic/Law.hpp"
#include "Basic/CSVformat.hpp"
#include "Db/Db.hpp"
#include "Db/DbGrid.hpp"
#include "Db/DbLine.hpp"
#include "Db/DbGraphO.hpp"
#include "Db/DbMeshTurbo.hpp"
#include "Db/DbMeshStandard.hpp"
#include "Model/Model.hpp"
#include "Covariances/CovAniso.hpp"
#include "Covariances/CovContext.hpp"
#include "Neigh/NeighUnique.hpp"
#include "Neigh/NeighMoving.hpp"
#include "Neigh/NeighBench.hpp"
#include "Neigh/NeighCell.hpp"
#include "Neigh/NeighImage.hpp"
#include "Variogram/Vario.hpp"
#include "Variogram/VarioParam.hpp"
#include "Variogram/DirParam.hpp"
#include "Polygon/Polygons.hpp"
#include "Polygon/PolyElem.hpp"
#include "Basic/PolyLine2D.hpp"
#include "Anamorphosis/AnamHermite.hpp"
#include "Anamorphosis/AnamEmpirical.hpp"
#include "Anamorphosis/AnamDiscreteDD.hpp"
#include "Anamorphosis/AnamDiscreteIR.hpp"
#include "Mesh/MeshEStandard.hpp"
#include "Mesh/MeshETurbo.hpp"
#include "Mesh/MeshSpherical.hpp"
#include "Matrix/Table.hpp"
#include "LithoRule/Rule.hpp"
#include "Faults/Faults.hpp"
#include "Fractures/FracEnviron.hpp"
#include "OutputFormat/GridZycor.hpp"
#include "OutputFormat/GridIfpEn.hpp"
#include "OutputFormat/GridBmp.hpp"
#include "OutputFormat/GridF2G.hpp"
#include "OutputFormat/FileLAS.hpp"
#include "Space/ASpaceObject.hpp"

extern "C" __attribute__((used, visibility("default"))) const char* __asan_default_options()
{
  // see verif.hpp: malloc/delete pairs of the csparse glue are not a loader property
  return "alloc_dealloc_mismatch=0:detect_leaks=0:allocator_may_return_null=1:symbolize=1";
}
extern "C" __attribute__((used, visibility("default"))) const char* __ubsan_default_options()
{
  return "print_stacktrace=1:halt_on_error=1";
}

extern "C" void __sanitizer_set_death_callback(void (*)(void));
static std::string g_target, g_dir, g_in, g_out, g_statsFile;
static long g_execs = 0, g_loaded = 0, g_deep = 0, g_roundtrips = 0;

static void flushStats()
{
  if (g_statsFile.empty()) return;
  FILE* f = fopen(g_statsFile.c_str(), "a");
  if (!f) return;
  fprintf(f, "{\"target\":\"%s\",\"execs\":%ld,\"loaded\":%ld,\"deep\":%ld,\"roundtrips\":%ld}\n", g_target.c_str(), g_execs,
          g_loaded, g_deep, g_roundtrips);
  fclose(f);
}
static void violationExc(const char* what, const std::exception& e)
{
  fprintf(stderr, "C09-EXCEPTION what=%s\n", e.what());
  extern void violation(const char*);
  violation(what);
}
void violation(const char* what)
{
  fprintf(stderr, "C09-ORACLE-VIOLATION target=%s: %s\n", g_target.c_str(), what);
  flushStats();
  __builtin_trap();
}
static void nomsg(const char*) {}
static void onExit() { violation("the library called its exit function (messageAbort) while reading a file"); }

static void writeFile(const std::string& path, const uint8_t* data, size_t size)
{
  int fd = open(path.c_str(), O_WRONLY | O_CREAT | O_TRUNC, 0644);
  if (fd < 0) return;
  size_t off = 0;
  while (off < size)
  {
    ssize_t w = write(fd, data + off, size - off);
    if (w <= 0) break;
    off += (size_t)w;
  }
  close(fd);
}
static bool readFile(const std::string& path, std::string& s)
{
  std::ifstream f(path, std::ios::binary);
  if (!f) return false;
  std::stringstream ss;
  ss << f.rdbuf();
  s = ss.str();
  return true;
}

static void resetGlobals()
{
  ASerializable::unsetContainerName();
  ASerializable::unsetPrefixName();
  OptDbg::reset();
  law_set_random_seed(132421);
}

// ------------------------------------------------------------- per class use + round trip ----
template<class T> static void useObject(T* obj) { (void)obj->toString(); }
template<> void useObject<Db>(Db* db)
{
  (void)db->toString();
  int ncol = db->getColumnNumber();
  int nech = db->getSampleNumber();
  VectorString names = db->getAllNames();
  if ((int)names.size() != ncol) violation("Db: number of names differs from the number of columns");
  for (int i = 0; i < ncol; i++)
    for (int j = 0; j < i; j++)
      if (names[i] == names[j]) violation("Db: duplicate column names after a successful load");
  for (int i = 0; i < ncol; i++)
  {
    VectorDouble c = db->getColumnByColIdx(i);
    if ((int)c.size() != nech) violation("Db: a column has not nech values");
    int uid = db->getUIDByColIdx(i);
    if (db->getColIdxByUID(uid) != i) violation("Db: uid <-> column index tables disagree");
  }
  (void)db->getSampleNumber(true);
}
template<> void useObject<DbGrid>(DbGrid* db)
{
  useObject<Db>(db);
  long n = 1;
  for (int i = 0; i < db->getNDim(); i++) n *= db->getNX(i);
  if (n != db->getSampleNumber()) violation("DbGrid: product of node counts differs from the number of samples");
}
template<> void useObject<Model>(Model* m)
{
  (void)m->toString();
  int ndim = m->getDimensionNumber();
  int nvar = m->getVariableNumber();
  if (ndim <= 0 || nvar <= 0) return;
  if (m->getCovaNumber() > 0)
  {
    VectorDouble d(ndim, 0.37);
    for (int i = 0; i < nvar; i++)
      for (int j = 0; j < nvar; j++) (void)m->evalIvarIpas(1., d, i, j);
  }
}
template<> void useObject<Vario>(Vario* v)
{
  (void)v->toString();
  for (int id = 0; id < v->getDirectionNumber(); id++)
    for (int iv = 0; iv < v->getVariableNumber(); iv++)
      for (int jv = 0; jv <= iv; jv++)
      {
        (void)v->getGgVec(id, iv, jv);
        (void)v->getHhVec(id, iv, jv);
        (void)v->getSwVec(id, iv, jv);
      }
}
template<> void useObject<Polygons>(Polygons* p)
{
  (void)p->toString();
  VectorDouble pt = {0.5, 0.25, 0.1};
  (void)p->inside(pt, false);
  (void)p->inside(pt, true);
}

template<class T> static void nfTarget(const uint8_t* data, size_t size)
{
  writeFile(g_in, data, size);
  T* obj = nullptr;
  try
  {
    obj = T::createFromNF(g_in, false);
  }
  catch (const std::exception& e)
  {
    violationExc("createFromNF let an exception escape", e);
  }
  catch (...)
  {
    violation("createFromNF let an exception escape");
  }
  if (obj == nullptr) return;
  g_loaded++;
  if (size > 200) g_deep++;
  try
  {
    useObject<T>(obj);
    // save -> load -> save must be a fixed point
    if (!obj->dumpToNF(g_out, false)) { delete obj; return; } // refusing to save is a clean outcome
    std::string s1, s2;
    readFile(g_out, s1);
    T* o2 = T::createFromNF(g_out, false);
    if (o2 == nullptr) violation("an object that was loaded and saved cannot be loaded again");
    useObject<T>(o2);
    std::string out2 = g_out + "2";
    if (!o2->dumpToNF(out2, false)) violation("reloaded object cannot be saved");
    readFile(out2, s2);
    // (string equality of the two files is C08's claim, not this property's: here the object only
    //  has to be savable and loadable again)
    (void)s1; (void)s2;
    g_roundtrips++;
    delete o2;
  }
  catch (const std::exception& e)
  {
    violationExc("using / saving a successfully loaded object raised an exception", e);
  }
  catch (...)
  {
    violation("using / saving a successfully loaded object raised an exception");
  }
  delete obj;
}

static void csvTarget(const uint8_t* data, size_t size)
{
  if (size < 4) return;
  // options decoded from the first bytes
  bool header = data[0] & 1;
  int nskip = (data[0] >> 1) & 3;
  static const char seps[] = {',', ';', ' ', '\t'};
  char sep = seps[data[1] & 3];
  char dec = (data[1] & 4) ? ',' : '.';
  if (dec == sep) dec = '.';
  std::string na = (data[2] & 1) ? "NA" : ((data[2] & 2) ? "-999" : "MISS");
  int ncolmax = (data[3] & 1) ? (data[3] >> 1) % 5 + 1 : -1;
  int nrowmax = (data[3] & 128) ? 3 : -1;
  writeFile(g_in, data + 4, size - 4);
  Db* db = nullptr;
  try
  {
    db = Db::createFromCSV(g_in, CSVformat(header, nskip, sep, dec, na), false, ncolmax, nrowmax);
  }
  catch (const std::exception& e)
  {
    violationExc("createFromCSV let an exception escape", e);
  }
  catch (...)
  {
    violation("createFromCSV let an exception escape");
  }
  if (db == nullptr) return;
  g_loaded++;
  if (db->getSampleNumber() >= 2 && db->getColumnNumber() >= 2) g_deep++;
  try
  {
    useObject<Db>(db);
    if (db->dumpToNF(g_out, false))
    {
      Db* o2 = Db::createFromNF(g_out, false);
      if (o2 == nullptr) violation("a Db loaded from CSV and saved cannot be loaded again");
      useObject<Db>(o2);
      if (o2->getSampleNumber() != db->getSampleNumber() || o2->getColumnNumber() != db->getColumnNumber())
        violation("a Db loaded from CSV changes shape through save/load");
      g_roundtrips++;
      delete o2;
    }
  }
  catch (const std::exception& e)
  {
    violationExc("using a Db loaded from CSV raised an exception", e);
  }
  catch (...)
  {
    violation("using a Db loaded from CSV raised an exception");
  }
  delete db;
}

template<class F> static void gridTarget(const uint8_t* data, size_t size)
{
  writeFile(g_in, data, size);
  DbGrid* g = nullptr;
  try
  {
    F f(g_in.c_str());
    g = f.readGridFromFile();
  }
  catch (const std::exception& e)
  {
    violationExc("grid reader let an exception escape", e);
  }
  catch (...)
  {
    violation("grid reader let an exception escape");
  }
  if (g == nullptr) return;
  g_loaded++;
  if (g->getSampleNumber() > 1) g_deep++;
  try { useObject<DbGrid>(g); } catch (...) { violation("using a grid returned by a reader raised an exception"); }
  delete g;
}
static void lasTarget(const uint8_t* data, size_t size)
{
  writeFile(g_in, data, size);
  Db* db = nullptr;
  try
  {
    FileLAS f(g_in.c_str());
    db = f.readFromFile();
  }
  catch (const std::exception& e)
  {
    violationExc("LAS reader let an exception escape", e);
  }
  catch (...)
  {
    violation("LAS reader let an exception escape");
  }
  if (db == nullptr) return;
  g_loaded++;
  try { useObject<Db>(db); } catch (...) { violation("using a Db returned by the LAS reader raised an exception"); }
  delete db;
}

typedef void (*TargetFn)(const uint8_t*, size_t);
struct TargetDef { const char* name; TargetFn fn; };
static const TargetDef kTargets[] = {
  {"nf:Db", nfTarget<Db>}, {"nf:DbGrid", nfTarget<DbGrid>}, {"nf:DbLine", nfTarget<DbLine>},
  {"nf:DbGraphO", nfTarget<DbGraphO>}, {"nf:DbMeshTurbo", nfTarget<DbMeshTurbo>},
  {"nf:DbMeshStandard", nfTarget<DbMeshStandard>}, {"nf:Model", nfTarget<Model>},
  {"nf:NeighUnique", nfTarget<NeighUnique>}, {"nf:NeighMoving", nfTarget<NeighMoving>},
  {"nf:NeighBench", nfTarget<NeighBench>}, {"nf:NeighCell", nfTarget<NeighCell>},
  {"nf:NeighImage", nfTarget<NeighImage>}, {"nf:Vario", nfTarget<Vario>}, {"nf:Polygons", nfTarget<Polygons>},
  {"nf:PolyLine2D", nfTarget<PolyLine2D>}, {"nf:AnamHermite", nfTarget<AnamHermite>},
  {"nf:AnamEmpirical", nfTarget<AnamEmpirical>}, {"nf:AnamDiscreteDD", nfTarget<AnamDiscreteDD>},
  {"nf:AnamDiscreteIR", nfTarget<AnamDiscreteIR>}, {"nf:MeshEStandard", nfTarget<MeshEStandard>},
  {"nf:MeshETurbo", nfTarget<MeshETurbo>}, {"nf:MeshSpherical", nfTarget<MeshSpherical>},
  {"nf:Table", nfTarget<Table>}, {"nf:Rule", nfTarget<Rule>}, {"nf:Faults", nfTarget<Faults>},
  {"nf:FracEnviron", nfTarget<FracEnviron>},
  {"csv", csvTarget}, {"zycor", gridTarget<GridZycor>}, {"ifpen", gridTarget<GridIfpEn>},
  {"bmp", gridTarget<GridBmp>}, {"f2g", gridTarget<GridF2G>}, {"las", lasTarget},
};
static TargetFn g_fn = nullptr;

// ------------------------------------------------------------- seed corpus through the API ----
static void genCorpus(const std::string& dir);

extern "C" int LLVMFuzzerInitialize(int*, char***)
{
  const char* t = getenv("FZ_TARGET");
  const char* gen = getenv("FZ_GEN_CORPUS");
  const char* st = getenv("FZ_STATS");
  if (st) g_statsFile = st;
  redefine_message(nomsg);
  redefine_error(nomsg);
  redefine_exit(onExit);
  if (!getenv("FZ_VERBOSE"))
  {
    int nul = open("/dev/null", O_WRONLY);
    if (nul >= 0) { dup2(nul, 1); close(nul); }
  }
  char tmpl[] = "/dev/shm/vf_fz_XXXXXX";
  char* d = mkdtemp(tmpl);
  g_dir = d ? d : "/tmp";
  g_in = g_dir + "/in";
  g_out = g_dir + "/out";
  if (gen)
  {
    resetGlobals();
    genCorpus(gen);
    std::string cmd = "rm -rf " + g_dir;
    (void)!system(cmd.c_str());
    _exit(0);
  }
  if (t == nullptr)
  {
    fprintf(stderr, "FZ_TARGET not set; targets:");
    for (auto& k : kTargets) fprintf(stderr, " %s", k.name);
    fprintf(stderr, "\n");
    _exit(2);
  }
  g_target = t;
  for (auto& k : kTargets)
    if (g_target == k.name) g_fn = k.fn;
  if (!g_fn) { fprintf(stderr, "unknown FZ_TARGET %s\n", t); _exit(2); }
  __sanitizer_set_death_callback(flushStats);
  atexit([]() {
    flushStats();
    std::string cmd = "rm -rf " + g_dir;
    (void)!system(cmd.c_str());
  });
  return 0;
}

extern "C" int LLVMFuzzerTestOneInput(const uint8_t* data, size_t size)
{
  resetGlobals();
  g_execs++;
  g_fn(data, size);
  return 0;
}

// ------------------------------------------------------------------------------------------
static void save(const ASerializable* o, const std::string& dir, const char* cls, int k)
{
  if (!o) return;
  std::string sub = dir + "/" + cls;
  mkdir(sub.c_str(), 0755);
  char name[64];
  snprintf(name, sizeof name, "/seed%02d", k);
  o->dumpToNF(sub + name, false);
}
static void genCorpus(const std::string& dir)
{
  mkdir(dir.c_str(), 0755);
  // Db
  for (int k = 0; k < 3; k++)
  {
    int nech = 3 + 2 * k;
    VectorDouble tab;
    for (int i = 0; i < nech * 3; i++) tab.push_back((i % 7 == 3 && k > 0) ? TEST : 0.5 * i - k);
    Db* db = Db::createFromSamples(nech, ELoadBy::COLUMN, tab, {"x", "y", "z"}, {"x1", "x2", "z1"}, k != 1);
    save(db, dir, "nf:Db", k);
    delete db;
  }
  {
    // a Db as users save them: selection, weight and code besides coordinates and two variables (single-rank locators)
    int nech = 6;
    VectorDouble tab;
    for (int i = 0; i < nech * 7; i++)
    {
      int col = i / nech, e = i % nech;
      tab.push_back(col == 4 ? (double)(e % 3 != 0) : col == 5 ? 1. + 0.25 * e : col == 6 ? (double)(1 + e % 2) : 0.75 * e - col);
    }
    Db* db = Db::createFromSamples(nech, ELoadBy::COLUMN, tab, {"x", "y", "z", "t", "keep", "wgt", "unit"}, {"x1", "x2", "z1", "z2", "sel", "w", "code"}, false);
    save(db, dir, "nf:Db", 3);
    delete db;
  }
  // DbGrid (rotated for k=1)
  for (int k = 0; k < 2; k++)
  {
    DbGrid* g = DbGrid::create({3, 2 + k}, {1., 2.}, {10., -5.}, {k * 30., 0.});
    {
      VectorDouble vals(g->getSampleNumber());
      for (int i = 0; i < (int)vals.size(); i++) vals[i] = (i == 2 && k == 1) ? TEST : 1.5 * i + k;
      g->addColumns(vals, "v", ELoc::Z);
    }
    save(g, dir, "nf:DbGrid", k);
    // exchange formats written by the library itself
    {
      std::string sub = dir + "/zycor";
      mkdir(sub.c_str(), 0755);
      GridZycor z((sub + "/seed0" + std::to_string(k)).c_str(), g);
      z.setCol(g->getColIdx("v"));
      if (z.isAuthorized()) z.writeInFile();
    }
    {
      std::string sub = dir + "/ifpen";
      mkdir(sub.c_str(), 0755);
      GridIfpEn z((sub + "/seed0" + std::to_string(k)).c_str(), g);
      z.setCol(g->getColIdx("v"));
      if (z.isAuthorized()) z.writeInFile();
    }
    {
      std::string sub = dir + "/bmp";
      mkdir(sub.c_str(), 0755);
      GridBmp z((sub + "/seed0" + std::to_string(k)).c_str(), g);
      z.setCol(g->getColIdx("v"));
      if (z.isAuthorized()) z.writeInFile();
    }
    {
      std::string sub = dir + "/f2g";
      mkdir(sub.c_str(), 0755);
      GridF2G z((sub + "/seed0" + std::to_string(k)).c_str(), g);
      z.setCol(g->getColIdx("v"));
      if (z.isAuthorized()) z.writeInFile();
    }
    delete g;
  }
  // Model
  for (int k = 0; k < 3; k++)
  {
    int ndim = 2 + (k == 2);
    int nvar = 1 + (k == 1);
    CovContext ctxt(nvar, ndim);
    Model* m = Model::create(ctxt);
    VectorDouble sill(nvar * nvar, 0.);
    for (int i = 0; i < nvar; i++) sill[i * nvar + i] = 1. + i;
    m->addCovFromParam(ECov::NUGGET, 0., 0., 0., VectorDouble(), sill);
    VectorDouble ranges(ndim, 10.);
    ranges[0] = 25.;
    VectorDouble angles(ndim, 0.);
    angles[0] = 30.;
    m->addCovFromParam(k == 0 ? ECov::SPHERICAL : ECov::MATERN, 0., 0., 1.5, ranges, sill, angles);
    if (k > 0) m->setDriftIRF(1);
    save(m, dir, "nf:Model", k);
    delete m;
  }
  // Neighbourhoods
  { NeighUnique* n = NeighUnique::create(); save(n, dir, "nf:NeighUnique", 0); delete n; }
  {
    NeighMoving* n = NeighMoving::create(false, 12, 30., 2, 4, 3, {1., 0.5}, {20., 0.});
    save(n, dir, "nf:NeighMoving", 0);
    delete n;
    n = NeighMoving::create(false, 5, 10.);
    save(n, dir, "nf:NeighMoving", 1);
    delete n;
  }
  { NeighBench* n = NeighBench::create(false, 2.5); save(n, dir, "nf:NeighBench", 0); delete n; }
  { NeighCell* n = NeighCell::create(false, 2); save(n, dir, "nf:NeighCell", 0); delete n; }
  { NeighImage* n = NeighImage::create({1, 2}, 2); save(n, dir, "nf:NeighImage", 0); delete n; }
  // Vario computed on a small Db
  {
    Db* db = Db::createFromBox(30, {0., 0.}, {10., 10.}, 4321);
    {
      VectorDouble vals(db->getSampleNumber());
      for (int i = 0; i < (int)vals.size(); i++) vals[i] = std::exp(0.1 * ((i * 37) % 23)) + 0.01 * i;
      db->addColumns(vals, "z", ELoc::Z);
    }
    VarioParam* vp = VarioParam::createMultiple(2, 4, 1.5);
    Vario* v = Vario::computeFromDb(*vp, db);
    save(v, dir, "nf:Vario", 0);
    delete v;
    delete vp;
    // a polygon = convex hull of the data
    Polygons* p = Polygons::createFromDb(db);
    save(p, dir, "nf:Polygons", 0);
    delete p;
    // anamorphoses
    AnamHermite* ah = AnamHermite::create(12);
    if (ah->fitFromLocator(db) == 0) save(ah, dir, "nf:AnamHermite", 0);
    delete ah;
    AnamEmpirical* ae = AnamEmpirical::create(10);
    if (ae->fitFromLocator(db) == 0) save(ae, dir, "nf:AnamEmpirical", 0);
    delete ae;
    // csv written by the library
    {
      std::string sub = dir + "/csv";
      mkdir(sub.c_str(), 0755);
      std::string body = "x,y,z\n1,2,3\n4,5,NA\n7.5,-8e2,9\n";
      std::string opt = std::string("\x01\x00\x01\x00", 4);
      std::string all = opt + body;
      writeFile(sub + "/seed00", (const uint8_t*)all.data(), all.size());
      std::string body2 = "a;b\n1,5;2\n3;4,25\n";
      std::string opt2 = std::string("\x01\x05\x00\x00", 4);
      all = opt2 + body2;
      writeFile(sub + "/seed01", (const uint8_t*)all.data(), all.size());
    }
    delete db;
  }
  { Polygons p; PolyElem e({0., 4., 4., 0., 0.}, {0., 0., 3., 3., 0.}, -1., 2.); p.addPolyElem(e); save(&p, dir, "nf:Polygons", 1); }
  { PolyLine2D* l = PolyLine2D::create({0., 1., 2.5}, {0., 2., 1.}); save(l, dir, "nf:PolyLine2D", 0); delete l; }
  { Table* t = Table::create(3, 2); t->setValue(1, 1, 4.5); t->setValue(2, 0, TEST); save(t, dir, "nf:Table", 0); delete t; }
  { Rule* r = Rule::createFromNames({"S", "T", "F1", "F2", "F3"}); save(r, dir, "nf:Rule", 0); delete r; }
  {
    DbGrid* g = DbGrid::create({4, 3}, {1., 1.}, {0., 0.}, {15., 0.});
    MeshETurbo* m = MeshETurbo::createFromGrid(g);
    save(m, dir, "nf:MeshETurbo", 0);
    delete m;
    delete g;
  }
  {
    Faults f;
    PolyLine2D l({0., 1., 2.}, {0., 1., 0.5});
    f.addFault(l);
    save(&f, dir, "nf:Faults", 0);
  }
  // LAS: a minimal hand-written file
  {
    std::string sub = dir + "/las";
    mkdir(sub.c_str(), 0755);
    std::string las = "~Version\n VERS. 2.0:\n~Well\n STRT.M 10.0:\n~Curve\n DEPT.M :\n GR.API :\n~Ascii\n10.0 55.1\n10.5 -999.25\n11.0 60.2\n";
    writeFile(sub + "/seed00", (const uint8_t*)las.data(), las.size());
  }
}
