// C02 — kriging is exact, unbiased, linear and invariant under relabelling.  DESIGN.md §5 C02.
// Laws checked on the outputs of kriging() / krigtest() themselves (relations between runs, values at special
// locations).  The dense oracle of krig_common.hpp is used only for what the property itself makes the
// tolerance depend on: the conditioning of the system of each target (kappa > 1e10: inconclusive), the natural
// scales of the sums involved, sigma00 for the simple-kriging bound, and to know which samples form the
// neighbourhood (definition of C06).
#include "verif.hpp"
#include "geo_common.hpp"
#include "krig_common.hpp"

using namespace vf;
using namespace vfkrig;

// one case = a kriging problem + the parameters of every transformation (each sub-property uses its own)
struct LCase
{
  KCase k;
  std::vector<int> perm;       // permutation of the samples
  std::vector<double> t;       // translation
  std::vector<double> coef;    // nvar * nbfl coefficients of the drift functions added to the data
  double alpha = 1, beta = 1;  // linear combination
  std::vector<double> z2;      // second data set (same NA pattern)
  std::vector<double> means2;  // its means (simple kriging)
  template<class A> void io(A& a) { a("k", k)("perm", perm)("t", t)("coef", coef)("alpha", alpha)("beta", beta)("z2", z2)("means2", means2); }
};

static LCase genL(const GenOpt& o)
{
  LCase c;
  c.k = genCase(o);
  const KCase& k = c.k;
  int n = k.n();
  c.perm = G::perm(n);
  if (n >= 2)
  {
    bool id = true;
    for (int i = 0; i < n; i++) id = id && c.perm[(size_t)i] == i;
    if (id) std::swap(c.perm[0], c.perm[(size_t)(n - 1)]);
  }
  for (int d = 0; d < k.ndim; d++) c.t.push_back(G::pct(30) ? k.L * G::r(-10, 10, 2) : k.L * G::u(-10., 10.));
  int nbfl = monoCount(k.ndim, k.order) + k.nfex;
  for (int i = 0; i < k.nvar * nbfl; i++) c.coef.push_back(G::pct(20) ? 0. : G::r(-3, 3, 4));
  if (!c.coef.empty() && c.coef[0] == 0.) c.coef[0] = 1.5;
  c.alpha = G::pick<double>({2., -1., 0.5, 3., -2.5, 1.});
  c.beta = G::pick<double>({1., -1., 0.25, 2., -3.});
  c.z2.resize(k.z.size());
  for (size_t i = 0; i < k.z.size(); i++) c.z2[i] = isNA(k.z[i]) ? NA : G::r(-40, 40, 8);
  for (size_t v = 0; v < k.means.size(); v++) c.means2.push_back(G::r(-20, 20, 4));
  return c;
}

// ------------------------------------------------------------------ helpers --------------
struct TInfo
{
  int status = 0; // 0 usable; 1 ambiguous neighbourhood; 2 empty; 3 ill-conditioned / singular
  TargetGeom g;
  NbRef nr;
  Sys S;
};
struct Problem
{
  World w;
  std::unique_ptr<Model> om;
  std::unique_ptr<Oracle> orc;
  std::vector<TInfo> T;
  double eta = 0;
};
// builds the world of a case and the conditioning information of every target
static bool setup(const KCase& c, Problem& P, Ctx& ctx, bool withOracle = true)
{
  if (!buildWorld(c, P.w, ctx)) return false;
  if (!withOracle) return true;
  Ctx dummy;
  P.om = buildModel(c, dummy);
  if (!P.om) { ctx.fail("harness:model", "second model construction failed"); return false; }
  P.om->setField(Oracle::fieldOf(c, P.w.dbout.get()));
  P.orc.reset(new Oracle(c, P.om.get()));
  P.eta = etaIn(c);
  int nt = c.ntarg();
  P.T.resize((size_t)nt);
  for (int k = 0; k < nt; k++)
  {
    TInfo& t = P.T[(size_t)k];
    t.g = P.orc->geom(k, P.w, true);
    t.nr = refNeigh(c, t.g.x0.data());
    if (t.nr.ambiguous) { t.status = 1; continue; }
    if (t.nr.empty()) { t.status = 2; continue; }
    P.orc->solve(k, t.g, t.nr.nb, t.S);
    if (!t.S.solved || !(t.S.kappa <= kKappaMax)) t.status = 3;
  }
  return true;
}
static void labelStatus(const Problem& P, Ctx& ctx, int& nUsable, int& nIll, int& maxNb)
{
  nUsable = nIll = maxNb = 0;
  for (auto& t : P.T)
  {
    if (t.status == 0) { nUsable++; maxNb = std::max(maxNb, (int)t.nr.nb.size()); }
    if (t.status == 1) ctx.label("target:ambiguous-neigh");
    if (t.status == 2) ctx.label("target:empty-neigh");
    if (t.status == 3) nIll++;
  }
}
static bool krige(const KCase& c, Problem& P, Ctx& ctx, KOut& out, const char* what)
{
  out = runKriging(c, P.w, ctx, false);
  if (out.err != 0) { ctx.fail(c.key(std::string("kriging-error:") + what), "kriging() returns an error on a valid configuration"); return false; }
  if (!out.cols) { ctx.fail(c.key("kriging-columns"), "kriging() did not create the documented result columns"); return false; }
  return true;
}
static GenOpt pointsOnly(GenOpt o)
{
  o.blockMode = 0;
  return o;
}
// drift function l of the case at datum i / target k (harness's own monomials, external drift columns)
static LD fData(const Oracle& o, int i, int l) { return o.driftAtData(i, l); }
static LD fTarget(const Oracle& o, int k, const TargetGeom& g, int l) { return o.driftAtTarget(k, g, l); }

// ------------------------------------------------------------------ (a) exactness --------
static LCase genExact()
{
  GenOpt o;
  o.onDataPct = 70;
  o.sectorPct = 0; // a coincident sample has no direction: its sector is not defined (C06 excludes it)
  o.verrPct = 25;
  o.farPct = 0;
  return genL(pointsOnly(o));
}
static void runExact(const LCase& lc, Ctx& ctx)
{
  const KCase& c = lc.k;
  labelCase(c, ctx);
  ctx.sig = signature(c);
  Problem P;
  if (!setup(c, P, ctx)) return;
  KOut out;
  if (!krige(c, P, ctx, out, "base")) return;
  int nU, nIll, maxNb;
  labelStatus(P, ctx, nU, nIll, maxNb);
  int nv = c.nvar, nCoinc = 0;
  for (int k = 0; k < c.ntarg(); k++)
  {
    TInfo& t = P.T[(size_t)k];
    if (t.status != 0) continue;
    // coincident datum (unique: data locations are pairwise distinct), member of the neighbourhood
    int hit = -1;
    for (int i : t.nr.nb)
    {
      bool same = true;
      for (int d = 0; d < c.ndim; d++) same = same && c.data.at(i, d) == t.g.x0[(size_t)d];
      if (same && c.fdef(i)) hit = i; // a datum without external drift value is not part of the system
    }
    if (hit < 0) continue;
    double ek = epsK(t.S.kappa, P.eta);
    for (int v = 0; v < nv; v++)
    {
      if (!c.zdef(hit, v)) continue;
      if (!c.verr.empty())
      {
        double e = c.verr[(size_t)(hit * nv + v)];
        if (!isNA(e) && e > 0) { ctx.label("coincident:with-measurement-error"); continue; }
      }
      nCoinc++;
      double z = c.z[(size_t)(hit * nv + v)];
      double e = out.estim[(size_t)(k * nv + v)], s = out.stdev[(size_t)(k * nv + v)];
      LD tolE = (LD)ek * (t.S.scaleE[(size_t)v] + fabsl((LD)z)) + floorE(t.S, P.eta);
      LD tolV = (LD)ek * t.S.scaleV[(size_t)v] + floorV(t.S, P.eta, v);
      if (isNA(e) || std::isnan(e) || fabsl((LD)e - (LD)z) > tolE)
      {
        ctx.fail(c.key("exact-estim"), fmt("target %d sits on datum %d (no measurement error): estim of var %d = %.15g, datum = %.15g (tol %.3Lg, kappa %.3g)", k, hit, v, e, z, tolE, t.S.kappa));
        return;
      }
      if (isNA(s) || std::isnan(s) || s < 0 || (LD)s * s > tolV)
      {
        ctx.fail(c.key("exact-stdev"), fmt("target %d sits on datum %d (no measurement error): stdev of var %d = %.6g (variance %.3g > tol %.3Lg, kappa %.3g)", k, hit, v, s, s * s, tolV, t.S.kappa));
        return;
      }
    }
  }
  if (nU == 0 && nIll > 0) ctx.inconclusive("ill-conditioned");
  ctx.nontrivial(nCoinc > 0 && maxNb >= 2);
}

// ------------------------------------------------------------------ (b) stdev bounds -----
static LCase genBounds()
{
  GenOpt o;
  o.family = G::pick<int>({0, 0, 0, 1, 2, 3});
  o.blockMode = G::pct(25) ? 1 : 0;
  o.onDataPct = 25;
  return genL(o);
}
static void runBounds(const LCase& lc, Ctx& ctx)
{
  const KCase& c = lc.k;
  labelCase(c, ctx);
  ctx.sig = signature(c);
  Problem P;
  if (!setup(c, P, ctx)) return;
  KOut out;
  if (!krige(c, P, ctx, out, "base")) return;
  int nU, nIll, maxNb;
  labelStatus(P, ctx, nU, nIll, maxNb);
  int nv = c.nvar;
  for (int k = 0; k < c.ntarg(); k++)
  {
    TInfo& t = P.T[(size_t)k];
    if (t.status != 0) continue;
    double ek = epsK(t.S.kappa, P.eta);
    for (int v = 0; v < nv; v++)
    {
      double s = out.stdev[(size_t)(k * nv + v)];
      if (isNA(s) || std::isnan(s) || std::isinf(s) || s < 0)
      {
        ctx.fail(c.key("stdev-range"), fmt("target %d var %d: stdev = %g although the system is regular (kappa %.3g, %d neighbours)", k, v, s, t.S.kappa, (int)t.nr.nb.size()));
        return;
      }
      if (c.order < 0)
      {
        LD tolV = (LD)ek * t.S.scaleV[(size_t)v] + floorV(t.S, P.eta, v);
        // a-priori variance: sigma00 of the model; for a block the library's documented estimate of it (mean
        // covariance between the regular and a randomised discretisation), which oscillating structures can
        // make slightly negative: the variance is then reported as 0, which exceeds no true variance
        if ((LD)s * s > std::max((LD)0, t.S.C00(v, v)) + tolV)
        {
          ctx.fail(c.key("stdev-prior"), fmt("simple kriging, target %d var %d: stdev^2 = %.15g exceeds the a-priori variance %.15Lg (tol %.3Lg)", k, v, s * s, t.S.C00(v, v), tolV));
          return;
        }
      }
    }
  }
  if (nU == 0 && nIll > 0) ctx.inconclusive("ill-conditioned");
  ctx.nontrivial(nU > 0 && maxNb >= 2);
}

// ------------------------------------------------------------------ (c) universality -----
static LCase genUniv()
{
  GenOpt o;
  o.family = G::pick<int>({1, 2, 2, 3, 3});
  o.blockMode = G::pct(20) ? 1 : 0;
  return genL(o);
}
static void runUniv(const LCase& lc, Ctx& ctx)
{
  const KCase& c = lc.k;
  labelCase(c, ctx);
  ctx.sig = signature(c);
  Problem P;
  if (!setup(c, P, ctx)) return;
  int nU, nIll, maxNb;
  labelStatus(P, ctx, nU, nIll, maxNb);
  int nv = c.nvar, nt = c.ntarg(), nbfl = P.orc->nbfl, nDone = 0;
  for (int k = 0; k < nt; k++)
  {
    TInfo& t = P.T[(size_t)k];
    if (t.status != 0) continue;
    if (!(k >= 1 || nt == 1)) continue; // krigtest(iech0 = 0) reports the last target (finding of C01)
    Krigtest_Res kt = runKrigtest(c, P.w, ctx, k);
    std::vector<int> nbl;
    for (int i : kt.nbgh) nbl.push_back(i);
    std::vector<int> sorted = nbl;
    std::sort(sorted.begin(), sorted.end());
    if (sorted != t.nr.nb) { ctx.label("krigtest:other-neighbourhood"); continue; } // object of C01 / C06
    Sys L;
    P.orc->layout(nbl, L);
    if (kt.wgt.getNRows() != L.N || kt.wgt.getNCols() != nv) { ctx.label("krigtest:other-layout"); continue; }
    double ek = epsK(t.S.kappa, P.eta);
    nDone++;
    for (int tv = 0; tv < nv; tv++)
    {
      // the error of each weight is proportional to the size of the whole weight vector of this estimate
      LD wmax = 0;
      for (int a = 0; a < L.nu; a++) wmax = std::max(wmax, fabsl((LD)kt.wgt.getValue(a, tv)));
      for (int jv = 0; jv < nv; jv++)
        for (int l = 0; l < nbfl; l++)
        {
          LD sum = 0, sabs = 0;
          for (int a = 0; a < L.nu; a++)
            if (L.unk[(size_t)a].second == jv)
            {
              LD f = fData(*P.orc, L.unk[(size_t)a].first, l);
              sum += (LD)kt.wgt.getValue(a, tv) * f;
              sabs += wmax * fabsl(f);
            }
          LD want = (tv == jv) ? fTarget(*P.orc, k, t.g, l) : 0.L;
          LD tol = (LD)ek * (sabs + fabsl(want)) + 1e-300L;
          if (!(fabsl(sum - want) <= tol))
          {
            ctx.fail(c.key(l == 0 ? "universality:sum" : "universality:drift"),
                     fmt("target %d, weights of the estimate of var %d on the samples of var %d: sum lambda f_%d = %.15Lg, expected %.15Lg (tol %.3Lg, kappa %.3g)", k, tv, jv, l, sum, want, tol, t.S.kappa));
            return;
          }
        }
    }
  }
  if (nU == 0 && nIll > 0) ctx.inconclusive("ill-conditioned");
  ctx.nontrivial(nDone > 0 && maxNb >= 2);
}

// ------------------------------------------------------------------ metamorphic core -----
// compares the outputs of two runs target by target: estimB = estimA + shift, stdevB = stdevA
static bool compareRuns(const KCase& c, const Problem& PA, const Problem* PB, const KOut& A, const KOut& B, const std::vector<LD>& shift,
                        const std::vector<LD>& shiftScale, const char* law, Ctx& ctx, int& nCompared)
{
  int nv = c.nvar;
  for (int k = 0; k < c.ntarg(); k++)
  {
    const TInfo& t = PA.T[(size_t)k];
    if (t.status != 0) continue;
    double kap = t.S.kappa, eta = PA.eta;
    LD extraE = 0, extraV = 0;
    if (PB != nullptr)
    {
      const TInfo& u = PB->T[(size_t)k];
      if (u.status != 0) continue;
      kap = std::max(kap, u.S.kappa);
      eta = std::max(eta, PB->eta);
    }
    double ek = epsK(kap, eta);
    nCompared++;
    for (int v = 0; v < nv; v++)
    {
      size_t ix = (size_t)(k * nv + v);
      LD scE = t.S.scaleE[(size_t)v], scV = t.S.scaleV[(size_t)v], flE = floorE(t.S, eta), flV = floorV(t.S, eta, v);
      if (PB != nullptr)
      {
        const TInfo& u = PB->T[(size_t)k];
        scE = std::max(scE, u.S.scaleE[(size_t)v]);
        scV = std::max(scV, u.S.scaleV[(size_t)v]);
        flE = std::max(flE, floorE(u.S, eta));
        flV = std::max(flV, floorV(u.S, eta, v));
      }
      LD tolE = 2 * ((LD)ek * (scE + shiftScale[ix]) + flE) + extraE;
      LD tolV = 2 * ((LD)ek * scV + flV) + extraV;
      double ea = A.estim[ix], eb = B.estim[ix], sa = A.stdev[ix], sb = B.stdev[ix];
      bool naA = isNA(ea) || std::isnan(ea), naB = isNA(eb) || std::isnan(eb);
      if (naA || naB)
      {
        ctx.fail(c.key(std::string(law) + ":estim-na"), fmt("target %d var %d: estimate undefined (%g / %g) although the system is regular (kappa %.3g)", k, v, ea, eb, kap));
        return false;
      }
      if (fabsl((LD)eb - ((LD)ea + shift[ix])) > tolE)
      {
        ctx.fail(c.key(std::string(law) + ":estim"), fmt("target %d var %d: estimate %.15g in the transformed problem, %.15g + %.15Lg expected (diff %.3Lg, tol %.3Lg, kappa %.3g)", k, v, eb, ea, shift[ix], fabsl((LD)eb - ((LD)ea + shift[ix])), tolE, kap));
        return false;
      }
      if (isNA(sa) || isNA(sb) || std::isnan(sa) || std::isnan(sb) || fabsl((LD)sa * sa - (LD)sb * sb) > tolV)
      {
        ctx.fail(c.key(std::string(law) + ":stdev"), fmt("target %d var %d: stdev %.15g in the transformed problem, %.15g in the original (variance diff %.3Lg, tol %.3Lg, kappa %.3g)", k, v, sb, sa, fabsl((LD)sa * sa - (LD)sb * sb), tolV, kap));
        return false;
      }
    }
  }
  return true;
}

static LCase genMeta()
{
  GenOpt o;
  o.blockMode = G::pct(20) ? 1 : 0;
  o.onDataPct = 10;
  return genL(o);
}
static LCase genMetaDrift()
{
  GenOpt o;
  o.family = G::pick<int>({1, 2, 2, 3, 3});
  o.blockMode = G::pct(20) ? 1 : 0;
  o.onDataPct = 10;
  return genL(o);
}

// ------------------------------------------------------------------ (d) drift shift ------
static void runShift(const LCase& lc, Ctx& ctx)
{
  const KCase& c = lc.k;
  labelCase(c, ctx);
  ctx.sig = signature(c);
  Problem P;
  if (!setup(c, P, ctx)) return;
  KOut A, B;
  if (!krige(c, P, ctx, A, "base")) return;
  int nU, nIll, maxNb;
  labelStatus(P, ctx, nU, nIll, maxNb);
  int nv = c.nvar, n = c.n(), nbfl = P.orc->nbfl;
  // z' = z + sum_l c_{v,l} f_l / max|f_l| (coefficients normalised so that the added drift is of the order of the data)
  std::vector<LD> fmax((size_t)nbfl, 1e-300L);
  for (int l = 0; l < nbfl; l++)
    for (int i = 0; i < n; i++)
      if (c.fdef(i)) fmax[(size_t)l] = std::max(fmax[(size_t)l], fabsl(fData(*P.orc, i, l)));
  KCase c2 = c;
  bool any = false;
  std::vector<LD> addData((size_t)(n * nv), 0);
  for (int i = 0; i < n; i++)
    for (int v = 0; v < nv; v++)
    {
      if (!c.zdef(i, v) || !c.fdef(i)) continue; // data outside the system keep their value
      LD s = 0;
      for (int l = 0; l < nbfl; l++) s += (LD)lc.coef[(size_t)(v * nbfl + l)] * fData(*P.orc, i, l) / fmax[(size_t)l];
      addData[(size_t)(i * nv + v)] = s;
      c2.z[(size_t)(i * nv + v)] = (double)((LD)c.z[(size_t)(i * nv + v)] + s);
      // the shift actually applied (after rounding to double) is what the law is about
      addData[(size_t)(i * nv + v)] = (LD)c2.z[(size_t)(i * nv + v)] - (LD)c.z[(size_t)(i * nv + v)];
      any = any || s != 0;
    }
  Problem P2;
  if (!setup(c2, P2, ctx, false)) return;
  if (!krige(c2, P2, ctx, B, "shifted")) return;
  std::vector<LD> shift((size_t)(c.ntarg() * nv), 0), scale((size_t)(c.ntarg() * nv), 0);
  for (int k = 0; k < c.ntarg(); k++)
  {
    const TInfo& t = P.T[(size_t)k];
    if (t.status != 0) continue;
    for (int v = 0; v < nv; v++)
    {
      LD s = 0, sa = 0;
      for (int l = 0; l < nbfl; l++)
      {
        LD term = (LD)lc.coef[(size_t)(v * nbfl + l)] * fTarget(*P.orc, k, t.g, l) / fmax[(size_t)l];
        s += term;
        sa += fabsl(term);
      }
      // natural scale of the law: sum |lambda_a| |shift_a| (+ rounding of the shifted data: 1 ulp of each datum)
      LD sl = 0;
      for (int a = 0; a < t.S.nu; a++)
      {
        int i = t.S.unk[(size_t)a].first, w = t.S.unk[(size_t)a].second;
        LD term = 0;
        for (int l = 0; l < nbfl; l++) term += fabsl((LD)lc.coef[(size_t)(w * nbfl + l)] * fData(*P.orc, i, l) / fmax[(size_t)l]);
        sl += fabsl(t.S.sol(a, v)) * (term + fabsl((LD)c.z[(size_t)(i * nv + w)]));
      }
      shift[(size_t)(k * nv + v)] = s;
      scale[(size_t)(k * nv + v)] = sa + sl;
    }
  }
  int nCmp = 0;
  if (!compareRuns(c, P, nullptr, A, B, shift, scale, "drift-shift", ctx, nCmp)) return;
  if (nU == 0 && nIll > 0) ctx.inconclusive("ill-conditioned");
  ctx.nontrivial(nCmp > 0 && any && maxNb >= 2);
}

// ------------------------------------------------------------------ (e) linearity --------
static void runLinear(const LCase& lc, Ctx& ctx)
{
  const KCase& c = lc.k;
  labelCase(c, ctx);
  ctx.sig = signature(c);
  Problem P;
  if (!setup(c, P, ctx)) return;
  int nU, nIll, maxNb;
  labelStatus(P, ctx, nU, nIll, maxNb);
  int nv = c.nvar;
  KCase c2 = c, c3 = c;
  c2.z = lc.z2;
  if (c.order < 0) c2.means = lc.means2;
  for (size_t i = 0; i < c.z.size(); i++)
    c3.z[i] = isNA(c.z[i]) ? NA : lc.alpha * c.z[i] + lc.beta * lc.z2[i]; // exact: quarter-integers times small dyadic factors
  if (c.order < 0)
    for (size_t v = 0; v < c.means.size(); v++) c3.means[v] = lc.alpha * c.means[v] + lc.beta * lc.means2[v];
  KOut A, B, C;
  if (!krige(c, P, ctx, A, "z1")) return;
  Problem P2, P3;
  if (!setup(c2, P2, ctx)) return; // its own scales (same matrix, other data)
  if (!krige(c2, P2, ctx, B, "z2")) return;
  if (!setup(c3, P3, ctx, false)) return;
  if (!krige(c3, P3, ctx, C, "combination")) return;
  // expected: C.estim = alpha A.estim + beta B.estim ; stdev identical.  Written as a comparison of run C with
  // a synthetic run whose estimate is the combination
  KOut comb = A;
  std::vector<LD> shift((size_t)(c.ntarg() * nv), 0), scale((size_t)(c.ntarg() * nv), 0);
  for (int k = 0; k < c.ntarg(); k++)
    for (int v = 0; v < nv; v++)
    {
      size_t ix = (size_t)(k * nv + v);
      bool na = isNA(A.estim[ix]) || isNA(B.estim[ix]);
      comb.estim[ix] = na ? NA : (double)((LD)lc.alpha * A.estim[ix] + (LD)lc.beta * B.estim[ix]);
      if (P.T[(size_t)k].status == 0 && P2.T[(size_t)k].status == 0)
        scale[ix] = fabsl((LD)lc.alpha) * P.T[(size_t)k].S.scaleE[(size_t)v] + fabsl((LD)lc.beta) * P2.T[(size_t)k].S.scaleE[(size_t)v];
    }
  int nCmp = 0;
  if (!compareRuns(c, P, &P2, comb, C, shift, scale, "linearity", ctx, nCmp)) return;
  // the three standard deviations do not depend on the data at all
  for (int k = 0; k < c.ntarg(); k++)
    for (int v = 0; v < nv; v++)
    {
      size_t ix = (size_t)(k * nv + v);
      if (P.T[(size_t)k].status != 0) continue;
      const Sys& S = P.T[(size_t)k].S;
      LD tolV = 2 * ((LD)epsK(S.kappa, P.eta) * S.scaleV[(size_t)v] + floorV(S, P.eta, v));
      if (fabsl((LD)A.stdev[ix] * A.stdev[ix] - (LD)B.stdev[ix] * B.stdev[ix]) > tolV)
      {
        ctx.fail(c.key("linearity:stdev-data"), fmt("target %d var %d: stdev depends on the data values: %.15g vs %.15g", k, v, A.stdev[ix], B.stdev[ix]));
        return;
      }
    }
  if (nU == 0 && nIll > 0) ctx.inconclusive("ill-conditioned");
  ctx.nontrivial(nCmp > 0 && maxNb >= 2);
}

// ------------------------------------------------------------------ (e') linear combinations of variables ------
// kriging(..., matLC = M) estimates the combinations sum_j M[l][j] Z_j: by linearity of the estimator, its estimate equals
// sum_j M[l][j] estim_j of the plain cokriging of the same case (same neighbourhood, same data), for every kind of kriging
static LCase genLc()
{
  GenOpt o;
  o.nvarMin = 2;
  o.heteroPct = 50;
  o.nMax = 30;
  LCase c = genL(o);
  int nv = c.k.nvar, nl = G::i(1, nv);
  c.coef.clear(); // re-used here as the nl x nvar matrix of the combinations
  for (int i = 0; i < nl * nv; i++) c.coef.push_back(G::pct(25) ? 0. : G::r(-2, 2, 4));
  if (c.coef[0] == 0.) c.coef[0] = 1.;
  if (nl >= 2 && c.coef[(size_t)nv] == 0. && c.coef[(size_t)(nv + 1)] == 0.) c.coef[(size_t)(nv + 1)] = 1.;
  return c;
}
static void runLc(const LCase& lc, Ctx& ctx)
{
  const KCase& c = lc.k;
  labelCase(c, ctx);
  ctx.sig = signature(c);
  Problem P;
  if (!setup(c, P, ctx)) return;
  int nU, nIll, maxNb;
  labelStatus(P, ctx, nU, nIll, maxNb);
  int nv = c.nvar, nt = c.ntarg(), nl = (int)lc.coef.size() / nv;
  KOut A;
  if (!krige(c, P, ctx, A, "plain")) return;
  World w2;
  if (!buildWorld(c, w2, ctx)) return;
  MatrixRectangular M(nl, nv);
  for (int i = 0; i < nl; i++)
    for (int j = 0; j < nv; j++) M.setValue(i, j, lc.coef[(size_t)(i * nv + j)]);
  VectorInt nd;
  for (int v : c.ndisc) nd.push_back(v);
  ctx.at("kriging-matLC:" + c.variant());
  int err = kriging(w2.dbin.get(), w2.dbout.get(), w2.model.get(), w2.neigh.get(), c.block ? EKrigOpt::BLOCK : EKrigOpt::POINT, true, true, false,
                    nd, VectorInt(), &M);
  if (err != 0) { ctx.fail(c.key("matlc-linear:kriging-error"), "kriging(matLC) returns an error where the plain cokriging succeeds"); return; }
  int nCmp = 0;
  bool offDiag = false;
  for (int i = 0; i < nl; i++)
  {
    std::string base = (nl == 1) ? std::string("Kriging.LC") : "Kriging.LC-" + std::to_string(i + 1);
    if (w2.dbout->getUID(base + ".estim") < 0) { ctx.fail(c.key("matlc-linear:columns"), "kriging(matLC) did not create " + base + ".estim"); return; }
    VectorDouble E = w2.dbout->getColumn(base + ".estim", false);
    for (int j = 0; j < nv; j++)
      if (j != i && lc.coef[(size_t)(i * nv + j)] != 0.) offDiag = true;
    for (int k = 0; k < nt; k++)
    {
      const auto& t = P.T[(size_t)k];
      if (t.status != 0) continue;
      double ek = epsK(t.S.kappa, P.eta);
      LD exp = 0, tol = 0;
      bool na = false;
      for (int j = 0; j < nv; j++)
      {
        LD m = (LD)lc.coef[(size_t)(i * nv + j)];
        if (m == 0) continue;
        double e = A.estim[(size_t)(k * nv + j)];
        if (isNA(e)) { na = true; break; }
        exp += m * (LD)e;
        tol += fabsl(m) * (2 * ((LD)ek * t.S.scaleE[(size_t)j] + floorE(t.S, P.eta)));
      }
      if (na) continue;
      double got = E[(size_t)k];
      if (isNA(got) || std::isnan(got) || fabsl((LD)got - exp) > tol)
      {
        ctx.fail(c.key("matlc-linear:estim"), fmt("target %d combination %d: estim %.15g with matLC, %.15Lg = combination of the plain cokriging estimates (tol %.3Lg, kappa %.3g)", k, i, got, exp, tol, t.S.kappa));
        return;
      }
      nCmp++;
    }
  }
  if (nU == 0 && nIll > 0) ctx.inconclusive("ill-conditioned");
  ctx.nontrivial(nCmp > 0 && maxNb >= 2 && offDiag);
}

// ------------------------------------------------------------------ (f) permutation ------
static KCase permuted(const KCase& c, const std::vector<int>& perm)
{
  KCase p = c;
  int n = c.n(), nv = c.nvar;
  for (int j = 0; j < n; j++)
  {
    int i = perm[(size_t)j];
    for (int d = 0; d < c.ndim; d++) p.data.c[(size_t)(j * c.ndim + d)] = c.data.at(i, d);
    for (int v = 0; v < nv; v++) p.z[(size_t)(j * nv + v)] = c.z[(size_t)(i * nv + v)];
    if (!c.sel.empty()) p.sel[(size_t)j] = c.sel[(size_t)i];
    if (!c.verr.empty())
      for (int v = 0; v < nv; v++) p.verr[(size_t)(j * nv + v)] = c.verr[(size_t)(i * nv + v)];
    for (int f = 0; f < c.nfex; f++) p.fdat[(size_t)(j * c.nfex + f)] = c.fdat[(size_t)(i * c.nfex + f)];
  }
  return p;
}
static void runPerm(const LCase& lc, Ctx& ctx)
{
  const KCase& c = lc.k;
  labelCase(c, ctx);
  ctx.sig = signature(c);
  if ((int)lc.perm.size() != c.n()) { ctx.fail("harness:perm", "permutation size"); return; }
  Problem P;
  if (!setup(c, P, ctx)) return;
  int nU, nIll, maxNb;
  labelStatus(P, ctx, nU, nIll, maxNb);
  KCase c2 = permuted(c, lc.perm);
  bool id = true;
  for (int i = 0; i < c.n(); i++) id = id && lc.perm[(size_t)i] == i;
  KOut A, B;
  if (!krige(c, P, ctx, A, "base")) return;
  Problem P2;
  if (!setup(c2, P2, ctx, false)) return;
  if (!krige(c2, P2, ctx, B, "permuted")) return;
  std::vector<LD> zero((size_t)(c.ntarg() * c.nvar), 0);
  int nCmp = 0;
  if (!compareRuns(c, P, nullptr, A, B, zero, zero, "permutation", ctx, nCmp)) return;
  if (nU == 0 && nIll > 0) ctx.inconclusive("ill-conditioned");
  ctx.nontrivial(nCmp > 0 && !id && maxNb >= 2);
}

// ------------------------------------------------------------------ (g) translation ------
static void runTrans(const LCase& lc, Ctx& ctx)
{
  const KCase& c = lc.k;
  labelCase(c, ctx);
  ctx.sig = signature(c);
  Problem P;
  if (!setup(c, P, ctx)) return;
  int nU, nIll, maxNb;
  labelStatus(P, ctx, nU, nIll, maxNb);
  KCase c2 = c;
  bool moved = false;
  for (int d = 0; d < c.ndim; d++)
  {
    double t = lc.t[(size_t)d];
    moved = moved || t != 0;
    for (int i = 0; i < c.n(); i++) c2.data.c[(size_t)(i * c.ndim + d)] += t;
    for (int i = 0; i < c.targ.n(); i++) c2.targ.c[(size_t)(i * c.ndim + d)] += t;
    if (c.block) c2.gx0[(size_t)d] += t;
  }
  // the translated coordinates are rounded: the relative positions move by about ulp(|x| + |t|); this is a
  // perturbation of the problem of relative size eta2, accounted like the evaluation noise (etaIn of c2)
  KOut A, B;
  if (!krige(c, P, ctx, A, "base")) return;
  Problem P2;
  if (!setup(c2, P2, ctx)) return; // conditioning of the translated system (the drift monomials change)
  if (!krige(c2, P2, ctx, B, "translated")) return;
  std::vector<LD> zero((size_t)(c.ntarg() * c.nvar), 0);
  int nCmp = 0;
  if (!compareRuns(c, P, &P2, A, B, zero, zero, "translation", ctx, nCmp)) return;
  int nIll2 = 0;
  for (auto& t : P2.T) nIll2 += t.status == 3;
  if (nCmp == 0 && (nIll > 0 || nIll2 > 0)) ctx.inconclusive("ill-conditioned");
  ctx.nontrivial(nCmp > 0 && moved && maxNb >= 2);
}

VERIF_SUB(exact_at_data, LCase, genExact, runExact);
VERIF_SUB(stdev_bounds, LCase, genBounds, runBounds);
VERIF_SUB(universality, LCase, genUniv, runUniv);
VERIF_SUB(drift_shift, LCase, genMetaDrift, runShift);
VERIF_SUB(linearity, LCase, genMeta, runLinear);
VERIF_SUB(matlc_linear, LCase, genLc, runLc);
VERIF_SUB(permutation, LCase, genMeta, runPerm);
VERIF_SUB(translation, LCase, genMeta, runTrans);
VERIF_MAIN()
