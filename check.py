#!/usr/bin/env python3
"""Driver of the property checks (DESIGN.md §2.3).

  python3 check.py <ID> [--tier quick|thorough] [--seed N]     run one property
  python3 check.py --setup                                      configure + build everything
  python3 check.py <ID> --replay <file>                         replay one stored case

Steps for one property: incremental build of /repo's working tree (ninja) -> replay tier
(corpus/<ID>/*, findings/<ID>/*) -> search tier (parallel rapidcheck / libFuzzer workers, seeds
derived from VERIF_SEED) -> every candidate failure replayed 3x -> evidence/<ID>.json -> verdict.
Exit 0 = held on everything explored; exit 1 + "VIOLATION property=<id> replay=<path>" otherwise.
"""
import argparse, glob, hashlib, json, os, re, shutil, subprocess, sys, time
from concurrent.futures import ThreadPoolExecutor

VERIF = os.path.dirname(os.path.abspath(__file__))
BUILD = os.path.join(VERIF, "_build")
BIN = os.path.join(BUILD, "bin")
WORK = os.path.join(BUILD, "work")
VIOL = os.path.join(BUILD, "violations")
sys.path.insert(0, VERIF)
from props import PROPS  # noqa: E402  (per-property configuration)

NCPU = os.cpu_count() or 8


def log(*a):
    print(*a, flush=True)


def sh(cmd, **kw):
    return subprocess.run(cmd, shell=isinstance(cmd, str), stdout=subprocess.PIPE, stderr=subprocess.STDOUT, text=True, **kw)


# ----------------------------------------------------------------------------- build ------
def configure():
    if not os.path.exists(os.path.join(BUILD, "build.ninja")):
        os.makedirs(BUILD, exist_ok=True)
        env = dict(os.environ, CC="clang-14", CXX="clang++-14")
        r = sh(["cmake", "-G", "Ninja", "-S", os.path.join(VERIF, "cmake"), "-B", BUILD], env=env)
        if r.returncode != 0:
            log(r.stdout[-4000:])
            raise SystemExit("cmake configure failed")


def build(targets):
    configure()
    t0 = time.time()
    r = sh(["ninja", "-C", BUILD] + list(targets))
    if r.returncode != 0:
        # a harness or /repo no longer compiles: that is not a property verdict
        log(r.stdout[-6000:])
        raise SystemExit("build failed (exit 2)")
    return time.time() - t0


# ----------------------------------------------------------------------------- helpers ----
def derive_seed(seed, *parts):
    h = hashlib.sha256(("%d|" % seed + "|".join(str(p) for p in parts)).encode()).digest()
    return int.from_bytes(h[:6], "big") % 2000000000 + 1


def load_known():
    p = os.path.join(VERIF, "known_findings.json")
    if not os.path.exists(p):
        return {"findings": [], "fixed": []}
    return json.load(open(p))


def key_matches(pattern, key):
    import fnmatch
    return fnmatch.fnmatchcase(key, pattern)


def parse_fail_file(path):
    """returns (key, msg) from the trailer of a .fail file"""
    key = msg = ""
    try:
        txt = open(path, errors="replace").read()
    except OSError:
        return key, msg
    if "#trailer\n" in txt:
        for line in txt.split("#trailer\n", 1)[1].splitlines():
            if line.startswith("key "):
                key = line[4:]
            elif line.startswith("msg "):
                msg = line[4:]
    return key, msg


def replay_once(binary, path, out_prefix, timeout=300):
    """returns (status, key, msg, tail) with status in pass/fail/crash/parse"""
    for ext in (".fail", ".stats.json"):
        try:
            os.remove(out_prefix + ext)
        except OSError:
            pass
    try:
        r = sh([binary, "--replay", path, "--out", out_prefix], timeout=timeout, env=child_env())
    except subprocess.TimeoutExpired:
        return "timeout", "timeout", "replay exceeded %ds" % timeout, ""
    tail = r.stdout[-3000:]
    if r.returncode == 0:
        return "pass", "", "", tail
    if r.returncode == 1:
        key, msg = parse_fail_file(out_prefix + ".fail")
        return "fail", key, msg, tail
    if r.returncode == 2:
        return "parse", "", "", tail
    return "crash", crash_key(tail), crash_msg(tail), tail


def crash_key(tail):
    m = re.search(r"SUMMARY: (\w+): ([\w-]+) ([^\s]+)", tail)
    if m:
        loc = m.group(3)
        loc = re.sub(r":\d+(:\d+)?$", "", os.path.basename(loc)) if "/" in loc else loc
        if "+0x" in loc:
            loc = "-"  # no source location (e.g. allocator): binary offsets are not stable
        return "sanitizer:%s:%s" % (m.group(2), loc)
    if "Assertion" in tail or "assert" in tail:
        return "abort:assert"
    return "crash"


def crash_msg(tail):
    m = re.search(r"(ERROR: AddressSanitizer[^\n]*|runtime error:[^\n]*|Assertion[^\n]*)", tail)
    return m.group(1)[:300] if m else "abnormal termination"


def child_env():
    e = dict(os.environ)
    e.setdefault("OMP_NUM_THREADS", "1")
    e["LLVM_PROFILE_FILE"] = "/dev/null"
    return e


# ----------------------------------------------------------------------------- search -----
def run_worker(job):
    """job: dict(binary, sub, w, cases, size, seed, prefix, exclude, timeout)"""
    for ext in (".fail", ".stats.json", ".current", ".log"):
        try:
            os.remove(job["prefix"] + ext)
        except OSError:
            pass
    env = child_env()
    env["RC_PARAMS"] = "seed=%d max_success=%d max_size=%d max_discard_ratio=50" % (job["seed"], job["cases"], job["size"])
    cmd = [job["binary"], "--sub", job["sub"], "--out", job["prefix"]]
    if job["exclude"]:
        cmd += ["--exclude", ",".join(job["exclude"])]
    t0 = time.time()
    try:
        r = sh(cmd, timeout=job["timeout"], env=env)
        rc, out = r.returncode, r.stdout
    except subprocess.TimeoutExpired as e:
        rc, out = -999, (e.stdout or "")
        if isinstance(out, bytes):
            out = out.decode(errors="replace")
    open(job["prefix"] + ".log", "w").write(out[-20000:])
    job["rc"] = rc
    job["wall"] = time.time() - t0
    job["tail"] = out[-3000:]
    return job


def read_stats(prefix):
    try:
        return json.load(open(prefix + ".stats.json"))
    except Exception:
        return None


# ----------------------------------------------------------------------------- main -------
def check(pid, tier, seed, only_sub=None):
    t_start = time.time()
    cfg = PROPS[pid]
    os.makedirs(WORK, exist_ok=True)
    os.makedirs(os.path.join(VIOL, pid), exist_ok=True)
    bt = build(sorted(set(s["binary"] for s in cfg["subs"])))
    log("[%s] build %.1fs" % (pid, bt))

    known = load_known()
    kf = [f for f in known.get("findings", []) if f["property"] == pid]
    violations = []  # (replay path, key, msg)
    known_hits = []
    replayed = 0
    sub2bin = {s["name"]: os.path.join(BIN, s["binary"]) for s in cfg["subs"]}

    def sub_of(path):
        try:
            for line in open(path, errors="replace"):
                if line.startswith("#"):
                    continue
                if line.startswith("sub "):
                    return line[4:].strip()
                break
        except OSError:
            pass
        return None

    def confirm(path, tag):
        """replay 3x; returns (confirmed, key, msg)"""
        sub = sub_of(path)
        if sub not in sub2bin:
            return False, "", "unknown sub in " + path
        res = [replay_once(sub2bin[sub], path, os.path.join(WORK, "%s.replay.%s" % (pid, tag))) for _ in range(3)]
        bad = [r for r in res if r[0] in ("fail", "crash", "timeout")]
        if len(bad) == 3:
            return True, bad[0][1], bad[0][2]
        if bad:
            log("[%s] flaky replay of %s: %s" % (pid, path, [r[0] for r in res]))
        return False, "", ""

    # ---- replay tier: regression corpus must pass, stored findings are reported as known.
    # One replay each, in parallel; only an unexpected outcome is confirmed (3x) before it counts.
    def replay_job(args):
        kind, obj, path = args
        sub = sub_of(path)
        if sub not in sub2bin:
            return kind, obj, path, ("skip", "", "", "")
        tag = hashlib.sha1(path.encode()).hexdigest()[:10]
        return kind, obj, path, replay_once(sub2bin[sub], path, os.path.join(WORK, "%s.rt.%s" % (pid, tag)), timeout=600)
    rjobs = [("corpus", None, p) for p in sorted(glob.glob(os.path.join(VERIF, "corpus", pid, "*.case")))]
    rjobs += [("finding", f, os.path.join(VERIF, f["replay"])) for f in kf]
    with ThreadPoolExecutor(max_workers=NCPU) as ex:
        rres = list(ex.map(replay_job, rjobs))
    for kind, f, path, (st, key, msg, tail) in rres:
        replayed += 1
        if kind == "corpus":
            if st in ("fail", "crash", "timeout"):
                ok, key, msg = confirm(path, "corpus")
                if ok:
                    violations.append((path, key, msg))
        else:
            if st in ("fail", "crash", "timeout") and any(key_matches(k, key) for k in f["keys"]):
                known_hits.append(f)
                log("KNOWN-FINDING: property=%s %s [%s]" % (pid, f["what"], f["id"]))
            elif st in ("fail", "crash", "timeout"):
                ok, key, msg = confirm(path, "finding")
                if ok and any(key_matches(k, key) for k in f["keys"]):
                    known_hits.append(f)
                    log("KNOWN-FINDING: property=%s %s [%s]" % (pid, f["what"], f["id"]))
                elif ok:
                    violations.append((path, key, msg))
            else:
                log("[%s] note: stored finding %s no longer fails" % (pid, f["id"]))
    exclude = sorted(set(k for f in kf for k in f["keys"]))

    # ---- search tier
    nworkers_total = NCPU
    jobs = []
    subs = [s for s in cfg["subs"] if (only_sub is None or s["name"] == only_sub)]
    cap = cfg.get("cap_s", {}).get(tier, 240 if tier == "quick" else 1500)
    for s in subs:
        n = s[tier]["cases"]
        size = s[tier].get("size", 100)
        w = s[tier].get("workers", 2 if tier == "quick" else 4)
        for k in range(w):
            jobs.append(dict(binary=sub2bin[s["name"]], sub=s["name"], w=k, cases=max(1, n // w), size=size,
                             seed=derive_seed(seed, pid, s["name"], k), exclude=exclude, timeout=cap,
                             prefix=os.path.join(WORK, "%s.%s.%d" % (pid, s["name"], k))))
    with ThreadPoolExecutor(max_workers=nworkers_total) as ex:
        done = list(ex.map(run_worker, jobs))

    # ---- aggregate
    agg = dict(evaluations=0, nontrivial=0, inconclusive=0, excluded=0, classes={}, per_sub={}, not_run=0)
    sigs = set()
    samples = []
    candidates = []
    for j in done:
        st = read_stats(j["prefix"])
        ps = agg["per_sub"].setdefault(j["sub"], dict(evaluations=0, nontrivial=0, distinct_nontrivial=0, inconclusive=0,
                                                      excluded_known=0, requested=0, timed_out_workers=0))
        ps["requested"] += j["cases"]
        if st:
            agg["evaluations"] += st["evaluations"]
            agg["nontrivial"] += st["nontrivial"]
            agg["inconclusive"] += st["inconclusive"]
            agg["excluded"] += st["excluded"]
            ps["evaluations"] += st["evaluations"]
            ps["nontrivial"] += st["nontrivial"]
            ps["inconclusive"] += st["inconclusive"]
            ps["excluded_known"] += st["excluded"]
            for k, v in st["classes"].items():
                agg["classes"][j["sub"] + "/" + k] = agg["classes"].get(j["sub"] + "/" + k, 0) + v
            before = len(sigs)
            sigs.update(j["sub"] + ":" + x for x in st["ntsigs"])
            ps["distinct_nontrivial"] += len(sigs) - before
            if j["w"] == 0:
                samples += [dict(sub=j["sub"], case=t) for t in st["samples"][:2]]
        if j["rc"] == 0:
            continue
        if j["rc"] == -999:
            ps["timed_out_workers"] += 1
            agg["not_run"] += 1
            log("[%s] worker %s.%d hit the wall-clock cap (%ds): remainder not run (inconclusive, not a violation)" % (pid, j["sub"], j["w"], j["timeout"]))
            continue
        # candidate failure
        tag = "%s.%d" % (j["sub"], j["w"])
        dst = os.path.join(VIOL, pid, tag + ".case")
        if j["rc"] == 1 and os.path.exists(j["prefix"] + ".fail"):
            shutil.copy(j["prefix"] + ".fail", dst)
        elif os.path.exists(j["prefix"] + ".current"):
            shutil.copy(j["prefix"] + ".current", dst)
        else:
            log("[%s] worker %s exited %d without a case file:\n%s" % (pid, tag, j["rc"], j["tail"][-1500:]))
            open(dst, "w").write("sub %s\n# worker died before its first case (rc=%d)\n" % (j["sub"], j["rc"]))
            violations.append((dst, "harness-died", "worker exited %d before its first case" % j["rc"]))
            continue
        candidates.append((dst, tag))
    for dst, tag in candidates:
        ok, key, msg = confirm(dst, tag)
        if not ok:
            log("[%s] candidate %s did not reproduce 3x: ignored (flaky), kept at %s" % (pid, tag, dst))
            continue
        hit = [f for f in kf if any(key_matches(k, key) for k in f["keys"])]
        if hit:
            if hit[0] not in known_hits:
                known_hits.append(hit[0])
                log("KNOWN-FINDING: property=%s %s [%s]" % (pid, hit[0]["what"], hit[0]["id"]))
        else:
            violations.append((dst, key, msg))

    wall = time.time() - t_start
    ev = dict(
        property_id=pid, tier=tier, seed=seed, level=cfg["level"],
        coverage=dict(
            evaluations=agg["evaluations"], distinct_nontrivial=len(sigs), nontrivial_total=agg["nontrivial"],
            rule=cfg["rule"], samples=samples[:12], classes=agg["classes"], per_sub=agg["per_sub"],
            inconclusive=agg["inconclusive"], excluded_known=agg["excluded"], replayed=replayed,
            workers_not_finished=agg["not_run"], known_findings_reported=[f["id"] for f in known_hits],
            exhaustive=False),
        assumptions=cfg.get("assumptions", []), wall_s=round(wall, 1), violations=len(violations))
    os.makedirs(os.path.join(VERIF, "evidence"), exist_ok=True)
    json.dump(ev, open(os.path.join(VERIF, "evidence", pid + ".json"), "w"), indent=1)
    log("[%s] tier=%s seed=%d evaluations=%d nontrivial=%d distinct_nontrivial=%d inconclusive=%d excluded_known=%d wall=%.0fs" %
        (pid, tier, seed, agg["evaluations"], agg["nontrivial"], len(sigs), agg["inconclusive"], agg["excluded"], wall))
    seen = set()
    for path, key, msg in violations:
        if (key, path) in seen:
            continue
        seen.add((key, path))
        log("  failure key=%s : %s" % (key, msg[:400]))
        log("VIOLATION property=%s replay=%s" % (pid, path))
    return 1 if violations else 0


def main():
    ap = argparse.ArgumentParser()
    ap.add_argument("pid", nargs="?")
    ap.add_argument("--tier", default=os.environ.get("VERIF_TIER", "quick"))
    ap.add_argument("--seed", type=int, default=int(os.environ.get("VERIF_SEED", "1") or 1))
    ap.add_argument("--setup", action="store_true")
    ap.add_argument("--replay")
    ap.add_argument("--sub")
    a = ap.parse_args()
    if a.setup:
        # only the harnesses of registered checks (work-in-progress files in harness/ are not built)
        targets = {"gstlearn"}
        for cfg in PROPS.values():
            for sdef in cfg.get("subs", []):
                targets.add(sdef["binary"])
            if cfg.get("custom") == "c09":
                targets.add("fz_loaders")
        t = build(sorted(targets))
        log("setup: build complete in %.0fs" % t)
        return 0
    if a.pid not in PROPS:
        raise SystemExit("unknown property %r; known: %s" % (a.pid, " ".join(sorted(PROPS))))
    if PROPS[a.pid].get("custom"):
        import importlib
        mod = importlib.import_module(PROPS[a.pid]["custom"])
        if a.replay:
            return mod.replay_cmd(a.replay)
        return mod.check(a.pid, a.tier, a.seed)
    if a.replay:
        build(sorted(set(s["binary"] for s in PROPS[a.pid]["subs"])))
        sub = None
        for line in open(a.replay, errors="replace"):
            if line.startswith("sub "):
                sub = line[4:].strip()
                break
        b = [s["binary"] for s in PROPS[a.pid]["subs"] if s["name"] == sub]
        if not b:
            raise SystemExit("replay file names unknown sub-property %r" % sub)
        st, key, msg, tail = replay_once(os.path.join(BIN, b[0]), a.replay, os.path.join(WORK, a.pid + ".manual"))
        log(tail[-2000:])
        log("replay: %s %s %s" % (st, key, msg))
        if st in ("fail", "crash", "timeout"):
            log("VIOLATION property=%s replay=%s" % (a.pid, a.replay))
            return 1
        return 0
    return check(a.pid, a.tier, a.seed, a.sub)


SCRATCH = {"C08": "vf_c08_", "C09": "vf_fz_", "C17": "vf_c17_"}


def clean_scratch(pid, t0):
    """removes the private scratch directories that killed or crashed workers of this run left on /dev/shm"""
    pre = SCRATCH.get(pid)
    if not pre:
        return
    import glob, shutil
    for d in glob.glob("/dev/shm/" + pre + "*"):
        try:
            if os.path.getmtime(d) >= t0 - 2:
                shutil.rmtree(d, ignore_errors=True)
        except OSError:
            pass


def main_clean():
    t0 = time.time()
    try:
        return main()
    finally:
        pid = next((x for x in sys.argv[1:] if x in PROPS), None)
        if pid:
            clean_scratch(pid, t0)


if __name__ == "__main__":
    sys.exit(main_clean())
